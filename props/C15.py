"""C15 - mutating while iterating never crashes or damages the container."""
from props import _generic as g


def run(ctx):
    fams = ["II", "OO"] if ctx.tier == "quick" else ["II", "OO", "LF", "fs", "QQ"]
    ctx.cvc(fams, ["M-IDX"])
    fns = g.run_pyvc(ctx, "C15")
    ctx.standin("iter_rt", families=tuple("OO,II".split(",")))
    return "other", (
        "Engine C, M-IDX (translation units %s): the asserted precondition of getBucketEntry (0 <= i < b->len, read on every run "
        "from the non-NDEBUG AST; compiled out of the extension) is proved at every call site, for ALL cursor states - i.e. whatever "
        "mutations happened between two steps: BTreeItems_item (BTreeItems_seek executed in place, loops cut: the proof rests on "
        "the final re-check of the offset against the activated bucket) and BTreeIter_next (cursor invariant currentoffset >= 0 "
        "assumed on entry and proved at every write). So a lazy sequence / iterator never reads a leaf outside its current "
        "length. Engine P (%d functions): a running Python iterator holds the leaf's own list objects, and every leaf mutator "
        "(_set, _del, _split of Bucket and Set) is proved to work IN PLACE on those very objects (clause same_lists) with the "
        "whole new view stated - so an iterator never walks a detached copy that still shows removed entries. "
        "The per-step outcome set {entry, stop, RuntimeError, IndexError}, the Python generators and soundness/contents of "
        "the container afterwards are the bounded stand-in iter_rt (interleavings of steps and mutations, crash-isolated)."
        % (", ".join(fams), len(fns)))
