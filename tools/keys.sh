#!/bin/bash
# keys.sh <module> <families> [args] -> distinct failure keys
cd /verif
mod=$1; fams=$2; shift 2
PYTHONPATH=/verif .venv/bin/python - "$mod" "$fams" "$@" <<'PY'
import sys, os, json, subprocess, tempfile
sys.path.insert(0,'/verif')
from lib import build
mod, fams = sys.argv[1], sys.argv[2].split(',')
b = build.build(tuple(fams))
e = dict(os.environ, PYTHONPATH=b+':/verif', VERIF_FAMILIES=','.join(fams), PYTHONHASHSEED='0')
out=tempfile.mktemp(suffix='.json')
p = subprocess.run(['/verif/.venv/bin/python','-m','rtc.'+mod,'--out',out]+sys.argv[3:], env=e, cwd='/verif', capture_output=True, text=True)
if not os.path.exists(out): print("CRASH", p.stderr[-2000:]); sys.exit(1)
d=json.load(open(out))
print('#', mod, 'evals',d['evaluations'],'distinct',d['distinct_nontrivial'],'failures',len(d['failures']), 'error', d.get('error'))
for k in sorted(set(f['key'] for f in d['failures'])): print(k)
PY
