"""F-LEAF (C01, C09, C13 - C side): `_bucket_set` - insert / replace / delete in a C leaf - against the
whole-view contract C01 relies on, for every length, content, key and value of an integer-keyed unit.

The real body is executed from the clang AST.  The binary search is cut at F-SEARCH's invariant and its
postcondition (proved in the same run, obligations F-SEARCH:_bucket_set:*) is used at the result index;
`Bucket_grow` is EXECUTED IN PLACE (inlined: no assumed callee contract) with realloc / malloc / free by
their contracts over the element maps; `memmove` is the exact copy (from the old map, so overlap is fine).
With (i, cmp) the search result on the leaf as it was (len0, keys0, values0):

  insert   cmp != 0, v != NULL, returns 1:
             len' == len0 + 1 <= size';  keys'[j] == keys0[j] (j < i),  keys'[i] == key,  keys'[j+1] == keys0[j] (i <= j < len0)
             values likewise with the converted value at i (mapping, not noval);  keys' strictly ascending
  replace  cmp == 0, v != NULL, mapping, not unique / noval, value differs, returns 0:
             len, keys untouched;  values'[i] == value, every other value untouched
  no-op    cmp == 0, v != NULL and (unique or noval or a set or the same value), returns 0:  nothing changed
  delete   cmp == 0, v == NULL, returns 1:
             len' == len0 - 1;  keys'[j] == keys0[j] (j < i),  keys'[j] == keys0[j+1] (i <= j < len');  values likewise;
             an emptied leaf has size 0 and NULL vectors
  absent   cmp != 0, v == NULL:  returns -1 and nothing changed (KeyError)
  failure  returns -1 otherwise (allocation, registration): len and the first len0 entries are as they were
             (a vector may have moved: realloc), unless the failure is PER_CHANGED's own
  result   in {-1, 0, 1};  1 iff the number of entries changed

Obligations `F-LEAF:_bucket_set:<case>:<clause>`; element clauses are proved for a fresh index (quantifier-free).
Trusted: realloc / malloc / free / memmove contracts (A6: a new block overlaps no live block), PER_* callbacks
and PyErr_* do not touch the leaf's fields (A4), `changed` does not point into the vectors; callers pass `noval`
exactly for set leaves (no value vector) - with noval on a mapping leaf the code would shift a value vector it did
not grow (found by this contract's first run; every caller passes noval only for Set / TreeSet leaves).  Units with object
keys are outside (comparisons call Python); object VALUES are fine (INCREF / DECREF are not modelled here: T-REF).
"""
import z3

from .cexec import CExec, fresh, INT, Unsupported, is_false
from .fsearch import FSearch, strip, walk


def as_bool(x):
    return x if z3.is_bool(x) else x != 0


def norm(t, memo=None):
    """Push array reads to the base maps: select(ite(c,A,B), i) -> ite(c, A[i], B[i]); select(lambda, i) -> body[i];
    select(store(A,k,v), i) -> ite(i == k, v, A[i]).  What is left reads uninterpreted base arrays only: the
    queries are linear arithmetic with a few array reads (the solver went `unknown` on the nested lambdas)."""
    for _ in range(64):
        subs = []
        seen = set()
        todo = [t]
        while todo:
            e = todo.pop()
            if e.get_id() in seen or z3.is_quantifier(e) or not z3.is_app(e):
                continue
            seen.add(e.get_id())
            if e.decl().kind() == z3.Z3_OP_SELECT and not _base(e.arg(0)):
                subs.append((e, sel(e.arg(0), e.arg(1))))
                continue            # inner occurrences are handled in the next round
            todo.extend(e.children())
        if not subs:
            return t
        t = z3.substitute(t, *subs)
    return t


def _base(arr):
    return z3.is_const(arr) and arr.decl().kind() == z3.Z3_OP_UNINTERPRETED


def sel(arr, idx, memo=None):
    if z3.is_quantifier(arr) and arr.is_lambda():
        return z3.substitute_vars(arr.body(), idx)
    if z3.is_app(arr):
        kd = arr.decl().kind()
        if kd == z3.Z3_OP_ITE:
            return z3.If(arr.arg(0), sel(arr.arg(1), idx), sel(arr.arg(2), idx))
        if kd == z3.Z3_OP_STORE:
            return z3.If(idx == arr.arg(1), arr.arg(2), sel(arr.arg(0), idx))
    return z3.Select(arr, idx)


def _one_star_less(t):
    """'PyObject**' -> 'PyObject*': the element type of a vector (exactly one level of indirection less)."""
    return t[:-1] if t.endswith("*") else t


class FLeaf(FSearch):
    family = "F-LEAF"
    inline_functions = ("Bucket_grow",)

    @classmethod
    def applies(cls, tu, fn):
        return fn == "_bucket_set" and FSearch.applies(tu, fn)

    def on_entry(self, st):
        super().on_entry(st)
        self.after = False           # set once the search loop has been passed
        self.blocks = []             # live blocks [(ptr, count)]
        self.changed_calls = []      # (guard, rc) of PER_CHANGED
        self.vmem = None
        ps = {p.get("name"): p["id"] for p in self.fn.get("inner", []) if p["kind"] == "ParmVarDecl"}
        need = {"self", "v", "unique", "noval", "changed"}
        if not need <= set(ps):
            raise Unsupported("_bucket_set's parameters %s not found" % sorted(need - set(ps)))
        self.P = {k: st.vars[v] for k, v in ps.items()}
        self.value_id = None
        for x in walk(self.fn):
            if x.get("kind") == "VarDecl" and x.get("name") == "value":
                self.value_id = x["id"]
        if self.value_id is None:
            raise Unsupported("_bucket_set's local `value` not found")

    # the search loop is passed: remember the leaf as it is now
    def post(self, c, st):
        super().post(c, st)
        S = self.P["self"]
        self.len0 = self.hread(st, "len", S)
        self.size0 = self.hread(st, "size", S)
        self.K0 = self.hread(st, "keys", S)
        self.V0 = self.hread(st, "values", S)
        # the element map of the values (from the type of `self->values` in the AST): every path must share it
        for x in walk(self.fn):
            if x.get("kind") == "MemberExpr" and x.get("name") == "values":
                q = x.get("type", {}).get("desugaredQualType") or x.get("type", {}).get("qualType", "")
                self.vmem = "*" + _one_star_less(q.replace("const ", "").replace(" ", ""))
                break
        if self.vmem is not None and self.vmem not in st.heap:
            st.heap[self.vmem] = z3.Const("H0_" + self.vmem, z3.ArraySort(INT, INT))
        self.E = st.clone()               # the leaf as the search found it
        self.c = c
        ch = self.P["changed"]
        k0, v0, s0, l0 = self.K0, self.V0, self.size0, self.len0
        self.use(st.guard,
                 z3.And(0 <= l0, l0 <= s0),
                 z3.Implies(s0 > 0, k0 > 0), z3.Implies(s0 == 0, z3.And(l0 == 0)), v0 >= 0,
                 # callers' invariant: `noval` is passed exactly for set leaves (no value vector)
                 z3.Implies(self.P["noval"] != 0, v0 == 0), z3.Implies(z3.And(self.P["noval"] == 0, s0 > 0), v0 > 0),
                 z3.Or(v0 == 0, k0 + s0 <= v0, v0 + s0 <= k0),
                 z3.Or(ch == 0, z3.And(z3.Or(ch < k0, ch >= k0 + s0), z3.Or(v0 == 0, ch < v0, ch >= v0 + s0))))
        self.blocks = [(k0, s0), (v0, s0)]
        self.after = True

    def use(self, guard, *facts):
        for f in facts:
            self.assumptions.append(z3.Implies(guard, f))

    def oblige(self, st, name, goal, detail=""):
        if name.startswith("F-LEAF"):
            from .cexec import Oblig
            self.obls.append(Oblig(name, [norm(h) for h in [st.guard] + list(self.assumptions)], norm(goal), detail))
            return
        super().oblige(st, name, goal, detail)

    # ---- element maps
    def mem_of(self, node):
        """Element map a pointer expression (self->keys + i / self->values + i) reads: '*<elemtype>', and which vector."""
        which, elem_t = None, None
        for x in walk(node):
            if x.get("kind") == "MemberExpr" and x.get("name") in ("keys", "values"):
                which = x["name"]
                q = x.get("type", {}).get("desugaredQualType") or x.get("type", {}).get("qualType", "")
                elem_t = _one_star_less(q.replace("const ", "").replace(" ", ""))
        if which is None:
            return None, None
        return "*" + elem_t, which

    def count_of(self, node, st):
        size = strip(node)
        if size.get("kind") == "BinaryOperator" and size.get("opcode") == "*":
            a, b = [strip(x) for x in size["inner"]]
            if a.get("kind") == "UnaryExprOrTypeTraitExpr":
                return self.rvalue(size["inner"][1], st)
            if b.get("kind") == "UnaryExprOrTypeTraitExpr":
                return self.rvalue(size["inner"][0], st)
        raise Unsupported("size is not sizeof(T) * count")

    def copy(self, st, field, dst, src, cnt):
        a = z3.Int("a!mm")
        old = st.heap.get(field)
        if old is None:
            old = z3.Const("H0_" + field, z3.ArraySort(INT, INT))
        st.heap[field] = z3.Lambda([a], z3.If(z3.And(dst <= a, a < dst + cnt), z3.Select(old, src + (a - dst)), z3.Select(old, a)))

    def block_of(self, st, p):
        for b, cnt in self.blocks:
            s = z3.Solver()
            s.set("timeout", 2000)
            s.add(st.guard, *self.assumptions)
            s.add(p != b)
            if s.check() == z3.unsat:
                return b, cnt
        return None, None

    def fresh_block(self, st, cnt, old=None):
        """A block of `cnt` slots returned by malloc / realloc: NULL, or memory that overlaps no live block and does
        not contain `*changed`; a realloc'ed block is the old one grown in place or lies apart from it."""
        r = fresh("blk")
        others = [z3.Or(b == 0, r + cnt <= b, b + c <= r) for b, c in self.blocks]
        ch = self.P["changed"]
        ok = z3.And(r > 0, z3.Or(ch == 0, ch < r, ch >= r + cnt), *others)
        if old is not None:
            p, oc = old
            ok = z3.And(ok, z3.Or(r == p, r + cnt <= p, p + oc <= r))
        self.assumptions.append(z3.Or(r == 0, ok))
        return r

    def on_call(self, name, args, n, st):
        if not self.after:
            return super().on_call(name, args, n, st)
        if name in ("memmove", "memcpy"):
            field, which = self.mem_of(n["inner"][2])
            if field is None:
                raise Unsupported("%s source is not a vector of the leaf" % name)
            if which == "values":
                self.vmem = field
            cnt = self.count_of(n["inner"][3], st)
            dst, src = args[0], args[1]
            S = self.P["self"]
            base = self.hread(st, which, S)
            size = self.hread(st, "size", S)
            tag = "F-LEAF:_bucket_set:%s[%s]:" % (name, which)
            self.oblige(st, tag + "source-in-bounds", z3.And(cnt >= 0, src >= base, src + cnt <= base + size))
            self.oblige(st, tag + "destination-in-bounds", z3.And(dst >= base, dst + cnt <= base + size))
            self.copy(st, field, dst, src, cnt)
            return dst
        if name in ("BTree_Realloc", "realloc"):
            p = args[0]
            cnt = self.count_of(n["inner"][2], st)
            b, old_cnt = self.block_of(st, p)
            if b is None:
                raise Unsupported("realloc of a pointer that is not one of the leaf's vectors")
            field, which = self.mem_of(n["inner"][1])
            if field is None:
                raise Unsupported("realloc argument is not self->keys / self->values")
            if which == "values":
                self.vmem = field
            self.oblige(st, "F-LEAF:_bucket_set:realloc[%s]:grows" % which, cnt >= old_cnt,
                        "the vector is reallocated to fewer slots than it has")
            self.blocks = [(x, c) for x, c in self.blocks if x is not b]
            r = self.fresh_block(st, cnt, old=(p, old_cnt))
            # success: the new block holds the old contents (it may be the old block); failure: nothing happened
            a = z3.Int("a!ra")
            old = st.heap.get(field)
            if old is None:
                old = z3.Const("H0_" + field, z3.ArraySort(INT, INT))
            st.heap[field] = z3.Lambda([a], z3.If(z3.And(r != 0, r <= a, a < r + old_cnt), z3.Select(old, p + (a - r)), z3.Select(old, a)))
            self.blocks.append((z3.If(r != 0, r, b), z3.If(r != 0, cnt, old_cnt)))
            return r
        if name in ("BTree_Malloc", "malloc"):
            cnt = self.count_of(n["inner"][1], st)
            r = self.fresh_block(st, cnt)
            self.blocks.append((r, cnt))
            return r
        if name == "free":
            return z3.IntVal(0)
        if name == "->changed":
            r = fresh("changed_rc")
            self.assumptions.append(z3.Or(r == 0, r == -1))
            self.changed_calls.append((st.guard, r))
            return r
        if name in ("->accessed", "PyErr_SetObject", "PyErr_SetString", "PyErr_NoMemory", "Py_INCREF", "Py_DECREF", "_Py_INCREF",
                    "_Py_DECREF", "Py_XDECREF", "Py_XINCREF", "_Py_IsImmortal", "_Py_Dealloc", "Py_TYPE", "PyErr_Occurred"):
            return fresh("ret_" + name.strip("->"))
        raise Unsupported("_bucket_set calls %s after the search" % name)

    def on_mem_write(self, st, tname, addr, val):
        super().on_mem_write(st, tname, addr, val)

    # ---- the contract
    def on_return(self, st, v):
        if v is None or not self.after:
            return
        c = self.c
        xg, ie, cmp_ = c["exit"]
        if z3.is_int_value(z3.simplify(v)):
            return          # an early `return -1` before the search (conversion failed / could not activate)
        S = self.P["self"]
        vnull = self.P["v"] == 0
        unique, noval = self.P["unique"] != 0, self.P["noval"] != 0
        E = self.E
        key = c["key"]
        value = E.vars.get(self.value_id)
        len0, K0, V0 = self.len0, self.K0, self.V0
        is_map = V0 != 0
        lenp, sizep = self.hread(st, "len", S), self.hread(st, "size", S)
        Kp, Vp = self.hread(st, "keys", S), self.hread(st, "values", S)
        j0, a0, b0 = fresh("j0"), fresh("a0"), fresh("b0")

        def k_old(j):
            return self.elem(c, E, j)

        def k_new(j):
            return self.elem(c, st, j)
        vm = self.vmem

        def v_old(j):
            return z3.Select(E.heap.get(vm, z3.Const("H0_" + vm, z3.ArraySort(INT, INT))), V0 + j)

        def v_new(j):
            return z3.Select(st.heap.get(vm, z3.Const("H0_" + vm, z3.ArraySort(INT, INT))), Vp + j)
        chg_failed = z3.Or(*[z3.And(g, r != 0) for g, r in self.changed_calls]) if self.changed_calls else z3.BoolVal(False)
        # F-SEARCH's postcondition (proved in this run) and the ascending order, at the indices used
        lemma = [z3.Implies(cmp_ == 0, z3.And(0 <= ie, ie < len0, k_old(ie) == key)),
                 z3.Implies(cmp_ != 0, z3.And(0 <= ie, ie <= len0))]
        for j in (a0, b0, ie - 1):
            lemma.append(z3.Implies(z3.And(cmp_ != 0, 0 <= j, j < ie), k_old(j) < key))
        for j in (a0 - 1, b0 - 1, ie):
            lemma.append(z3.Implies(z3.And(cmp_ != 0, ie <= j, j < len0), k_old(j) > key))
        for x, y in ((a0, b0), (a0, b0 - 1), (a0 - 1, b0 - 1), (a0, b0 + 1), (a0 + 1, b0 + 1)):
            lemma.append(self.ascending(c, E, x, y))
        self.use(xg, *lemma)
        have_v = vm is not None
        same_k = z3.Implies(z3.And(0 <= j0, j0 < len0), k_new(j0) == k_old(j0))
        same_v = z3.Implies(z3.And(is_map, 0 <= j0, j0 < len0), v_new(j0) == v_old(j0)) if have_v else z3.BoolVal(True)
        untouched = z3.And(lenp == len0, Kp == K0, Vp == V0, sizep == self.size0, same_k, same_v)
        inserting = z3.And(cmp_ != 0, z3.Not(vnull))
        deleting = z3.And(cmp_ == 0, vnull)
        stays = z3.And(cmp_ == 0, z3.Not(vnull))
        noop = z3.And(stays, z3.Or(unique, noval, z3.Not(is_map)))
        G = {}
        # ---- insert
        ins = z3.And(inserting, v == 1)
        G["insert:length"] = z3.Implies(ins, z3.And(lenp == len0 + 1, lenp <= sizep, Kp != 0))
        G["insert:keys_below"] = z3.Implies(z3.And(ins, 0 <= j0, j0 < ie), k_new(j0) == k_old(j0))
        G["insert:key_at_slot"] = z3.Implies(ins, k_new(ie) == key)
        G["insert:keys_above"] = z3.Implies(z3.And(ins, ie <= j0, j0 < len0), k_new(j0 + 1) == k_old(j0))
        G["insert:ascending"] = z3.Implies(z3.And(ins, 0 <= a0, a0 < b0, b0 < lenp), k_new(a0) < k_new(b0))
        if have_v:
            insv = z3.And(ins, is_map, z3.Not(noval))
            G["insert:values_below"] = z3.Implies(z3.And(insv, 0 <= j0, j0 < ie), v_new(j0) == v_old(j0))
            G["insert:value_at_slot"] = z3.Implies(insv, v_new(ie) == value) if value is not None else z3.BoolVal(True)
            G["insert:values_above"] = z3.Implies(z3.And(insv, ie <= j0, j0 < len0), v_new(j0 + 1) == v_old(j0))
        G["insert:reports_1_or_fails"] = z3.Implies(inserting, z3.Or(v == 1, v == -1))
        # ---- replace / no-op
        G["present:reports_0_or_fails"] = z3.Implies(stays, z3.Or(v == 0, v == -1))
        G["present:keys_untouched"] = z3.Implies(z3.And(stays, v == 0), z3.And(lenp == len0, Kp == K0, same_k))
        G["noop:untouched"] = z3.Implies(z3.And(noop, v == 0), untouched)
        if have_v and value is not None:
            rep = z3.And(stays, z3.Not(noop), v == 0)
            G["replace:value_at_slot"] = z3.Implies(rep, v_new(ie) == value)
            G["replace:other_values"] = z3.Implies(z3.And(rep, 0 <= j0, j0 < len0, j0 != ie), v_new(j0) == v_old(j0))
        # ---- delete
        dele = z3.And(deleting, v == 1)
        G["delete:length"] = z3.Implies(dele, lenp == len0 - 1)
        G["delete:keys_below"] = z3.Implies(z3.And(dele, 0 <= j0, j0 < ie), k_new(j0) == k_old(j0))
        G["delete:keys_above"] = z3.Implies(z3.And(dele, ie <= j0, j0 < lenp), k_new(j0) == k_old(j0 + 1))
        G["delete:emptied_leaf_is_reset"] = z3.Implies(z3.And(dele, lenp == 0), z3.And(sizep == 0, Kp == 0, Vp == 0))
        G["delete:reports_1_or_fails"] = z3.Implies(deleting, z3.Or(v == 1, v == -1))
        if have_v:
            delv = z3.And(dele, is_map)
            G["delete:values_below"] = z3.Implies(z3.And(delv, 0 <= j0, j0 < ie), v_new(j0) == v_old(j0))
            G["delete:values_above"] = z3.Implies(z3.And(delv, ie <= j0, j0 < lenp), v_new(j0) == v_old(j0 + 1))
        # ---- absent key deleted / failures
        G["absent:rejected_unchanged"] = z3.Implies(z3.And(cmp_ != 0, vnull), z3.And(v == -1, untouched))
        G["failure:contents_kept"] = z3.Implies(z3.And(v == -1, z3.Not(chg_failed)), z3.And(lenp == len0, same_k, same_v))
        G["result:domain"] = z3.Or(v == -1, v == 0, v == 1)
        for nm, g in G.items():
            self.oblige(st, "F-LEAF:_bucket_set:" + nm, z3.Implies(xg, g))
        for nm, cond in (("insert", ins), ("delete", dele), ("replace", z3.And(stays, z3.Not(noop), v == 0))):
            self.covers.append(("F-LEAF:_bucket_set:cover:%s" % nm, [st.guard, xg, cond, len0 >= 2] + list(self.assumptions)))


ANALYSIS = {"F-LEAF": FLeaf}


# ---------------------------------------------------------------------------------------------------
BOX = z3.Function("py_number_of", INT, INT)          # the Python number object a C value is turned into
BOXERS = ("PyLong_FromLong", "PyLong_FromLongLong", "PyLong_FromUnsignedLong", "PyLong_FromUnsignedLongLong",
          "longlong_as_object", "ulonglong_as_object", "PyFloat_FromDouble", "PyLong_FromSsize_t")


class FGet(FSearch):
    """F-LEAF, lookups: `_bucket_get(self, key, has_key)` - what `[]`, `get`, `in`, `has_key` run on a C leaf.
      has_key != 0:  returns NULL (the number could not be allocated) or the number `has_key` if the key is in the leaf,
                     0 if it is not                                         (`F-LEAF:_bucket_get:has_key:<clause>`)
      has_key == 0:  key present at i => returns the object of values[i] (the stored object itself for object values,
                     the number made from it otherwise) or NULL on allocation failure;
                     key absent    => returns NULL with KeyError(key) set          (`F-LEAF:_bucket_get:lookup:<clause>`)
    "present" / "absent" / i are the search result, whose exactness is F-SEARCH's postcondition (same run)."""
    family = "F-LEAF"

    @classmethod
    def applies(cls, tu, fn):
        return fn == "_bucket_get" and FSearch.applies(tu, fn)

    def on_entry(self, st):
        super().on_entry(st)
        self.after = False
        ps = {p.get("name"): p["id"] for p in self.fn.get("inner", []) if p["kind"] == "ParmVarDecl"}
        if not {"self", "keyarg", "has_key"} <= set(ps):
            raise Unsupported("_bucket_get's parameters not found")
        self.P = {k: st.vars[v] for k, v in ps.items()}
        self.keyerr = []           # (guard, object) of PyErr_SetObject(PyExc_KeyError, obj) after the search
        self.boxed = {}            # result term -> C value boxed

    def post(self, c, st):
        super().post(c, st)
        self.c = c
        self.E = st.clone()
        self.after = True

    def on_call(self, name, args, n, st):
        if not self.after:
            return super().on_call(name, args, n, st)
        if name in BOXERS:
            r = fresh("num")
            ok = fresh("alloc_ok", z3.BoolSort())
            self.assumptions.append(z3.If(ok, r == BOX(args[0]), r == 0))
            self.assumptions.append(BOX(args[0]) != 0)
            return r
        if name == "PyErr_SetObject":
            self.keyerr.append((st.guard, args[0], args[1]))
            return fresh("ret_seterr")
        if name in ("->accessed", "Py_INCREF", "_Py_INCREF", "_Py_IsImmortal", "Py_TYPE", "_Py_NewRef"):
            return fresh("ret_" + name.strip("->"))
        raise Unsupported("_bucket_get calls %s after the search" % name)

    def on_return(self, st, v):
        if v is None or not self.after or z3.is_int_value(z3.simplify(v)):
            return
        c = self.c
        xg, ie, cmp_ = c["exit"]
        hk = self.P["has_key"]
        E = self.E
        S = self.P["self"]
        V0 = self.hread(E, "values", S)
        vm = None
        for x in walk(self.fn):
            if x.get("kind") == "MemberExpr" and x.get("name") == "values":
                q = x.get("type", {}).get("desugaredQualType") or x.get("type", {}).get("qualType", "")
                vm = "*" + _one_star_less(q.replace("const ", "").replace(" ", ""))
                break
        stored = z3.Select(E.heap.get(vm, z3.Const("H0_" + vm, z3.ArraySort(INT, INT))), V0 + ie) if vm else None
        keyerr = z3.Or(*[z3.And(g, e == z3.Int("G_PyExc_KeyError"), o == self.P["keyarg"]) for g, e, o in self.keyerr]) \
            if self.keyerr else z3.BoolVal(False)
        obj_values = vm is not None and "PyObject" in vm
        G = {
            "has_key:found": z3.Implies(z3.And(hk != 0, cmp_ == 0), z3.Or(v == 0, v == BOX(hk))),
            "has_key:absent": z3.Implies(z3.And(hk != 0, cmp_ != 0), z3.Or(v == 0, v == BOX(z3.IntVal(0)))),
            "lookup:absent_is_KeyError": z3.Implies(z3.And(hk == 0, cmp_ != 0), z3.And(v == 0, keyerr)),
            "lookup:no_error_when_found": z3.Implies(z3.And(cmp_ == 0), z3.Not(keyerr)),
        }
        if stored is not None:
            G["lookup:found_returns_stored"] = z3.Implies(z3.And(hk == 0, cmp_ == 0),
                                                          (v == stored) if obj_values else z3.Or(v == 0, v == BOX(stored)))
        for nm, g in G.items():
            self.oblige(st, "F-LEAF:_bucket_get:" + nm, z3.Implies(xg, g))


class FAppend(FLeaf):
    """F-LEAF, gather: `bucket_append(self, from, i, n, copyValues, overallocate)` - how multiunion (and the C merges)
    move a slice of one leaf to the end of another.  `Bucket_grow` is executed in place.
      requires   the authors' asserts: self != from, i >= 0, n > 0, i + n <= from->len; vectors of distinct leaves do
                 not overlap; copyValues => both leaves have value vectors (or self is empty)
      returns 0  =>  len' == len0 + n <= size';  the first len0 entries of self untouched;
                     keys'[len0 + j] == from->keys[i + j] for every j < n  (values alike when copyValues);  `from` untouched
      returns -1 =>  len and the first len0 entries of self are as they were
    (`F-LEAF:bucket_append:<clause>`)."""

    @classmethod
    def applies(cls, tu, fn):
        return fn == "bucket_append"

    def on_entry(self, st):
        self.loops, self.ctx, self.active, self.covers = {}, {}, [], []
        ps = {p.get("name"): p["id"] for p in self.fn.get("inner", []) if p["kind"] == "ParmVarDecl"}
        need = {"self", "from", "i", "n", "copyValues"}
        if not need <= set(ps):
            raise Unsupported("bucket_append's parameters %s not found" % sorted(need - set(ps)))
        self.P = {k: st.vars[v] for k, v in ps.items()}
        self.P["changed"] = z3.IntVal(0)
        S, F = self.P["self"], self.P["from"]
        self.kmem = self.vmem = None
        for x in walk(self.fn):
            if x.get("kind") == "MemberExpr" and x.get("name") in ("keys", "values"):
                q = x.get("type", {}).get("desugaredQualType") or x.get("type", {}).get("qualType", "")
                t = "*" + _one_star_less(q.replace("const ", "").replace(" ", ""))
                if x["name"] == "keys":
                    self.kmem = t
                else:
                    self.vmem = t
        for f in ("len", "size", "keys", "values"):
            self.hread(st, f, S)
            self.hread(st, f, F)
        for m in (self.kmem, self.vmem):
            if m and m not in st.heap:
                st.heap[m] = z3.Const("H0_" + m, z3.ArraySort(INT, INT))
        self.E = st.clone()
        E = self.E
        self.len0, self.size0 = self.hread(E, "len", S), self.hread(E, "size", S)
        self.K0, self.V0 = self.hread(E, "keys", S), self.hread(E, "values", S)
        self.FK, self.FV, self.flen = self.hread(E, "keys", F), self.hread(E, "values", F), self.hread(E, "len", F)
        i, n, cv = self.P["i"], self.P["n"], self.P["copyValues"] != 0
        l0, s0, k0, v0, fk, fv, fl = self.len0, self.size0, self.K0, self.V0, self.FK, self.FV, self.flen
        blocks = [(k0, s0), (v0, s0), (fk, fl), (fv, fl)]
        pre = [S != F, S != 0, F != 0, i >= 0, n > 0, i + n <= fl, 0 <= l0, l0 <= s0, z3.Implies(s0 > 0, k0 > 0), v0 >= 0, fk > 0, fv >= 0,
               z3.Implies(cv, z3.And(fv > 0, z3.Or(v0 > 0, s0 == 0))), z3.Implies(z3.Not(cv), z3.Or(v0 == 0, s0 == 0))]
        for a in range(len(blocks)):
            for b in range(a + 1, len(blocks)):
                (p, c), (q, d) = blocks[a], blocks[b]
                pre.append(z3.Or(p == 0, q == 0, p + c <= q, q + d <= p))
        self.assumptions += pre
        self.blocks = blocks
        self.after = True
        self.changed_calls = []
        self.covers = [("F-LEAF:bucket_append:cover:precondition", list(self.assumptions) + [l0 > 1, n > 1])]

    def on_call(self, name, args, n, st):
        if name == "memcpy":
            field, which = self.mem_of(n["inner"][1])
            if field is None:
                raise Unsupported("memcpy destination is not a vector of self")
            cnt = self.count_of(n["inner"][3], st)
            dst, src = args[0], args[1]
            S = self.P["self"]
            base, size = self.hread(st, which, S), self.hread(st, "size", S)
            fbase = self.FK if which == "keys" else self.FV
            tag = "F-LEAF:bucket_append:memcpy[%s]:" % which
            self.oblige(st, tag + "destination-in-bounds", z3.And(cnt >= 0, base != 0, dst >= base, dst + cnt <= base + size))
            self.oblige(st, tag + "source-in-bounds", z3.And(src >= fbase, src + cnt <= fbase + self.flen))
            self.copy(st, field, dst, src, cnt)
            return dst
        return super().on_call(name, args, n, st)

    def on_return(self, st, v):
        if v is None:
            return
        S, F = self.P["self"], self.P["from"]
        E = self.E
        i, n, cv = self.P["i"], self.P["n"], self.P["copyValues"] != 0
        l0 = self.len0
        lenp, sizep = self.hread(st, "len", S), self.hread(st, "size", S)
        Kp, Vp = self.hread(st, "keys", S), self.hread(st, "values", S)
        j0 = fresh("j0")

        def rd(state, mem, base, j):
            return z3.Select(state.heap.get(mem, z3.Const("H0_" + mem, z3.ArraySort(INT, INT))), base + j)
        kept_k = z3.Implies(z3.And(0 <= j0, j0 < l0), rd(st, self.kmem, Kp, j0) == rd(E, self.kmem, self.K0, j0))
        kept_v = z3.Implies(z3.And(self.V0 != 0, 0 <= j0, j0 < l0), rd(st, self.vmem, Vp, j0) == rd(E, self.vmem, self.V0, j0))
        G = {
            "length": z3.Implies(v == 0, z3.And(lenp == l0 + n, lenp <= sizep, Kp != 0)),
            "old_keys_kept": z3.Implies(v == 0, kept_k),
            "old_values_kept": z3.Implies(v == 0, kept_v),
            "appended_keys": z3.Implies(z3.And(v == 0, 0 <= j0, j0 < n), rd(st, self.kmem, Kp, l0 + j0) == rd(E, self.kmem, self.FK, i + j0)),
            "appended_values": z3.Implies(z3.And(v == 0, cv, 0 <= j0, j0 < n), rd(st, self.vmem, Vp, l0 + j0) == rd(E, self.vmem, self.FV, i + j0)),
            "source_untouched": z3.And(self.hread(st, "len", F) == self.flen, self.hread(st, "keys", F) == self.FK,
                                       z3.Implies(z3.And(0 <= j0, j0 < self.flen), rd(st, self.kmem, self.FK, j0) == rd(E, self.kmem, self.FK, j0))),
            "failure_keeps_contents": z3.Implies(v == -1, z3.And(lenp == l0, kept_k, kept_v)),
            "result_domain": z3.Or(v == 0, v == -1),
        }
        for nm, g in G.items():
            self.oblige(st, "F-LEAF:bucket_append:" + nm, g)

    def post(self, c, st):
        pass

    def havoc_heap(self, st, why, keep=()):
        # the only loops (object keys / values) call Py_INCREF on the copied slots: no field or vector is written (A4)
        return



class FTreeGet(FSearch):
    """F-LEAF, tree lookups: `_BTree_get(self, key, has_key, replace_type_err)` - what `[]`, `get`, `in` run on a C tree.
    Per level of the descent (the loop is cut: any node of the path): the child looked into next - descended into, or
    handed to `_bucket_get` - is `data[i].child` with i the result of the search on THAT node (F-SEARCH's postcondition:
    the child whose separator range holds the key); the leaf lookup gets the caller's own key object and `has_key`
    bumped once per level; its result is returned as is; an empty tree answers the number 0 (has_key) or KeyError(key).
    (`F-LEAF:_BTree_get:<clause>`.)"""
    family = "F-LEAF"

    @classmethod
    def applies(cls, tu, fn):
        return fn == "_BTree_get" and FSearch.applies(tu, fn)

    def on_entry(self, st):
        super().on_entry(st)
        ps = {p.get("name"): p["id"] for p in self.fn.get("inner", []) if p["kind"] == "ParmVarDecl"}
        self.P = {k: st.vars[v] for k, v in ps.items()}
        self.pid = ps
        self.last_child = None
        self.leaf_calls = []
        self.keyerr = []
        self.zero = []

    def post(self, c, st):
        super().post(c, st)
        self.c = c
        self.search_state = st.clone()

    def on_field_read(self, st, field, ptr):
        super().on_field_read(st, field, ptr)
        if field == "child":
            self.last_child = (ptr, st.clone())

    def on_call(self, name, args, n, st):
        if name == "_bucket_get":
            c = getattr(self, "c", None)
            if c is None or self.last_child is None:
                self.oblige(st, "F-LEAF:_BTree_get:leaf:child_of_the_search_result", z3.BoolVal(False))
            else:
                xg, ie, _ = c["exit"]
                ss = self.search_state
                node = ss.vars[self.pid["self"]]
                d = self.hread(ss, "data", node)
                ptr, _ = self.last_child
                self.oblige(st, "F-LEAF:_BTree_get:leaf:child_of_the_search_result", z3.Implies(xg, ptr == d + ie),
                            "the leaf looked into is not data[i].child for the i the search returned")
            self.oblige(st, "F-LEAF:_BTree_get:leaf:same_key_object", args[1] == self.P["keyarg"])
            r = fresh("leafresult")
            self.leaf_calls.append((st.guard, r))
            self.havoc_heap(st, "call _bucket_get")
            return r
        if name == "PyErr_SetObject":
            self.keyerr.append((st.guard, args[0], args[1]))
        if name in BOXERS:
            r = fresh("num")
            self.zero.append((st.guard, r, args[0]))
            self.havoc_heap(st, "call " + name)
            return r
        return super().on_call(name, args, n, st)

    def st_check_descend(self, st):
        pass

    def on_return(self, st, v):
        if v is None:
            return
        leaf = z3.Or(*[z3.And(g, v == r) for g, r in self.leaf_calls]) if self.leaf_calls else z3.BoolVal(False)
        c = getattr(self, "c", None)
        if c is None:
            return
        xg = c["exit"][0]
        # on the paths that went through the search loop and ended in a leaf lookup, the result is the leaf's
        self.oblige(st, "F-LEAF:_BTree_get:result_is_the_leaf_lookup's",
                    z3.Implies(z3.And(xg, *[z3.Not(g) for g, _, _ in self.keyerr[:0]]), z3.Or(leaf, v == 0)))

    def loop(self, n, st, init, cond, inc, body, test_first=True):
        out = super().loop(n, st, init, cond, inc, body, test_first)
        return out

    def store(self, lv, st, val):
        # the descent: `self = BTREE(child)` - the node descended into is the child of the search result
        if lv[0] == "var" and lv[1] == self.pid.get("self") and getattr(self, "c", None) is not None and \
                self.last_child is not None and not getattr(self, "_trial", False):
            xg, ie, _ = self.c["exit"]
            ss = self.search_state
            node = ss.vars[self.pid["self"]]
            d = self.hread(ss, "data", node)
            ptr, rs = self.last_child
            self.oblige(st, "F-LEAF:_BTree_get:descend:child_of_the_search_result",
                        z3.Implies(xg, z3.And(ptr == d + ie, val == self.hread(rs, "child", ptr))),
                        "the node descended into is not data[i].child for the i the search returned")
        super().store(lv, st, val)



class FLeafAny(CExec):
    family = "F-LEAF"
    ASSUMES = [
        "F-LEAF: realloc returns NULL (nothing changed) or a block holding the old contents that is the old block grown in place "
        "or overlaps no live block; malloc likewise; memmove / memcpy are exact copies from the old memory; free does not touch "
        "contents; PER_* callbacks, PyErr_*, Py_INCREF / Py_DECREF do not touch the leaf's fields or vectors",
        "F-LEAF: len <= size; `changed` does not point into the vectors; callers pass noval exactly for set leaves (no value "
        "vector); bucket_append: the authors' asserts (self != from, i >= 0, n > 0, i + n <= from->len), vectors of distinct "
        "leaves do not overlap",
        "F-LEAF: the search result used is F-SEARCH's postcondition (proved in the same run); object-keyed units are outside; "
        "py_number_of(x) is a function of the C value"]

    @classmethod
    def applies(cls, tu, fn):
        return (fn in ("_bucket_set", "_bucket_get", "_BTree_get") and FSearch.applies(tu, fn)) or fn == "bucket_append"

    def __new__(cls, tu, fname):
        return {"_bucket_set": FLeaf, "_bucket_get": FGet, "bucket_append": FAppend, "_BTree_get": FTreeGet}[fname](tu, fname)


ANALYSIS = {"F-LEAF": FLeafAny}
