"""Bounded stand-in for C02 (range searches and lazy sequences are exact).

Oracle = the statement of C02 in /verif/properties.jsonl, clause by clause:

  [R] "keys(), values(), items() and their iter* forms, called with any
      combination of min, max, excludemin and excludemax, return exactly the
      stored entries whose keys lie in the requested interval, in ascending
      order; an omitted or None bound means unbounded, and an exclusive omitted
      bound drops only the overall smallest (largest) key."     -> expected()
  [M] "minKey(b)/maxKey(b) return the least key >= b / greatest key <= b or
      raise ValueError when there is none"                      -> check_minmax()
  [L] "the lazy sequences returned by trees agree with the equivalent list
      under len(), positive and negative indexing and step-1 slicing."
                                                                -> check_lazy()
  "This holds for every reachable internal shape, including trees thinned by
  deletions."  -> the states come from insert/delete histories (reach()).

  "separators that are no longer present in their leaf" (why_tests_cant) /
  anchors.state "stale separators": a separator may be smaller than the
  smallest key of the child it points to (docs/development.rst, "BTree Clues";
  _check() and BTrees.check.check() accept such trees).  Insert/delete
  histories of the current code refresh the separator, so these shapes are
  built through __setstate__ (stale_specs()/build_state()): 2-, 3- and 4-level
  trees, single-child roots included, every separator anywhere in
  (largest key on its left, smallest key on its right]; the same oracle
  [R][M][L] runs on them.  Failure keys of these states start with "stale:".

Nothing is taken from the code under test: the expected answer is computed on
the reference key set kept next to the container.  Keys live at the even
positions 2,4,..,2n; the bounds range over every position 0..2n+2 (present keys,
gap keys, two below everything, two above everything) and None / omitted.
"""
import argparse
import concurrent.futures as cf
import os
import random
import time

from lib.common import Standin, Failure, write_standin
from rtc import harness as H

FORMS = ("keys", "values", "items", "iterkeys", "itervalues", "iteritems")
OMIT = "omit"                       # bound left out of the call (None = passed explicitly)


def base_fam(fam):
    return fam.split("~")[0]


def key_of(fam, p):
    # "OO~N": the object-keyed family with None - a legal key, the smallest - as the key of the lowest
    # stored position (2); the bound positions at and below it are None too, i.e. "no bound" to the API
    if fam.endswith("~N") and p <= 2:
        return None
    return bytes([0, p]) if fam == "fs" else p


def val_of(fam, p):
    if fam == "fs":
        return b"v%05d" % p
    return {"O": "v%d" % p, "F": p + 0.5}.get(fam[1], p + 100)


# ------------------------------------------------------------------ oracle [R]
def expected(present, lo, hi, exlo, exhi):
    """Positions the statement asks for; lo/hi None = omitted-or-None bound."""
    ks = sorted(present)
    out = [k for k in ks if (lo is None or (k > lo if exlo else k >= lo))
           and (hi is None or (k < hi if exhi else k <= hi))]
    if lo is None and exlo and ks:      # "drops only the overall smallest key"
        out = [k for k in out if k != ks[0]]
    if hi is None and exhi and ks:      # "... (largest) key"
        out = [k for k in out if k != ks[-1]]
    return out


def project(fam, form, is_set, ps):
    if "keys" in form or is_set:
        return [key_of(fam, p) for p in ps]
    if "values" in form:
        return [val_of(fam, p) for p in ps]
    return [(key_of(fam, p), val_of(fam, p)) for p in ps]


# ------------------------------------------------------- reachable states
def sig(t, tree_type):
    """Structure with keys and separators (leaf `next` pointers dropped)."""
    def rec(x):
        if isinstance(x, tuple):
            return tuple(rec(y) for y in x)
        if tree_type is not None and type(x) is tree_type:
            return ("T", rec(x.__getstate__()))
        if hasattr(x, "__getstate__") and type(x).__module__.startswith("BTrees"):
            return ("B", rec(x.__getstate__()[0]))
        return x
    return rec(t.__getstate__())


def stratum(s):
    """The same structure with every key replaced by 'k' (node fan-outs and leaf sizes only)."""
    if isinstance(s, tuple):
        return tuple(stratum(y) for y in s)
    return s if s in ("T", "B") else "k"


def do_op(t, fam, is_set, op, p):
    k = key_of(fam, p)
    if op == "ins":
        t.add(k) if is_set else t.__setitem__(k, val_of(fam, p))
    else:
        t.remove(k) if is_set else t.__delitem__(k)


def apply_hist(cls, fam, is_set, hist):
    t = cls()
    for op, p in hist:
        do_op(t, fam, is_set, op, p)
    return t


def reach(cls, fam, is_set, is_tree, pos, rng, n_hist):
    """Distinct states (sig) reached after any prefix of: fill in ascending /
    descending / seeded order, then a seeded thinning phase (deletes with a few
    re-inserts).  -> {sig: (history, present positions)}"""
    out = {}
    tt = cls if is_tree else None
    fills = [list(pos), list(reversed(pos))]
    for i in range(n_hist):
        fill = list(fills[i]) if i < 2 else rng.sample(pos, rng.randint(max(1, len(pos) - 3), len(pos)))
        hist, present, t = [], set(), cls()
        ops = [("ins", p) for p in fill]
        for _ in range(rng.randint(1, len(pos))):
            ops.append(("del", None) if rng.random() < 0.8 else ("ins", None))
        for op, p in ops:
            if p is None:
                cand = sorted(present) if op == "del" else [q for q in pos if q not in present]
                if not cand:
                    continue
                # thinning biased to the ends of the key range: empties whole leaves / subtrees
                p = cand[0] if rng.random() < 0.25 else cand[-1] if rng.random() < 0.33 else rng.choice(cand)
            do_op(t, fam, is_set, op, p)
            present.add(p) if op == "ins" else present.discard(p)
            hist.append((op, p))
            out.setdefault(sig(t, tt), (tuple(hist), frozenset(present)))
    return out


def choose(states, rng, cap):
    """Round-robin over the structural strata (seeded order), so that the cap
    cuts the number of key assignments per structure, not the structures."""
    groups = {}
    for s in states:
        groups.setdefault(stratum(s), []).append(s)
    order = sorted(groups, key=repr)
    rng.shuffle(order)
    for g in order:
        rng.shuffle(groups[g])
    picked = []
    while len(picked) < cap and any(groups[g] for g in order):
        for g in order:
            if groups[g] and len(picked) < cap:
                picked.append(groups[g].pop())
    return picked, len(groups)


# ------------------------------------------------------------ one config
class Config:
    def __init__(self, fam, kind, impl, sizes):
        self.fam, self.kind, self.impl, self.sizes = fam, kind, impl, sizes
        self.is_set = kind in ("Set", "TreeSet")
        self.is_tree = kind in ("BTree", "TreeSet")
        self.tag = "%s%s%s" % (base_fam(fam), kind, "Py" if impl == "py" else "")
        self.nonekey = fam.endswith("~N")
        self.evals = 0
        self.fails = {}                # key -> Failure (one per key and configuration)
        self.prefix = ""               # "stale:" for the states built with stale separators

    def fail(self, key, desc, hist, call):
        # (an empty container has no None key either: same key as in the plain configuration)
        key = self.prefix + ("nonekey:" if self.nonekey and ":empty:" not in key else "") + key
        if key in self.fails:
            return
        lines = ["from BTrees.%sBTree import %s as Base" % (base_fam(self.fam), self.tag)]
        if self.is_tree:
            lines += ["class C(Base):", "    max_leaf_size, max_internal_size = %d, %d" % self.sizes]
        else:
            lines += ["C = Base"]
        if isinstance(hist, StateSpec):
            lines = hist.script(self)
            history = {"setstate": hist.spec}
        else:
            lines += ["t = C()"]
            for op, p in hist:
                k = key_of(self.fam, p)
                lines.append(("t.add(%r)" % (k,) if op == "ins" else "t.remove(%r)" % (k,)) if self.is_set else
                             ("t[%r] = %r" % (k, val_of(self.fam, p)) if op == "ins" else "del t[%r]" % (k,)))
            history = [[op, repr(key_of(self.fam, p))] for op, p in hist]
        lines.append("print(%s)" % call)
        self.fails[key] = Failure(
            key=key, desc="%s sizes=%s: %s" % (self.tag, self.sizes, desc),
            repro={"family": self.fam, "kind": self.kind, "impl": self.impl, "sizes": list(self.sizes),
                   "history": history, "call": call},
            script="\n".join(lines) + "\n")

    # ---- [M]
    def check_minmax(self, t, hist, present, universe):
        ks = sorted(present)
        for fn in ("minKey", "maxKey"):
            for b in [OMIT] + universe:
                self.evals += 1
                if b is OMIT or key_of(self.fam, b) is None:      # a None bound means "no bound"
                    want = (ks[0] if fn == "minKey" else ks[-1]) if ks else None
                    cls_b = "no-bound" if ks else "empty"
                else:
                    c = [k for k in ks if k >= b] if fn == "minKey" else [k for k in ks if k <= b]
                    want = (min(c) if fn == "minKey" else max(c)) if c else None
                    cls_b = ("empty" if not ks else "present" if b in present else "below" if b < ks[0]
                             else "above" if b > ks[-1] else "gap")
                args = () if b is OMIT else (key_of(self.fam, b),)
                call = "t.%s(%s)" % (fn, ", ".join(map(repr, args)))
                try:
                    got = ("ret", getattr(t, fn)(*args))
                except Exception as e:
                    got = ("exc", type(e).__name__)
                if want is None:
                    ok = got == ("exc", "ValueError")
                    what = "no-ValueError" if got[0] == "ret" else "raised-" + got[1]
                else:
                    ok = got == ("ret", key_of(self.fam, want))
                    what = "wrong-key" if got[0] == "ret" else "raised-" + got[1]
                if not ok:
                    self.fail("minmax:%s:%s:%s:%s:%s" % (self.impl, self.kind, fn, cls_b, what),
                              "%s gave %r; the statement asks for %s" %
                              (call, got, "ValueError" if want is None else repr(key_of(self.fam, want))), hist, call)

    # ---- [L]
    def check_lazy(self, seq, exp, form, hist, call, rng, slices):
        n = len(exp)
        base = "lazy:%s:%s:" % (self.impl, self.kind)
        self.evals += 1
        try:
            if len(seq) != n:
                self.fail(base + "len:" + form, "len(%s) = %d, the list has %d" % (call, len(seq), n), hist, "len(%s)" % call)
        except Exception as e:
            self.fail(base + "len:%s:raised-%s" % (form, type(e).__name__), "len(%s) raised %s" % (call, e), hist, "len(%s)" % call)
        idx = list(range(-n - 2, n + 2))
        # ascending, descending, then seeded order on the SAME object (its cursor / finger is state)
        for i in idx + idx[::-1] + rng.sample(idx, len(idx)):
            self.evals += 1
            try:
                want = ("ret", exp[i])
            except IndexError:
                want = ("exc", "IndexError")
            try:
                got = ("ret", seq[i])
            except Exception as e:
                got = ("exc", type(e).__name__)
            if got != want:
                cl = "index-out-of-range" if want[0] == "exc" else "neg-index" if i < 0 else "index"
                self.fail(base + cl + ":" + form, "%s[%d] gave %r, the list gives %r" % (call, i, got, want),
                          hist, "%s[%d]" % (call, i))
        if not slices:
            return
        ends = [None] + list(range(-n - 1, n + 2))
        for a in ends:
            for b in ends:
                self.evals += 1
                try:
                    got = list(seq[a:b])
                except Exception as e:
                    got = "raised " + type(e).__name__
                if got != exp[a:b]:
                    self.fail(base + "slice:" + form, "%s[%r:%r] gave %r, the list gives %r" % (call, a, b, got, exp[a:b]),
                              hist, "list(%s[%r:%r])" % (call, a, b))

    # ---- [R]
    def check_ranges(self, t, hist, present, universe, rng, rot):
        forms = [f for f in FORMS if hasattr(t, f)]
        bounds = [OMIT, None] + universe
        n = rot

        def kb(b):
            return None if b in (None, OMIT) else key_of(self.fam, b)
        for lo in bounds:
            for hi in bounds:
                for exlo in (False, True):
                    for exhi in (False, True):
                        n += 1
                        plo = None if lo in (OMIT, None) or kb(lo) is None else lo
                        phi = None if hi in (OMIT, None) or kb(hi) is None else hi
                        exp = expected(present, plo, phi, exlo, exhi)
                        args, kw = (kb(lo), kb(hi), exlo, exhi), {}
                        if OMIT in (lo, hi):     # leave the bound out: keyword form; a false flag is passed only sometimes
                            args = ()
                            kw = dict([("min", kb(lo))] * (lo is not OMIT) + [("max", kb(hi))] * (hi is not OMIT) +
                                      [("excludemin", exlo)] * bool(exlo or n % 2) +
                                      [("excludemax", exhi)] * bool(exhi or n % 3 == 0))
                        argtxt = ", ".join([repr(a) for a in args] + ["%s=%r" % kv for kv in kw.items()])
                        clause = ("excl-omitted-both" if plo is None and exlo and phi is None and exhi else
                                  "excl-omitted-min" if plo is None and exlo else
                                  "excl-omitted-max" if phi is None and exhi else
                                  "unbounded" if plo is None or phi is None else "interval")
                        # keys() always, plus one of the other forms in rotation
                        for form in dict.fromkeys((forms[0], forms[n % len(forms)])):
                            self.evals += 1
                            call = "t.%s(%s)" % (form, argtxt)
                            want = project(self.fam, form, self.is_set, exp)
                            try:
                                seq = getattr(t, form)(*args, **kw)
                                got = list(seq)
                            except Exception as e:
                                self.fail("range:%s:%s:%s:raised-%s:%s" % (self.impl, self.kind, clause, type(e).__name__, form),
                                          "%s raised %s: %s" % (call, type(e).__name__, e), hist, "list(%s)" % call)
                                continue
                            if got != want:
                                # how it differs: entries outside the interval / entries of the interval not returned / order
                                how = ("extra" if [x for x in got if x not in want] else
                                       "missing" if [x for x in want if x not in got] else "order")
                                self.fail("range:%s:%s:%s:%s:%s" % (self.impl, self.kind, clause, how, form),
                                          "%s gave %r; the entries in the interval are %r" % (call, got, want),
                                          hist, "list(%s)" % call)
                            elif self.is_tree and not form.startswith("iter") and n % 3 == 0:
                                self.check_lazy(getattr(t, form)(*args, **kw), want, form, hist, call, rng, n % 21 == 0)


# ------------------------------------------- states with stale separators
BUILDER_SRC = """def build(spec, T, B, is_set, key, val):
    leaves = []
    def collect(n):
        if n[0] == "L":
            leaves.append(n)
        else:
            for c in n[1]:
                collect(c)
    collect(spec)
    made, nxt = {}, None
    for lf in reversed(leaves):          # leaves right to left: each links to its successor
        b = B()
        data = tuple(key(p) for p in lf[1]) if is_set else tuple(x for p in lf[1] for x in (key(p), val(p)))
        b.__setstate__((data,) if nxt is None else (data, nxt))
        made[id(lf)] = nxt = b
    def first(n):
        return made[id(n)] if n[0] == "L" else first(n[1][0])
    def mk(n):
        if n[0] == "L":
            return made[id(n)]
        kids = [mk(c) for c in n[1]]
        data = [kids[0]]
        for sep, kid in zip(n[2], kids[1:]):
            data += [key(sep), kid]
        t = T()
        t.__setstate__((tuple(data), first(n)))
        return t
    return mk(spec)
"""
exec(BUILDER_SRC)


class StateSpec:
    """A tree given by its state: ["N", [children], [separators]] / ["L", [key positions]]."""

    def __init__(self, spec):
        self.spec = spec

    def script(self, cfg):
        fam = base_fam(cfg.fam)
        return (["from BTrees.%sBTree import %s as T" % (fam, cfg.tag), "B = T._bucket_type"] +
                BUILDER_SRC.rstrip().split("\n") +
                ["key = lambda p: %s" % ("bytes([0, p])" if fam == "fs" else "p"),
                 "val = lambda p: %s" % ("b'v%05d' % p" if fam == "fs" else
                                         {"O": "'v%d' % p", "F": "p + 0.5"}.get(fam[1], "p + 100")),
                 "t = build(%r, T, B, %r, key, val)" % (self.spec, cfg.is_set)])


def spec_keys(n):
    return list(n[1]) if n[0] == "L" else [k for c in n[1] for k in spec_keys(c)]


def spec_stale(n):
    """number of separators smaller than the smallest key of the child they point to"""
    if n[0] == "L":
        return 0
    return (sum(1 for sep, c in zip(n[2], n[1][1:]) if sep < spec_keys(c)[0]) + sum(spec_stale(c) for c in n[1]))


def spec_height(n):
    return 1 if n[0] == "L" else 1 + max(spec_height(c) for c in n[1])


def stale_specs(rng, pos, leafmax, fanmax, count):
    """Seeded specs: a subset of the key positions (gaps are the deleted keys),
    cut into leaves of 1..leafmax keys, under a root directly (2 levels), under
    interior nodes of 1..fanmax+1 leaves (3 levels), with an extra single-child
    root on top (root with one child), or a root over one leaf object; every
    separator is drawn from (largest key to its left, smallest key to its
    right] by one of four policies, at least one of them stale."""
    out, tries = {}, 0
    shapes = ("two", "three", "single-child-root", "single-leaf-root", "three", "two")
    policies = ("lowest", "just-below", "deleted-key", "mixed")
    while len(out) < count and tries < count * 30:
        shape = shapes[tries % len(shapes)]
        policy = policies[(tries // len(shapes)) % len(policies)]
        tries += 1
        m = rng.randint(2, len(pos))
        present = sorted(rng.sample(pos, m))
        leaves = []
        while present:
            n = rng.randint(1, leafmax)
            leaves.append(["L", present[:n]])
            present = present[n:]

        def sep(a, b):
            # a = largest key on the left, b = smallest key on the right; positions are even, so a + 1 < b
            if policy == "lowest":
                return a + 1
            if policy == "just-below":
                return b - 1
            if policy == "deleted-key":        # a position that held a key once: even, strictly between
                c = [x for x in range(a + 2, b, 2)]
                return rng.choice(c) if c else a + 1
            return rng.choice([a + 1, b - 1, b, rng.randint(a + 1, b)])

        def node(kids):
            return ["N", kids, [sep(spec_keys(x)[-1], spec_keys(y)[0]) for x, y in zip(kids, kids[1:])]]

        def groups(kids):
            g = []
            while kids:
                n = rng.randint(1, fanmax + 1)
                g.append(node(kids[:n]))
                kids = kids[n:]
            return g
        if shape == "single-leaf-root":
            spec = node(leaves[:1])
        elif shape == "two" and len(leaves) <= 2 * fanmax:
            spec = node(leaves)
        else:
            spec = node(groups(leaves))
            if shape == "single-child-root":
                spec = node([spec]) if len(spec[1]) > 1 else spec
        if shape != "single-leaf-root" and not spec_stale(spec):
            continue
        out.setdefault(repr(spec), spec)
    return list(out.values())


def run_stale(job):
    _, fam, kind, impl, sizes, nkeys, cap, seed = job
    from BTrees.check import check as pkg_check
    c = Config(fam, kind, impl, sizes)
    c.prefix = "stale:"
    cls = H.get_class(base_fam(fam), kind, impl, *sizes)
    rng = random.Random("stale/%s/%s/%s/%s/%s" % (seed, fam, kind, impl, sizes))
    pos = list(range(2, 2 * nkeys + 1, 2))
    universe = list(range(0, 2 * nkeys + 3))
    t0 = time.time()
    specs = stale_specs(rng, pos, sizes[0], sizes[1], cap)
    nontrivial, sample, heights = 0, None, set()
    for i, spec in enumerate(specs):
        t = build(spec, cls, cls._bucket_type, c.is_set, lambda p: key_of(fam, p), lambda p: val_of(fam, p))
        try:
            t._check()
            pkg_check(t)
        except AssertionError as e:      # the package accepts stale separators: a rejection is a bug of this builder
            raise RuntimeError("state with stale separators rejected by the package's checkers: %r: %s" % (spec, e))
        present = frozenset(spec_keys(spec))
        st = StateSpec(spec)
        c.check_minmax(t, st, present, universe)
        c.check_ranges(t, st, present, universe, rng, i)
        stale = spec_stale(spec)
        nontrivial += len(present) >= 2 and (stale > 0 or len(spec[1]) == 1)
        heights.add(spec_height(spec))
        if sample is None and stale >= 2 and spec_height(spec) >= 3:
            sample = {"class": c.tag, "sizes": list(sizes), "state": spec, "stale separators": stale,
                      "checked": "as for the reached states: minKey/maxKey over every bound 0..%d, every "
                                 "(min,max,excludemin,excludemax), len/index/slice of the lazy results" % universe[-1]}
    return {"evals": c.evals, "nontrivial": nontrivial, "fails": list(c.fails.values()), "sample": sample,
            "reached": len(specs), "strata": len(heights), "wall": time.time() - t0, "tag": c.tag + "/stale", "sizes": sizes}


def run_job(job):
    return run_stale(job) if job[0] == "stale" else run_config(job)


def run_config(job):
    fam, kind, impl, sizes, nkeys, n_hist, cap, seed = job
    c = Config(fam, kind, impl, sizes)
    cls = H.get_class(base_fam(fam), kind, impl, *sizes)
    rng = random.Random("%s/%s/%s/%s/%s" % (seed, fam, kind, impl, sizes))
    pos = list(range(2, 2 * nkeys + 1, 2))
    universe = list(range(0, 2 * nkeys + 3))
    t0 = time.time()
    states = reach(cls, fam, c.is_set, c.is_tree, pos, rng, n_hist)
    picked, nstrata = choose(list(states), rng, cap)
    nontrivial, sample = 0, None
    for i, s in enumerate(picked):
        hist, present = states[s]
        t = apply_hist(cls, fam, c.is_set, hist)
        if sig(t, cls if c.is_tree else None) != s:
            raise RuntimeError("history replay is not deterministic: %r" % (hist,))
        c.check_minmax(t, hist, present, universe)
        c.check_ranges(t, hist, present, universe, rng, i)
        nontrivial += len(present) >= 2
        if sample is None and len(present) >= 4:
            sample = {"class": c.tag, "sizes": list(sizes), "history": ["%s %r" % (o, key_of(fam, p)) for o, p in hist],
                      "state": repr(s), "checked": "minKey/maxKey over every bound; every (min,max,excludemin,excludemax) "
                      "over %d bounds + None + omitted; len/index/slice of the lazy results" % len(universe)}
    return {"evals": c.evals, "nontrivial": nontrivial, "fails": list(c.fails.values()), "sample": sample,
            "reached": len(states), "strata": nstrata, "wall": time.time() - t0, "tag": c.tag, "sizes": sizes}


def main():
    ap = argparse.ArgumentParser()
    ap.add_argument("--out")
    ap.add_argument("--verbose", action="store_true")
    a = ap.parse_args()
    qs = H.tier() == "quick"
    nkeys = 8 if qs else 10
    n_hist, cap_c, cap_py = (200, 60, 24) if qs else (1000, 300, 100)
    sizes = [(2, 2), (3, 2)] if qs else [(2, 2), (2, 3), (3, 2), (4, 3)]
    stale_c, stale_py = (40, 16) if qs else (200, 70)
    s = Standin(
        name="range_rt",
        bound="per (family - object-keyed families a second time with None, the smallest legal key, among the keys - , "
              "kind in BTree/TreeSet/Bucket/Set, C and Python, node sizes %s): states reached after any prefix "
              "of %d seeded insert/delete histories on %d keys (ascending / descending / seeded fill, then thinning), of which "
              "up to %d (C) / %d (Python) are checked, picked round-robin over the distinct node structures; on each: "
              "minKey/maxKey without bound and with every bound in 0..%d; keys() plus one rotating form of values/items/"
              "iterkeys/itervalues/iteritems for every (min, max) in (omitted, None, every position 0..%d)^2 x "
              "excludemin x excludemax; on every 3rd combination the lazy result under len() and every index in "
              "-n-2..n+1 (ascending, descending, seeded order on one object), on every 21st every slice [a:b], a, b in "
              "None, -n-1..n+1.  PLUS per (family, BTree/TreeSet, C and Python, node sizes): up to %d (C) / %d (Python) "
              "seeded states built through __setstate__ with stale separators (a subset of the %d keys cut into leaves "
              "of 1..max_leaf_size keys; 2 levels, 3 levels with interior nodes of 1..max_internal_size+1 leaves, an extra "
              "single-child root, a root over one leaf object; every separator drawn from (largest key on its left, "
              "smallest key on its right]: lowest, just below the key, a deleted key, mixed), accepted by _check() and "
              "BTrees.check.check(), under the same calls" %
              (sizes, n_hist, nkeys, cap_c, cap_py, 2 * nkeys + 2, 2 * nkeys + 2, stale_c, stale_py, nkeys),
        rule="case = one call (range call, minKey/maxKey, len, index or slice) compared with the list computed from the "
             "reference key set; distinct non-trivial = distinct (structure, keys) states with >= 2 keys that were checked "
             "(built states: distinct (structure, keys, separators) with >= 2 keys and >= 1 stale separator or a single-child root)",
        exhaustive=False,
        functions=["BTree_findRangeEnd", "BTree_rangeSearch", "BTree_maxminKey", "BTreeItems_seek", "BTreeItems_slice",
                   "BTreeItems_length_or_nonzero", "BTreeIter_next", "Bucket_rangeSearch", "Bucket_maxminKey",
                   "_Tree.keys/minKey/maxKey", "_TreeItems (run-time)", "_BucketBase._range (run-time)"])
    jobs = []
    # object-keyed families are also run with None - a legal key, the smallest - among the keys
    for fam in H.fams() + [f + "~N" for f in H.fams() if f[0] == "O"]:
        for kind in ("BTree", "TreeSet", "Bucket", "Set"):
            for impl in ("c", "py"):
                for sz in (sizes if kind in ("BTree", "TreeSet") else [(None, None)]):
                    if fam.endswith("~N") and sz != sizes[0] and sz != (None, None):
                        continue
                    jobs.append((fam, kind, impl, sz, nkeys, n_hist, cap_c if impl == "c" else cap_py, H.seed()))
    for fam in H.fams():
        for kind in ("BTree", "TreeSet"):
            for impl in ("c", "py"):
                for sz in sizes:
                    jobs.append(("stale", fam, kind, impl, sz, nkeys, stale_c if impl == "c" else stale_py, H.seed()))
    with cf.ProcessPoolExecutor(max_workers=min(16, os.cpu_count() or 1, len(jobs))) as ex:
        results = list(ex.map(run_job, jobs))      # in job order: deterministic
    for r in results:
        s.evaluations += r["evals"]
        s.distinct_nontrivial += r["nontrivial"]
        s.failures.extend(r["fails"])
        if r["sample"] and len(s.samples) < 2:
            s.samples.append(r["sample"])
        if a.verbose:
            print("%-14s %-8s reached %4d strata %3d evals %7d fails %2d  %.1fs" %
                  (r["tag"], r["sizes"], r["reached"], r["strata"], r["evals"], len(r["fails"]), r["wall"]))
    write_standin(a.out, s)


if __name__ == "__main__":
    main()
