"""C03 - a container used only through its API is never internally damaged."""
from props import _generic as g


def run(ctx):
    fns = g.run_pyvc(ctx, "C03")
    g.run_funlink(ctx)
    ctx.cvc(["II", "OO"] if ctx.tier == "quick" else ["II", "OO", "LF", "QQ", "fs"], ["F-SPLIT"], functions=["bucket_split", "BTree_split", "BTree_split_root", "BTree_grow"])
    ctx.standin("hist_rt", families=("OO", "II") if ctx.tier == "quick" else ("OO", "II", "LF", "QQ", "fs", "IO", "UU", "LL"),
                args=["--mode", "wf"])
    return "proof", (
        "Engine P: (1) the structure-changing leaf operations (_split with its sibling link and halves, _deleteNextBucket, "
        "_set/_del keeping the key list strictly sorted and the value list paired); (2) the WHOLE interior-node layer of the "
        "Python implementation in the structural view (contracts f#struct on the real _Tree._set, _grow, _split, _split_root, "
        "_del, _deleteNextBucket): every mutator preserves, node-locally and therefore for all trees (induction on height), "
        "exactly the clauses _check() tests - children of one kind, non-empty, distinct, owning their lists; "
        "_firstbucket is the first leaf; succ(child i) is fst(child i+1); subtrees well formed - with the first-leaf hand-off "
        "of deletions, the linking of split halves and the root split; (3) _Tree._check itself (returns normally iff those "
        "clauses hold). %d targets, every obligation discharged by z3. Engine C, F-SPLIT: bucket_split from its real loop-free "
        "body, for every length and content: neither half is empty, the new sibling holds exactly the upper half (keys and values), "
        "the left half is untouched, next->next == old self->next and self->next == next, the change is registered; its one "
        "caller passes the index the contract requires; BTree_split likewise (items copied whole - child and separator -, and the new "
        "node's firstbucket is its first child when that is a leaf, that child's own firstbucket, read after activating it, when it is "
        "a node). F-UNLINK: in the C _BTree_set the node asked to unlink an emptied first leaf is always the LEFT sibling "
        "(d[-1].child) of the child the deletion descended into, and status 2 is passed up only by a deletion that descended into the "
        "node's first child (the clauses of the first-bucket protocol that the Python proof states in full). Key containment within separator ranges, node-size "
        "limits, and the rest of the C implementation are checked after every call of bounded histories by the stand-in hist_rt (wf mode: "
        "independent walker + _check() + BTrees.check.check())." % len(fns))
