"""Sidecar contracts for the leaf layer of /repo/src/BTrees/_base.py
(_BucketBase, Bucket, Set).  Clause text is Python expression syntax, see
pyvc/spec.py.  Postconditions are taken from the property statements
(properties.jsonl), shapes and frames from the code (DESIGN.md 5.2, 5.3)."""
from pyvc.spec import Contract

WF_KEYS = "sorted_strict(self._keys)"
WF_BUCKET = {
    "sorted": WF_KEYS,
    "paired": "len(self._values) == len(self._keys)",
    # shape of the heap, not of the data: the two lists are distinct objects
    "noalias": "self._keys is not self._values",
}
WF_SET = {"sorted": WF_KEYS}

SEARCH_ENS = {
    "found": "implies(result >= 0, result < len(self._keys) and self._keys[result] == key)",
    "absent_range": "implies(result < 0, 0 <= -result - 1 and -result - 1 <= len(self._keys))",
    "absent_left": "implies(result < 0, forall(0, -result - 1, lambda j: self._keys[j] < key))",
    "absent_right": "implies(result < 0, forall(-result - 1, len(self._keys), lambda j: key < self._keys[j]))",
}

CONTRACTS = []
LEAF = ["Bucket", "Set"]


def C(*a, **k):
    c = Contract(*a, **k)
    CONTRACTS.append(c)
    return c


for cls in ("Bucket", "Set"):
    pass

# The leaf search: same body for Bucket and Set (defined on _BucketBase); it
# is verified once with the receiver's class left symbolic.
C("_BucketBase._search", cls=LEAF, params={"key": "K"},
  requires={"sorted": WF_KEYS},
  returns="int", ensures=SEARCH_ENS, modifies=[],
  loops=[{
      "inv": {
          "alias": "keys is self._keys",
          "bounds": "0 <= low and low <= high and high <= len(keys)",
          "left": "forall(0, low, lambda j: keys[j] < key)",
          "right": "forall(high, len(keys), lambda j: key < keys[j])",
      },
      "dec": "high - low",
  }],
  props=["C01", "C02", "C09"])

# --------------------------------------------------------------------------
# view-level helper clauses (strongest postconditions over the whole leaf)

UNCHANGED_KEYS = ("self._keys is old(self._keys) and len(self._keys) == old(len(self._keys)) and "
                  "forall(0, len(self._keys), lambda j: self._keys[j] == old(self._keys[j]))")
UNCHANGED_VALUES = ("self._values is old(self._values) and len(self._values) == old(len(self._values)) and "
                    "forall(0, len(self._values), lambda j: self._values[j] == old(self._values[j]))")
PRESENT = "exists(0, old(len(self._keys)), lambda j: old(self._keys[j]) == key)"
ABSENT = "forall(0, old(len(self._keys)), lambda j: old(self._keys[j]) != key)"


def inserted(lst, x):
    """`lst` is old(lst) with x inserted at the unique sorted position."""
    return ("len(self.%(l)s) == old(len(self.%(l)s)) + 1 and "
            "exists(0, len(self.%(l)s), lambda p: self.%(l)s[p] == %(x)s and "
            "forall(0, p, lambda j: self.%(l)s[j] == old(self.%(l)s[j])) and "
            "forall(p + 1, len(self.%(l)s), lambda j: self.%(l)s[j] == old(self.%(l)s[j - 1])))"
            % {"l": lst, "x": x})


INS_BOTH = ("len(self._keys) == old(len(self._keys)) + 1 and len(self._values) == len(self._keys) and "
            "exists(0, len(self._keys), lambda p: self._keys[p] == key and self._values[p] == value and "
            "forall(0, p, lambda j: self._keys[j] == old(self._keys[j]) and self._values[j] == old(self._values[j])) and "
            "forall(p + 1, len(self._keys), lambda j: self._keys[j] == old(self._keys[j - 1]) and self._values[j] == old(self._values[j - 1])))")
DEL_BOTH = ("len(self._keys) == old(len(self._keys)) - 1 and len(self._values) == len(self._keys) and "
            "exists(0, old(len(self._keys)), lambda p: old(self._keys[p]) == key and result[1] == old(self._values[p]) and "
            "forall(0, p, lambda j: self._keys[j] == old(self._keys[j]) and self._values[j] == old(self._values[j])) and "
            "forall(p, len(self._keys), lambda j: self._keys[j] == old(self._keys[j + 1]) and self._values[j] == old(self._values[j + 1])))")
DEL_KEYS = ("len(self._keys) == old(len(self._keys)) - 1 and "
            "exists(0, old(len(self._keys)), lambda p: old(self._keys[p]) == key and "
            "forall(0, p, lambda j: self._keys[j] == old(self._keys[j])) and "
            "forall(p, len(self._keys), lambda j: self._keys[j] == old(self._keys[j + 1])))")
INS_KEYS = ("len(self._keys) == old(len(self._keys)) + 1 and "
            "exists(0, len(self._keys), lambda p: self._keys[p] == key and "
            "forall(0, p, lambda j: self._keys[j] == old(self._keys[j])) and "
            "forall(p + 1, len(self._keys), lambda j: self._keys[j] == old(self._keys[j - 1])))")
NOALIAS_B = {"noalias": "self._keys is not self._values"}

# ---- Bucket._set ----------------------------------------------------------
C("Bucket._set", cls="Bucket",
  params={"key": "K", "value": "V", "ifunset": "bool"},
  requires=dict(WF_BUCKET),
  returns=[("tuple", ["none", "V"]), ("tuple", ["int", "V"])],
  ensures={
      "wf_sorted": WF_KEYS,
      "wf_paired": "len(self._values) == len(self._keys)",
      "same_lists": "self._keys is old(self._keys) and self._values is old(self._values)",
      # key present and (ifunset or value-same): nothing changes, status None, returns stored value
      "present_kept": "implies(result[0] is None, " + UNCHANGED_KEYS + " and " + UNCHANGED_VALUES +
                      " and exists(0, len(self._keys), lambda p: self._keys[p] == key and result[1] == self._values[p]))",
      "none_only_if_present": "implies(result[0] is None, " + PRESENT + ")",
      "none_if_present_ifunset": "implies(" + PRESENT + " and ifunset, result[0] is None)",
      "status_domain": "result[0] is None or result[0] == 0 or result[0] == 1",
      # replace: keys unchanged, exactly the slot of key now holds value
      "replaced": "implies(result[0] == 0, " + UNCHANGED_KEYS + " and len(self._values) == old(len(self._values)) and result[1] == value and " + PRESENT + " and "
                  "forall(0, len(self._keys), lambda j: self._values[j] == (value if self._keys[j] == key else old(self._values[j]))))",
      "inserted": "implies(result[0] == 1, " + ABSENT + " and result[1] == value and " + INS_BOTH + ")",
      "absent_inserts": "implies(" + ABSENT + ", result[0] == 1)",
      "flagged": "implies(result[0] is not None, changed(self))",
      "unflagged": "implies(result[0] is None, changed(self) == old(changed(self)))",
  },
  modifies=["list:self._keys", "list:self._values", "self._p_changed"],
  props=["C01", "C03", "C04", "C09"])

C("Bucket._del", cls="Bucket", params={"key": "K"},
  requires=dict(WF_BUCKET),
  returns=("tuple", ["int", "V"]),
  ensures={
      "wf_sorted": WF_KEYS,
      "removed": DEL_BOTH,
      "status": "result[0] == 0",
      "flagged": "changed(self)",
      "same_lists": "self._keys is old(self._keys) and self._values is old(self._values)",
  },
  raises={"KeyError": {"absent": ABSENT, "flag_same": "changed(self) == old(changed(self))"}},
  modifies=["list:self._keys", "list:self._values", "self._p_changed"],
  props=["C01", "C03", "C04", "C09"])

C("Set._set", cls="Set",
  params={"key": "K", "value": ["none", "V"], "ifunset": "bool"},
  requires=dict(WF_SET),
  returns=("tuple", ["bool", "none"]),
  ensures={
      "wf_sorted": WF_KEYS,
      "same_list": "self._keys is old(self._keys)",
      "added": "implies(result[0], " + ABSENT + " and " + INS_KEYS + ")",
      "kept": "implies(not result[0], " + PRESENT + " and " + UNCHANGED_KEYS + ")",
      "flagged": "implies(result[0], changed(self))",
      "unflagged": "implies(not result[0], changed(self) == old(changed(self)))",
  },
  modifies=["list:self._keys", "self._p_changed"],
  props=["C01", "C03", "C04", "C09"])

C("Set._del", cls="Set", params={"key": "K"},
  requires=dict(WF_SET),
  returns=("tuple", ["int", "int"]),
  ensures={
      "wf_sorted": WF_KEYS,
      "removed": DEL_KEYS,
      "status": "result[0] == 0",
      "flagged": "changed(self)",
      "same_list": "self._keys is old(self._keys)",
  },
  raises={"KeyError": {"absent": ABSENT, "flag_same": "changed(self) == old(changed(self))"}},
  modifies=["list:self._keys", "self._p_changed"],
  props=["C01", "C03", "C04", "C09"])

# --------------------------------------------------------------------------
# range search (C02).  Oracle from the property statement: an omitted / None
# bound is unbounded; an exclusive omitted bound drops only the overall
# smallest (largest) key.
BOUND = ["marker", "none", "any"]
LO_OK = ("((j >= 1 or not excludemin) if (min is _marker or min is None) else "
         "((self._keys[j] > to_key(min)) if excludemin else (self._keys[j] >= to_key(min))))")
HI_OK = ("((j < len(self._keys) - 1 or not excludemax) if (max is _marker or max is None) else "
         "((self._keys[j] < to_key(max)) if excludemax else (self._keys[j] <= to_key(max))))")
RANGE_PARAMS = {"min": BOUND, "max": BOUND, "excludemin": "bool", "excludemax": "bool"}

C("_BucketBase._range", cls=LEAF, params=RANGE_PARAMS,
  requires={"sorted": WF_KEYS},
  returns=("tuple", ["int", "int"]),
  ensures={
      "in_bounds": "0 <= result[0] and result[1] <= len(self._keys) and result[0] <= len(self._keys) + 1 and -1 <= result[1]",
      "nonneg_end": "result[1] >= 0 or len(self._keys) == 0",
      "exact": "forall(0, len(self._keys), lambda j: (result[0] <= j and j < result[1]) == (" + LO_OK + " and " + HI_OK + "))",
  },
  raises={"TypeError": {}}, modifies=[],
  props=["C02"])

SLICE_BOUNDS = "0 <= a and a <= len(self._keys) and a + len(result) <= len(self._keys)"
SLICE_WHICH = ("forall(0, len(self._keys), lambda j: (a <= j and j < a + len(result)) == (" + LO_OK + " and " + HI_OK + "))")
SLICE_COPY_K = "forall(0, len(result), lambda i: result[i] == self._keys[a + i])"
SLICE_COPY_V = "forall(0, len(result), lambda i: result[i] == self._values[a + i])"
# ghost out-parameter: where the returned slice starts (bound from the local at `return`)
SLICE_WIT = {"a": "start if start <= len(self._keys) else len(self._keys)"}

C("_BucketBase.keys", cls=LEAF, params=RANGE_PARAMS, ghost={"forward": "_BucketBase._range", "witness": SLICE_WIT},
  requires={"sorted": WF_KEYS},
  returns="list:K",
  ensures={"bounds": SLICE_BOUNDS, "exact": SLICE_WHICH, "copy": SLICE_COPY_K, "fresh": "fresh(result)"},
  raises={"TypeError": {}}, modifies=[],
  props=["C02"])

C("Bucket.values", cls="Bucket", params=RANGE_PARAMS, ghost={"forward": "_BucketBase._range", "witness": SLICE_WIT},
  requires=dict(WF_BUCKET),
  returns="list:V",
  ensures={"bounds": SLICE_BOUNDS, "exact": SLICE_WHICH, "copy": SLICE_COPY_V, "fresh": "fresh(result)"},
  raises={"TypeError": {}}, modifies=[],
  props=["C02"])

IN_KEYS = "exists(0, len(self._keys), lambda j: self._keys[j] == result)"
C("_BucketBase.minKey", cls=LEAF, params={"key": BOUND},
  requires={"sorted": WF_KEYS},
  returns="K",
  ensures={
      "member": IN_KEYS,
      "least": "forall(0, len(self._keys), lambda j: result <= self._keys[j]) if (key is _marker or key is None) else "
               "(result >= to_key(key) and forall(0, len(self._keys), lambda j: implies(self._keys[j] >= to_key(key), result <= self._keys[j])))",
  },
  raises={"ValueError": {"none": "len(self._keys) == 0 if (key is _marker or key is None) else "
                                 "forall(0, len(self._keys), lambda j: self._keys[j] < to_key(key))"},
          "TypeError": {}},
  modifies=[], props=["C02", "C09"])

C("_BucketBase.maxKey", cls=LEAF, params={"key": BOUND},
  requires={"sorted": WF_KEYS},
  returns="K",
  ensures={
      "member": IN_KEYS,
      "greatest": "forall(0, len(self._keys), lambda j: result >= self._keys[j]) if (key is _marker or key is None) else "
                  "(result <= to_key(key) and forall(0, len(self._keys), lambda j: implies(self._keys[j] <= to_key(key), result >= self._keys[j])))",
  },
  raises={"ValueError": {"none": "len(self._keys) == 0 if (key is _marker or key is None) else "
                                 "forall(0, len(self._keys), lambda j: self._keys[j] > to_key(key))"},
          "TypeError": {}},
  modifies=[], props=["C02", "C09"])
