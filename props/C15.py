from props import _generic as g


def run(ctx):
    fns = g.run_pyvc(ctx, "C15")
    ctx.standin("iter_rt", families=tuple("OO,II".split(",")))
    return "exploration", "bounded stand-in iter_rt (no obligation of the deductive engines serves C15 yet)"
