"""C07 - leaf conflict resolution is an exact three-way merge or a refusal."""
from props import _generic as g


def run(ctx):
    fns = g.run_pyvc(ctx, "C07")
    ctx.standin("merge_rt", families=tuple("OO,II,LF,fs".split(",")))
    return "proof", (
        "Engine P: Set._p_resolveConflict and Bucket._p_resolveConflict of _base.py are proved from their real bodies (all six "
        "loops, the closures merge_output / merge_error inlined, state decoding and encoding through the proved "
        "__setstate__/__getstate__ contracts, result[k] = v through the proved whole-view contract of Bucket.__setitem__) against "
        "the oracle of the statement: on a normal return the returned state holds, in key order, exactly merged(k) = C's entry if "
        "C changed k else N's entry (values included), no key was changed by both sides, neither side removed what was then its "
        "smallest key, links equal, sides and merge non-empty, O's link; at every raise site the refusal is justified (reason 0: a "
        "link differs; 12: a side is empty; 13: first-key rule; 10: empty merge; every other reason: some key is in conflict) - so "
        "the merge is returned exactly when the statement says, and only BTreesConflictError is raised. One frontier invariant "
        "(every consumed key of every cursor is below every current key; below the frontier the result is the merge and no key "
        "conflicts) serves all loops; loop heads carry vacuity guards. _get_simple_btree_bucket_state: one-leaf tree states unwrap, "
        "multi-leaf states are refused with reason 11. %d targets. The C implementation (bucket_merge) and the agreement of reason "
        "codes between the implementations are the bounded exhaustive stand-in merge_rt." % len(fns))
