"""gen_probe.py <function>: generate (not solve) the obligations of one function, with a profile."""
import sys, time
sys.path.insert(0, '/verif')
from pyvc.run import load_sources, all_contracts, add_lemma_programs
from pyvc.verify import Verifier
import cProfile, pstats
sources, classes = load_sources(); contracts = all_contracts(); add_lemma_programs(sources, contracts)
con = contracts[sys.argv[1]]
eng = Verifier(sources, classes, contracts, ground=None, mode="normal"); eng.covers = []
t = time.time()
pr = cProfile.Profile(); pr.enable()
try:
    eng.verify_function(con, cases=({int(sys.argv[2])} if len(sys.argv) > 2 else None))
except Exception as e:
    import traceback; traceback.print_exc()
pr.disable()
print("gen %.1fs, %d obligations, %d paths, feas solver %.1fs" % (time.time() - t, len(eng.obls), eng.npaths, eng.solver_time))
from collections import Counter
c = Counter(o.name.split(':')[1] if ':' in o.name else o.name for o in eng.obls)
print(c.most_common(12))
pstats.Stats(pr).sort_stats('cumulative').print_stats(16)
