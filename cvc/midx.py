"""M-IDX (C15, C16: memory safety of the lazy sequences / iterators under
interference): every entry of a leaf that a cursor hands out is read at an
offset inside the leaf as it is NOW.

`getBucketEntry(b, i, kind)` is the one function through which BTreeItems
(lazy keys()/values()/items()) and BTreeIter read a leaf's vectors.  Its
authors state its precondition as `assert(b); assert(0 <= i && i < b->len)`,
compiled out of the extension (-DNDEBUG).  M-IDX reads those asserts from the
non-NDEBUG AST of the same translation unit on every run (if they disappear:
checker error) and proves them at every call site, for all cursor states:

    M-IDX:<caller>:getBucketEntry-pre[<n>]      at each call of getBucketEntry

* BTreeItems_item: BTreeItems_seek is executed in place (inlined; its loops are
  cut with everything they assign havocked - the proof rests on the final
  re-check of the offset against the activated bucket, not on the arithmetic);
* BTreeIter_next: the offset comes from the cursor: `currentoffset >= 0` is the
  cursor's invariant, assumed on entry and proved at every write of that field
  in the functions analysed (M-IDX:<fn>:currentoffset-nonnegative).
Assumptions: A4b (Python code run inside the operation - an unghostify, a
destructor - does not modify the leaf the operation has just checked: the
vectors and `len` are not havocked by calls), the constructor of the cursor
(newBTreeItems and its callers) establishes currentoffset >= 0 (bounded: iter_rt).
"""
import z3

from .cexec import CExec, fresh, INT, Oblig, Unsupported
from . import cast
from .tuse import CONTENT

TARGETS = ("BTreeItems_item", "BTreeIter_next")
CALLEE = "getBucketEntry"


def strip(n):
    while n.get("kind") in ("ParenExpr", "ImplicitCastExpr", "CStyleCastExpr"):
        n = n["inner"][0]
    return n


def harvested_pre(family):
    """[(text sketch, condition AST node)] of the leading assert()s of getBucketEntry, and its
    ParmVarDecls, from the AST of the TU compiled WITHOUT -DNDEBUG."""
    tu = cast.load_tu(family, ndebug=False)
    fn = tu.functions.get(CALLEE)
    if fn is None:
        return None, None
    params = [p for p in fn.get("inner", []) if p["kind"] == "ParmVarDecl"]
    body = [c for c in fn["inner"] if c["kind"] == "CompoundStmt"][0]
    out = []

    def find(n, kind):
        todo = [n]
        while todo:
            x = todo.pop(0)
            if x.get("kind") == kind:
                return x
            todo.extend(x.get("inner", []))
        return None

    def mentions_assert_fail(n):
        todo = [n]
        while todo:
            x = todo.pop()
            if x.get("kind") == "DeclRefExpr" and x.get("referencedDecl", {}).get("name") == "__assert_fail":
                return True
            todo.extend(x.get("inner", []))
        return False
    for st in body.get("inner", []):
        if st.get("kind") == "DeclStmt":
            continue
        # glibc: assert(e) == ((void) sizeof ((e) ? 1 : 0), __extension__ ({ if (e) ; else __assert_fail (...); }))
        if not mentions_assert_fail(st):
            break
        ifs = find(st, "IfStmt")
        if ifs is None:
            break
        cond = ifs["inner"][0]
        # M-IDX is about the OFFSET: keep the asserts that mention the offset parameter (the
        # non-NULL assert on the bucket is not part of this family)
        refs, todo = set(), [cond]
        while todo:
            x = todo.pop()
            if x.get("kind") == "DeclRefExpr":
                refs.add(x.get("referencedDecl", {}).get("id"))
            todo.extend(x.get("inner", []))
        if len(params) > 1 and params[1]["id"] in refs:
            out.append(cond)
    return out, params


class MIdx(CExec):
    family = "M-IDX"
    inline_functions = ("BTreeItems_seek",)
    KEEP = tuple(CONTENT) + ("child", "key", "currentbucket", "currentoffset", "pseudoindex", "lastbucket", "last",
                             "first", "kind", "state")

    @classmethod
    def applies(cls, tu, fn):
        return fn in TARGETS

    def havoc_heap(self, st, why, keep=()):
        super().havoc_heap(st, why, keep=tuple(keep) + self.KEEP)

    def on_entry(self, st):
        self.pre, self.pre_params = harvested_pre(self.tu.family)
        if not self.pre:
            raise Unsupported("the assert()s of getBucketEntry were not found in the non-NDEBUG AST")
        self.ncalls = 0
        # the cursor's invariant: offsets are never negative
        for p in self.fn.get("inner", []):
            if p["kind"] == "ParmVarDecl":
                self.assumptions.append(self.hread(st, "currentoffset", st.vars[p["id"]]) >= 0)
        # (for BTreeIter the cursor is reached through bi->pitems)
        self.any_cursor_nonneg = True

    def on_field_read(self, st, field, ptr):
        if field == "currentoffset" and getattr(self, "entry", None) is not None:
            # invariant of every cursor object as found on entry
            h0 = self.entry.heap.get("currentoffset")
            if h0 is None:
                h0 = z3.Const("H0_currentoffset", z3.ArraySort(INT, INT))
            self.assumptions.append(z3.Select(h0, ptr) >= 0)

    # loop invariant: pointer locals that are never NULL at a loop head (Houdini, greatest fixpoint)
    cands = None

    def cand_formula(self, c, st):
        return st.vars[c[0]] != 0 if c[0] in st.vars else None

    def assume_invariant(self, n, entry, head):
        for c in (self.cands or []):
            f = self.cand_formula(c, head)
            if f is not None:
                self.assumptions.append(z3.Implies(head.guard, f))

    def check_invariant(self, n, phase, entry, st):
        if getattr(self, "_trial", False):
            return
        for c in (self.cands or []):
            f = self.cand_formula(c, st)
            if f is not None:
                self.oblige(st, "M-IDX:%s:loop-%s[nonnull %s]" % (self.fname, phase, c[1]), f)

    def on_field_write(self, st, field, ptr, val):
        if field == "currentoffset":
            self.oblige(st, "M-IDX:%s:currentoffset-nonnegative" % self.fname, val >= 0,
                        "a negative offset is written into the cursor")

    def on_call(self, name, args, n, st):
        if name == CALLEE:
            self.ncalls += 1
            saved = {}
            for p, a in zip(self.pre_params, args):
                saved[p["id"]] = st.vars.get(p["id"])
                st.vars[p["id"]] = a
            for k, cond in enumerate(self.pre):
                g = self.truth(self.rvalue(cond, st))
                self.oblige(st, "M-IDX:%s:getBucketEntry-pre[%d]" % (self.fname, k), g,
                            "getBucketEntry is called outside its asserted precondition: " + self.sketch(cond, 12))
            for pid, v in saved.items():
                if v is None:
                    st.vars.pop(pid, None)
                else:
                    st.vars[pid] = v
        from . import capi
        if name in capi.PURE or name == "->accessed":
            return fresh("ret_" + name.strip("->"))
        self.havoc_heap(st, "call " + str(name))
        return fresh("ret_" + str(name).strip("->").replace("?", "fp"))

    def on_return(self, st, v):
        pass

    def run(self):
        super().run()
        if self.ncalls == 0:
            raise Unsupported("no call of getBucketEntry found in %s" % self.fname)


def houdini(tu, fname, timeout=4000):
    def ptr_locals(fn):
        out, todo = [], [fn]
        while todo:
            n = todo.pop()
            if n.get("kind") in ("VarDecl", "ParmVarDecl") and n.get("type", {}).get("qualType", "").endswith("*"):
                out.append((n["id"], n.get("name")))
            todo.extend(n.get("inner", []))
        return out
    cands = ptr_locals(tu.functions[fname])
    for f in MIdx.inline_functions:
        if f in tu.functions:
            cands += ptr_locals(tu.functions[f])
    for _ in range(len(cands) + 2):
        ex = MIdx(tu, fname)
        ex.cands = list(cands)
        ex.run()
        bad = set()
        for o in ex.obls:
            if ":loop-" not in o.name:
                continue
            s = z3.Solver()
            s.set("timeout", timeout)
            s.add(*o.hyps)
            s.add(z3.Not(o.goal))
            if s.check() != z3.unsat:
                bad.add(o.name.split("[nonnull ", 1)[1].rstrip("]"))
        if not bad:
            ex.invariant_choice = ["nonnull(%s)" % c[1] for c in cands]
            return ex
        cands = [c for c in cands if c[1] not in bad]
    ex = MIdx(tu, fname)
    ex.cands = []
    ex.run()
    return ex


ANALYSIS = {"M-IDX": MIdx}
