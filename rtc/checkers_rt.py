"""Bounded stand-in for C18 (the diagnostic checkers).  Oracle = the property
statement:

  "BTrees.check.check() and the _check() method accept every container
   produced through the public API and, between them, reject with
   AssertionError every container whose stored state has been altered in any
   single way that breaks key order, containment of keys within the range
   promised by the separators, the linking of leaves, uniformity of child
   kinds, or non-emptiness of nodes."

Part 1 (accept): after every call of every history both checkers must return.
Part 2 (reject): for distinct trees reached, every single alteration of the
stored state of ONE node (listed in leaf_alterations / node_alterations) is
applied through that node's __setstate__; the independent walker
(harness.walk) decides whether the altered tree breaks one of the five
clauses.  If it does, at least one checker must raise AssertionError; if it
does not (e.g. a key moved inside its range) both must still accept.  The
node is then restored through __setstate__ (the restoration is verified).

Part 2d (reject, deep): the same catalogue on trees of 2, 3 and 4 levels (node
sizes (2,2), (2,3), (3,3); ascending / descending / thinned fills) whose keys
leave a free value between any two neighbours, on EVERY node and leaf found by
descent (every position of every level, the right-most spine included), plus
  * an EMPTY NODE as an additional child ("non-emptiness of nodes"): at each
    position 0..len(children) of each interior node an empty node of the
    tree's own class (no children, no first bucket) - resp. an empty leaf,
    linked to its successor, under a bottom-level node - with a separator that
    lies strictly between the neighbouring keys (at the right end: larger than
    every key of the subtree), so that nothing but non-emptiness is broken;
  * containment against the range inherited from ANCESTORS: a replaced key /
    separator that still satisfies the separators of the DIRECT parent of
    every node (judged by local_containment_ok) but not the range promised
    further up is reported under its own name (`...-vs-ancestor-bound`).

Part 3 (accept, in a database): trees of 2, 3 and 4 levels are stored through
rtc.stubdb (a stated model of a ZODB connection), committed, and both checkers
are called - each of them FIRST in turn, before anything else has touched the
nodes - when all nodes are ghosts (fresh connection; writer cache minimized /
every node _p_deactivate()d), when only the root is loaded, when exactly one
node (each interior node and each leaf in turn) or one whole level or all
leaves / all interior nodes or a seeded subset have been deactivated, and when
nothing is a ghost.  "accept every container produced through the public
API": both must return.  An independent reader (harness.walk on its own
connection) first confirms that the stored tree is well-formed and holds what
the writer saw; if it is not, that is a C04/C06 matter and the case is not
judged here.
"""
import argparse
import concurrent.futures as cf
import multiprocessing
import os
import random

from lib.common import Standin, Failure, write_standin
from rtc import harness as H

# which clause of the statement a finding of the walker belongs to
CLAUSES = (("leaf keys not", "order"), ("separators not", "order"), ("chain not in key order", "order"),
           ("key ", "containment"), ("separator below", "containment"),
           ("leaf chain", "linking"), ("_firstbucket", "linking"), ("one-leaf tree", "linking"), ("empty tree with", "linking"),
           ("children of mixed", "uniformity"),
           ("empty leaf", "non-emptiness"), ("empty interior", "non-emptiness"), ("interior node without", "non-emptiness"))


def clause_of(msg):
    for prefix, name in CLAUSES:
        if msg.startswith(prefix):
            return name
    return "other"


# ------------------------------------------------ explicit states of one node
def leaf_state(b, is_set):
    st = b.__getstate__()
    nxt = st[1] if len(st) > 1 else None
    if is_set:
        return list(st[0]), None, nxt
    return list(st[0][0::2]), list(st[0][1::2]), nxt


def leaf_tuple(keys, vals, nxt):
    flat = tuple(keys) if vals is None else tuple(x for kv in zip(keys, vals) for x in kv)
    return (flat,) if nxt is None else (flat, nxt)       # (a None next must be omitted, not passed)


def node_state(n):
    """(children, separators, firstbucket); the embedded one-leaf form is
    spelled out with the leaf object itself so that restoring keeps identity."""
    st = n.__getstate__()
    if len(st) == 1:
        return [n._firstbucket], [], n._firstbucket
    return list(st[0][0::2]), list(st[0][1::2]), st[1]


def node_tuple(kids, seps, first):
    flat = [kids[0]]
    for sep, kid in zip(seps, kids[1:]):
        flat += [sep, kid]
    return (tuple(flat), first)


def collect(t):
    """interior nodes and leaves by descent, with their paths from the root"""
    nodes, leaves = [], []

    def rec(n, path):
        nodes.append((path, n))
        for i, k in enumerate(node_state(n)[0]):
            if type(k) is type(t):
                rec(k, path + (i,))
            else:
                leaves.append((path + (i,), k))
    if t.__getstate__() is not None:
        rec(t, ())
    return nodes, leaves


# ------------------------------------------------------------- alterations
def leaf_alterations(cfg, t, leaf, leaves):
    """(name, position, thunk applying it) for one leaf: swap / duplicate /
    shift a key, empty the leaf, drop / redirect the next pointer."""
    keys, vals, nxt = leaf_state(leaf, cfg.is_set)

    def put(ks, vs=vals, nx=nxt):
        return lambda: leaf.__setstate__(leaf_tuple(ks, vs, nx))
    for i in range(len(keys) - 1):
        yield "swap", i, put(keys[:i] + [keys[i + 1], keys[i]] + keys[i + 2:])
        yield "duplicate", i, put(keys[:i + 1] + [keys[i]] + keys[i + 2:])
    for i in range(len(keys)):
        for c in cfg.candidates:
            if c != keys[i]:
                yield "shift" if c is not None else "shift-to-None", (i, c), put(keys[:i] + [c] + keys[i + 1:])
    yield "empty-leaf", None, put([], None if vals is None else [])
    if nxt is not None:
        yield "next-drop", None, put(keys, vals, None)
    for j, b in enumerate([b for _, b in leaves] + [cfg.stray()]):
        if b is not nxt:
            yield "next-redirect", j, put(keys, vals, b)
    if len(t.__getstate__()) == 1:
        # the one-leaf tree stores the leaf's state inside its own: alter it there too
        for i in range(len(keys) - 1):
            ks = keys[:i] + [keys[i + 1], keys[i]] + keys[i + 2:]
            yield "swap-embedded", i, lambda ks=ks: t.__setstate__(((leaf_tuple(ks, vals, None),),))
        yield "empty-leaf-embedded", None, lambda: t.__setstate__(((leaf_tuple([], None if vals is None else [], None),),))
        yield "next-redirect-embedded", None, lambda: t.__setstate__(((leaf_tuple(keys, vals, cfg.stray()),),))


def node_alterations(cfg, t, node, leaves):
    """one interior node: separator out of range / swapped, wrong firstbucket,
    a child of the other kind, node emptied."""
    kids, seps, first = node_state(node)

    def put(kd=kids, sp=seps, fb=first):
        return lambda: node.__setstate__(node_tuple(kd, sp, fb))
    for i in range(len(seps)):
        for c in cfg.candidates:
            if c != seps[i]:
                yield "separator" if c is not None else "separator-to-None", (i, c), put(sp=seps[:i] + [c] + seps[i + 1:])
    for i in range(len(seps) - 1):
        yield "separator-swap", i, put(sp=seps[:i] + [seps[i + 1], seps[i]] + seps[i + 2:])
    for j, b in enumerate([b for _, b in leaves] + [cfg.stray()]):
        if b is not first:
            yield "firstbucket", j, put(fb=b)
    for i, k in enumerate(kids):
        if type(k) is type(t):
            other = k._firstbucket                        # a leaf where an interior node was
        else:
            other = type(t)()                             # an interior node (holding that leaf) where a leaf was
            other.__setstate__(((k,), k))
        yield "child-kind", i, put(kd=kids[:i] + [other] + kids[i + 1:])
    if node is not t:
        yield "empty-node", None, lambda: node.__setstate__(None)


# ------------------------------------------ Part 2d: additional empty children
MISSING = object()                                        # "no bound" (None is a legal key)


def skey(k):
    return (0, 0) if k is None else (1, k)


def subtree_keys(cfg, x, tree_type):
    """all keys below x (a leaf or an interior node), by descent"""
    if type(x) is not tree_type:
        return leaf_state(x, cfg.is_set)[0]
    out = []
    for k in node_state(x)[0]:
        out += subtree_keys(cfg, k, tree_type)
    return out


def node_inserts(cfg, t, node, leaves, lo, hi):
    """An additional EMPTY child at each position 0..len(children) of one
    interior node: an empty node of the tree's own class (and, under a
    bottom-level node, an empty leaf linked to the leaf that follows it).
    (lo, hi): the range the node inherits (MISSING = unbounded).  The new
    separator keeps order and containment intact: the smallest key of the
    first child at the left end, a free value strictly between the keys on
    both sides in the middle, a free value above every key of the subtree (and
    below hi) at the right end; a position where no such value exists is
    skipped (there is none with the gapped key universe of the deep sweep)."""
    kids, seps, first = node_state(node)
    tree_type = type(t)
    bottom = type(kids[0]) is not tree_type
    lows = [min(subtree_keys(cfg, k, tree_type), key=skey) for k in kids]
    highs = [max(subtree_keys(cfg, k, tree_type), key=skey) for k in kids]
    free = sorted((c for c in cfg.candidates if c is not None), key=skey)

    def free_between(a, b):
        """the smallest free value v with a < v < b (b MISSING: unbounded)"""
        for v in free:
            if skey(a) < skey(v) and (b is MISSING or skey(v) < skey(b)):
                return v
        return MISSING

    def separators(i):
        if i == 0:                                        # (empty) < x <= kid[0]
            return [lows[0]] + seps
        if i == len(kids):                                # kid[-1] < x <= (empty) < hi
            x = free_between(highs[-1], hi)
            return MISSING if x is MISSING else seps + [x]
        s = seps[i - 1]
        x = free_between(highs[i - 1], s)                 # kid[i-1] < x <= (empty) < s <= kid[i]
        if x is not MISSING:
            return seps[:i - 1] + [x, s] + seps[i:]
        if skey(s) < skey(lows[i]):                       # kid[i-1] < s <= (empty) < x <= kid[i]
            return seps[:i] + [lows[i]] + seps[i:]
        return MISSING

    def put(kd, sp, fb=first):
        return lambda: node.__setstate__(node_tuple(kd, sp, fb))

    for i in range(len(kids) + 1):
        sp = separators(i)
        if sp is MISSING:
            continue
        where = "left-end" if i == 0 else "right-end" if i == len(kids) else "middle"
        yield "insert-empty-node@" + where, i, put(kids[:i] + [tree_type()] + kids[i:], sp)
        if bottom:
            nxt = kids[i] if i < len(kids) else leaf_state(kids[-1], cfg.is_set)[2]
            leaf = cfg.leafcls()
            leaf.__setstate__(leaf_tuple([], None if cfg.is_set else [], nxt))
            yield "insert-empty-leaf@" + where, i, put(kids[:i] + [leaf] + kids[i:], sp)
            if i == 0:
                yield "insert-empty-leaf@left-end+firstbucket", i, put([leaf] + kids, sp, leaf)


def local_containment_ok(cfg, t):
    """Containment judged against the separators of the DIRECT parent only
    (nothing is inherited from further up): every leaf key / every separator of
    an interior child lies inside the slot its parent gives it.  Used to name a
    containment violation that only the range inherited from ANCESTORS shows."""
    tree_type = type(t)

    def inside(vals, lo, hi):
        return all((lo is MISSING or skey(lo) <= skey(v)) and (hi is MISSING or skey(v) < skey(hi)) for v in vals)

    def rec(n):
        kids, seps, _ = node_state(n)
        for i, k in enumerate(kids):
            lo = seps[i - 1] if i > 0 else MISSING
            hi = seps[i] if i < len(seps) else MISSING
            if type(k) is tree_type:
                if k.__getstate__() is None:
                    continue
                if not inside(node_state(k)[1], lo, hi) or not rec(k):
                    return False
            elif not inside(leaf_state(k, cfg.is_set)[0], lo, hi):
                return False
        return True
    return t.__getstate__() is None or rec(t)


# ------------------------------------------------------------------ config
class Config:
    def __init__(self, fam, kind, impl, sizes):
        self.fam, self.kind, self.impl, self.sizes = fam, kind, impl, sizes
        self.is_set = kind == "TreeSet"
        self.cls = H.get_class(fam, kind, impl, *sizes)
        self.leafcls = H.get_class(fam, "Set" if self.is_set else "Bucket", impl)
        self.keys = H.keys_of(fam, 12)
        self.vals = H.values_of(fam)
        # replacement values: the universe, two above it, and what lies below it (-1; None for object keys)
        self.candidates = H.keys_of(fam, 14) + ([-1] if fam[0] in "ILO" else []) + ([None] if fam[0] == "O" else [])
        self.nfail = {}
        self.sample = None                                # one judged case, written out
        self.kinds = set()                                # (alteration, clause, target, depth, levels) judged as corrupt

    def tag(self):
        return "%s%s%s sizes=%s" % (self.fam, self.kind, "Py" if self.impl == "py" else "", self.sizes)

    def stray(self):
        b = self.leafcls()
        k = H.keys_of(self.fam, 16)[15]
        b.add(k) if self.is_set else b.__setitem__(k, self.vals[0])
        return b

    def build(self, h):
        t = self.cls()
        for op in h:
            H.apply_impl(t, op)
        return t

    def histories(self, n_random, exh):
        put = (lambda k: ("add", k)) if self.is_set else (lambda k: ("setitem", k, self.vals[0]))
        rem = (lambda k: ("remove", k)) if self.is_set else (lambda k: ("delitem", k))
        ks = self.keys
        for n in range(0, 13):                            # ordered / reversed fills, thinned fills
            yield tuple(put(k) for k in ks[:n])
            yield tuple(put(k) for k in reversed(ks[:n]))
            yield tuple(put(k) for k in ks[:n]) + tuple(rem(k) for k in ks[1:n:2])
            yield tuple(put(k) for k in ks[:n]) + tuple(rem(k) for k in ks[:n // 2])
        core = H.alphabet(self.fam, self.is_set, ks[:5], self.vals, rich=False)
        full = H.alphabet(self.fam, self.is_set, ks, self.vals, rich=True)
        seed = H.seed() * 7919 + hash((self.fam, self.kind, self.impl, self.sizes)) % 1000
        yield from H.histories(core, full, seed, exh, n_random, 40)

    def fail(self, out, clause, what, desc, h, **extra):
        key = "checkers:%s:%s:%s:%s" % (self.impl, self.kind, clause, what)
        self.nfail[key] = self.nfail.get(key, 0) + 1
        if self.nfail[key] <= 2:
            repro = {"family": self.fam, "kind": self.kind, "impl": self.impl, "sizes": list(self.sizes),
                     "history": [list(map(repr, o)) for o in h]}
            repro.update(extra)
            out.append(Failure(key=key, desc="%s: %s" % (self.tag(), desc), repro=repro))


def walker_finding(t, is_set):
    """None if the tree is well-formed, else what the independent walker found.
    harness.walk reads a one-leaf node through _firstbucket; that the node's
    own (inlined) child is that very leaf is checked here."""
    try:
        H.walk(t, is_set)
        for _, n in collect(t)[0]:
            st = n.__getstate__()
            if len(st) == 1 and st[0][0] != n._firstbucket.__getstate__():
                return "_firstbucket is not the leaf held by the one-leaf node"
        return None
    except H.Damage as e:
        return str(e)


def opinions(t, pkg_check):
    """what each checker says: 'accepted' | 'rejected' (AssertionError) | 'raised X'"""
    out = {}
    for name, f in (("check()", lambda: pkg_check(t)), ("_check()", t._check)):
        try:
            f()
            out[name] = "accepted"
        except AssertionError:
            out[name] = "rejected"
        except Exception as e:
            out[name] = "raised %s: %s" % (type(e).__name__, e)
    return out


def inherited_bounds(t):
    """id(interior node) -> (lo, hi): the range promised to it by ALL its ancestors (MISSING = unbounded)"""
    out = {}

    def rec(n, lo, hi):
        out[id(n)] = (lo, hi)
        kids, seps, _ = node_state(n)
        for i, k in enumerate(kids):
            if type(k) is type(t):
                rec(k, seps[i - 1] if i > 0 else lo, seps[i] if i < len(seps) else hi)
    if t.__getstate__() is not None:
        rec(t, MISSING, MISSING)
    return out


def sweep(cfg, h, pkg_check, failures, deep=False):
    """Part 2 for the tree built by history h (deep: Part 2d, with the additional empty children and the
    ancestor-bound naming).  -> (evaluations, corruptions judged, refused by __setstate__)"""
    t = cfg.build(h)
    before, _, levels = H.walk(t, cfg.is_set)
    nodes, leaves = collect(t)
    evals = ncorrupt = refused = 0
    node_alts = node_alterations
    if deep:
        bounds = inherited_bounds(t)

        def node_alts(cfg, t, node, leaves):
            yield from node_alterations(cfg, t, node, leaves)
            yield from node_inserts(cfg, t, node, leaves, *bounds[id(node)])
    targets = [(p, b, "leaf", leaf_alterations, lambda b=b: leaf_tuple(*leaf_state(b, cfg.is_set))) for p, b in leaves]
    targets += [(p, n, "node", node_alts, lambda n=n: node_tuple(*node_state(n))) for p, n in nodes]
    width = {p: len(node_state(n)[0]) for p, n in nodes}
    for path, obj, what, alterations, snapshot in targets:
        orig = snapshot()
        for name, pos, apply in alterations(cfg, t, obj, leaves):
            try:
                apply()
            except (TypeError, ValueError, OverflowError):
                refused += 1                              # __setstate__ itself refuses the state: no container to check
                restore(cfg, t, obj, orig, name, leaves)
                continue
            broken = walker_finding(t, cfg.is_set)
            says = opinions(t, pkg_check)
            evals += 1
            rejected = "rejected" in says.values()
            where = {"target": what, "path": list(path), "alteration": name, "position": repr(pos), "checkers": says}
            if deep:
                where.update(levels=levels, depth=len(path),
                             on_rightmost_spine=all(i == width[path[:d]] - 1 for d, i in enumerate(path)))
                if broken and name in ("shift", "separator") and clause_of(broken) == "containment" and local_containment_ok(cfg, t):
                    # consistent with the separators of every DIRECT parent: only the range inherited from further up is violated
                    name += "-vs-ancestor-bound"
                    where["alteration"] = name
            if broken:
                ncorrupt += 1
                cfg.kinds.add((name, clause_of(broken), what, len(path), levels))
                if not cfg.sample and len(path) > 1:
                    cfg.sample = dict(where, container=cfg.tag(), history=[list(map(repr, o)) for o in h], walker=broken)
                if not rejected:
                    clause = "corrupt-accepted" if set(says.values()) == {"accepted"} else "corrupt-no-AssertionError"
                    cfg.fail(failures, clause, "%s:%s" % (name, clause_of(broken)),
                             "%s of %s at path %s, position %r breaks the tree (%s) but %s" % (name, what, list(path), pos, broken, says), h, **where)
            elif says != {"check()": "accepted", "_check()": "accepted"}:
                cfg.fail(failures, "valid-rejected", name,
                         "%s of %s at path %s, position %r leaves a well-formed tree but %s" % (name, what, list(path), pos, says), h, **where)
            restore(cfg, t, obj, orig, name, leaves)
        # the restoration must give back the tree we started from (guards this module, not BTrees)
        after = H.walk(t, cfg.is_set)[0]
        if after != before or opinions(t, pkg_check) != {"check()": "accepted", "_check()": "accepted"}:
            raise RuntimeError("restoring %s %s of %s failed (module error)" % (what, path, cfg.tag()))
    return evals, ncorrupt, refused


def restore(cfg, t, obj, orig, name, leaves):
    if name.endswith("-embedded"):
        leaf = leaves[0][1]
        t.__setstate__(((leaf,), leaf))
    else:
        obj.__setstate__(orig)


def run_config(args):
    fam, kind, impl, sizes, n_random, exh, max_states = args
    from BTrees.check import check as pkg_check
    cfg = Config(fam, kind, impl, sizes)
    failures, evals = [], 0
    states = {}                                           # (shape, keys) -> shortest history reaching it
    for h in cfg.histories(n_random, exh):
        t = cfg.cls()
        for i, op in enumerate(h):
            H.apply_impl(t, op)
            # Part 1: "accept every container produced through the public API"
            says = opinions(t, pkg_check)
            evals += 1
            if says != {"check()": "accepted", "_check()": "accepted"}:
                cfg.fail(failures, "valid-rejected", "api:" + op[0], "after %r: %s" % (op, says), h[:i + 1])
                break
        else:
            sig = (H.shape(t, cfg.is_set), tuple(t.keys()))
            if sig[1] and (sig not in states or len(h) < len(states[sig])):
                states[sig] = h
    # one tree per distinct shape first, then further key sets of the same shapes, up to the budget
    order, seen_shapes = [], set()
    for sig in sorted(states, key=lambda x: (len(states[x]), repr(x))):
        order.append((sig[0] in seen_shapes, len(order), sig))
        seen_shapes.add(sig[0])
    chosen = [sig for _, _, sig in sorted(order)[:max_states]]
    ncorrupt = refused = 0
    for sig in chosen:
        e, c, r = sweep(cfg, states[sig], pkg_check, failures)
        evals, ncorrupt, refused = evals + e, ncorrupt + c, refused + r
    return {"evals": evals, "ncorrupt": ncorrupt, "refused": refused, "trees": len(chosen), "failures": failures,
            "sample": cfg.sample, "kinds": cfg.kinds}


# ------------------------------------------------- Part 2d / Part 3: deep trees
class DeepConfig(Config):
    """Trees of a wanted number of levels over a GAPPED key universe: the tree
    keys are every second value of the universe, so a free value lies between
    any two neighbouring keys, below the smallest and above the largest."""
    NMAX = 40

    def __init__(self, fam, kind, impl, sizes):
        Config.__init__(self, fam, kind, impl, sizes)
        self.set_n(self.NMAX)

    def set_n(self, n):
        self.universe = H.keys_of(self.fam, 2 * n + 3)
        self.keys = self.universe[1:2 * n + 1:2]
        self.candidates = self.universe + ([-1] if self.fam[0] in "ILO" else []) + ([None] if self.fam[0] == "O" else [])

    def stray(self):
        b = self.leafcls()
        k = self.universe[-1]                             # a free value above every key
        b.add(k) if self.is_set else b.__setitem__(k, self.vals[0])
        return b

    def levels(self, h):
        return H.walk(self.build(h), self.is_set)[2]

    def deep_histories(self):
        """-> [(label, n keys used, fill, thinning)]: for ascending and descending fills the smallest number of keys that
        gives 2, 3 and 4 levels; the 4-level fills also thinned (every other key / lower half / upper half / middle
        deleted) where that leaves >= 3 levels."""
        put = (lambda k: ("add", k)) if self.is_set else (lambda k: ("setitem", k, self.vals[0]))
        rem = (lambda k: ("remove", k)) if self.is_set else (lambda k: ("delitem", k))
        self.set_n(self.NMAX)
        out = []
        for order in ("asc", "desc"):
            want = [2, 3, 4]
            for n in range(2, self.NMAX + 1):
                ks = self.keys[:n] if order == "asc" else self.keys[:n][::-1]
                fill = tuple(put(k) for k in ks)
                lv = self.levels(fill)
                if lv not in want:
                    continue
                want.remove(lv)
                out.append(("%s-fill-%d-levels" % (order, lv), n, fill, ()))
                if lv == 4:
                    srt = sorted(ks)
                    for tname, gone in (("every-other", srt[1::2]), ("lower-half", srt[:n // 2]), ("upper-half", srt[n // 2:][1:]),
                                        ("middle", srt[n // 4:n - n // 4])):
                        thin = tuple(rem(k) for k in gone)
                        if self.levels(fill + thin) >= 3:
                            out.append(("%s-fill-4-levels-thinned-%s" % (order, tname), n, fill, thin))
                if not want:
                    break
        return out


def run_deep(args):
    """Part 2d for one configuration"""
    fam, kind, impl, sizes = args
    from BTrees.check import check as pkg_check
    cfg = DeepConfig(fam, kind, impl, sizes)
    failures = []
    evals = ncorrupt = refused = trees = 0
    for label, n, fill, thin in cfg.deep_histories():
        cfg.set_n(n)
        e, c, r = sweep(cfg, fill + thin, pkg_check, failures, deep=True)
        evals, ncorrupt, refused, trees = evals + e, ncorrupt + c, refused + r, trees + 1
    return {"evals": evals, "ncorrupt": ncorrupt, "refused": refused, "deep_trees": trees, "failures": failures,
            "deep_sample": cfg.sample, "kinds": cfg.kinds}


def is_ghost(o):
    return o._p_changed is None


def db_cases(cfg, pkg_check, failures):
    """Part 3 for one configuration -> (cases, cases with >= 1 ghost, stored trees not judged, distinct patterns)"""
    from rtc import stubdb
    is_set = cfg.is_set
    cases = ghostly = skipped = 0
    patterns = set()
    sample = None
    rng = random.Random(H.seed() * 7919 + hash((cfg.fam, cfg.kind, cfg.impl, cfg.sizes)) % 1000)
    for label, n, fill, thin in cfg.deep_histories():
        for segments in ([fill + thin], [fill, thin]) if thin else ([fill],):
            st = stubdb.Storage()
            w = st.open()
            t = cfg.cls()
            oid = w.add(t)
            for seg in segments:
                for op in seg:
                    H.apply_impl(t, op)
                w.commit()
            expected = H.contents(t, is_set)
            flat = [list(map(repr, o)) for seg in segments for o in list(seg) + [("commit",)]]
            # an independent reader on a connection of its own: is what was stored a well-formed tree with these contents?
            try:
                c, _, levels = H.walk(st.open().get(oid), is_set)
            except H.Damage:
                c = None
            if c != expected:
                skipped += 1                              # the stored tree itself is damaged: C04 / C06, not judged here
                continue

            def fresh():
                rd = st.open()
                return rd, rd.get(oid)

            def loaded():
                rd, rt = fresh()
                H.walk(rt, is_set)
                return rd, rt

            def everything(rt):
                nodes, leaves = collect(rt)
                return nodes + leaves

            def fresh_all_ghosts():
                rd, rt = fresh()
                return rd, rt, None

            def only_root_loaded():
                rd, rt = fresh()
                rt._p_activate()
                return rd, rt, None

            def none_ghost():
                rd, rt = loaded()
                return rd, rt, []

            def writer(how):
                def prepare():
                    w.sweep(how)
                    return w, t, None
                return prepare

            def deactivated(select):
                def prepare():
                    rd, rt = loaded()
                    objs = everything(rt)
                    chosen = [(p, o) for p, o in objs if select(p, o, type(o) is type(rt))]
                    del objs
                    for p, o in chosen:
                        o._p_deactivate()
                    return rd, rt, [list(p) for p, o in chosen]
                return prepare

            modes = [("all-ghosts:fresh-connection", fresh_all_ghosts), ("only-root-loaded:fresh-connection", only_root_loaded),
                     ("none-ghost", none_ghost), ("all-ghosts:writer-cache-minimized", writer("minimize")),
                     ("all-ghosts:writer-deactivated", writer("deactivate")),
                     ("all-leaves-ghosts", deactivated(lambda p, o, interior: not interior)),
                     ("all-interior-ghosts", deactivated(lambda p, o, interior: interior)),
                     ("all-interior-below-root-ghosts", deactivated(lambda p, o, interior: interior and p != ()))]
            paths = [(p, type(o) is type(t)) for p, o in everything(loaded()[1])]
            for p, interior in paths:
                what = "root" if p == () else "interior-node" if interior else "leaf"
                modes.append(("one-ghost:" + what, deactivated(lambda q, o, i, p=p: q == p)))
            for d in range(1, levels):
                modes.append(("one-level-ghosts", deactivated(lambda q, o, i, d=d: len(q) == d)))
            for _ in range(4):
                pick = set(p for p, _ in paths if rng.random() < 0.4)
                modes.append(("seeded-subset-ghosts", deactivated(lambda q, o, i, pick=pick: q in pick)))
            for mode, prepare in modes:
                for first in ("_check()", "check()"):
                    H.tick()
                    conn, rt, ghost_paths = prepare()
                    nghost = sum(is_ghost(o) for o in conn.nodes())
                    calls = {"_check()": rt._check, "check()": lambda: pkg_check(rt)}
                    order = [first] + [x for x in calls if x != first]
                    says = {}
                    for name in order:
                        try:
                            calls[name]()
                            says[name] = "accepted"
                        except AssertionError as e:
                            says[name] = "rejected: %s" % (str(e)[:200],)
                        except Exception as e:
                            says[name] = "raised %s: %s" % (type(e).__name__, str(e)[:200])
                    cases += 1
                    if mode != "none-ghost" and (ghost_paths is None or ghost_paths):
                        ghostly += 1
                        patterns.add((label, len(segments), mode, repr(ghost_paths)))
                    if sample is None and levels == 4 and mode == "one-ghost:interior-node":
                        sample = {"container": cfg.tag(), "history": flat, "levels": levels, "mode": mode,
                                  "deactivated_paths": ghost_paths, "called_first": first, "checkers": dict(says)}
                    for name in order:
                        if says[name] == "accepted":
                            continue
                        rank = "first" if name == first else "after-" + first
                        if says[name].startswith("rejected"):
                            clause, what = "valid-rejected", "db:%s:%s-%s" % (mode, name, rank)
                        else:
                            clause, what = "valid-raised", "db:%s:%s-%s:%s" % (mode, name, rank, says[name].split()[1].rstrip(":"))
                        cfg.fail(failures, clause, what,
                                 "a %d-level tree stored through the stub database and committed (%s), ghost pattern '%s' (deactivated "
                                 "paths %s; %d ghosts in the connection before the call), checkers called in the order %s: %s"
                                 % (levels, label, mode, ghost_paths, nghost, order, says),
                                 [], history_with_commits=flat, levels=levels, mode=mode, deactivated_paths=ghost_paths,
                                 call_order=order, checkers=says)
    return cases, ghostly, skipped, patterns, sample


def run_db(args):
    """Part 3 for one configuration, in a child of its own: a crash of the code under test on a ghost is an observation"""
    fam, kind, impl, sizes = args
    from BTrees.check import check as pkg_check
    cfg = DeepConfig(fam, kind, impl, sizes)

    def body():
        failures = []
        cases, ghostly, skipped, patterns, sample = db_cases(cfg, pkg_check, failures)
        return cases, ghostly, skipped, len(patterns), sample, failures
    res = H.guarded(body, timeout=300)
    if res[0] == "crash":
        f = Failure(key="checkers:%s:%s:valid-crash:db:signal-%d" % (impl, kind, res[1]),
                    desc="%s: the interpreter died (signal %d) while a checker ran on a stored tree with ghost nodes, in case number %d "
                         "of rtc.checkers_rt.db_cases" % (cfg.tag(), res[1], res[2]),
                    repro={"family": fam, "kind": kind, "impl": impl, "sizes": list(sizes), "case_number": res[2]})
        return {"evals": res[2], "failures": [f]}
    cases, ghostly, skipped, npatterns, sample, failures = res[1]
    return {"evals": cases, "db_cases": cases, "db_ghostly": ghostly, "db_skipped": skipped, "db_patterns": npatterns,
            "db_sample": sample, "failures": failures}


def run_job(job):
    return {"classic": run_config, "deep": run_deep, "db": run_db}[job[0]](job[1:])


def main():
    ap = argparse.ArgumentParser()
    ap.add_argument("--out")
    a = ap.parse_args()
    qs = H.tier() == "quick"
    n_random, exh, max_states = (20, 2, 30) if qs else (300, 3, 300)
    deep_sizes = ((2, 2), (2, 3), (3, 3)) if qs else ((2, 2), (2, 3), (3, 2), (3, 3), (4, 3))
    s = Standin(name="checkers_rt",
                bound="per family, BTree and TreeSet, C and Python, node sizes (3,3),(2,2): accept = after every call of ordered / reversed / "
                      "thinned fills of 0..12 keys, every history of <=%d set/del calls over 5 keys and %d seeded histories of 20..40 calls; "
                      "reject = for <=%d distinct trees so reached (one per shape first): on every leaf swap / duplicate each adjacent key pair, "
                      "replace each key by each of 14..16 candidate values, empty it, drop its next pointer, redirect it to every other leaf "
                      "and to a stray bucket; on every interior node replace each separator by each candidate, swap adjacent separators, "
                      "point firstbucket at every other leaf / a stray bucket, replace each child by a node of the other kind, empty the node; "
                      "each applied alone through __setstate__ of that node.  DEEP (node sizes %s): the trees of 2, 3 and 4 levels reached by "
                      "the shortest ascending and the shortest descending fill over keys that leave a free value between neighbours, and the "
                      "4-level fills thinned in four ways (>= 3 levels left): the same catalogue with every value of the universe as candidate "
                      "on EVERY leaf and interior node (every position of every level), plus an empty node of the tree's class (under "
                      "bottom-level nodes also an empty leaf linked to its successor) inserted at every position 0..len(children) of every "
                      "interior node with an in-range separator; containment violations visible only against the range inherited from "
                      "ancestors are keyed separately.  DATABASE (rtc.stubdb, same trees, thinned ones committed once or before and after "
                      "the thinning): both checkers, each called first in turn, on a fresh connection (all ghosts / only the root loaded / "
                      "all loaded), on the writer after cache.minimize() and after _p_deactivate() of every node, and on a loaded reader with "
                      "exactly one node deactivated (each node and leaf in turn), each level, all leaves, all interior nodes (with / without "
                      "the root), 4 seeded subsets" % (exh, n_random, max_states, ",".join("(%d,%d)" % x for x in deep_sizes)),
                rule="case = one (tree, alteration) pair judged by the walker and both checkers, or one call of a history followed by both "
                     "checkers, or one (stored tree, ghost pattern, call order) with both checkers; distinct non-trivial = alterations that "
                     "the walker finds to break one of the five clauses + distinct (stored tree, ghost pattern) pairs with >= 1 ghost",
                functions=["BTrees.check.check", "Checker.check_sorted", "Walker.walk", "crack_btree", "crack_bucket", "_Tree._check",
                           "BTree_check_inner"])
    jobs = [("classic", fam, kind, impl, sizes, n_random, exh, max_states)
            for fam in H.fams() for kind in ("BTree", "TreeSet") for impl in ("c", "py") for sizes in ((3, 3), (2, 2))]
    for part in ("deep", "db"):
        jobs += [(part, fam, kind, impl, sizes)
                 for fam in H.fams() for kind in ("BTree", "TreeSet") for impl in ("c", "py") for sizes in deep_sizes]
    ctx = multiprocessing.get_context("fork")
    with cf.ProcessPoolExecutor(max_workers=min(16, os.cpu_count() or 1, len(jobs)), mp_context=ctx) as ex:
        results = list(ex.map(run_job, jobs))
    tot = {}
    kinds = set()
    samples = {}
    for r in results:
        s.evaluations += r["evals"]
        s.distinct_nontrivial += r.get("ncorrupt", 0) + r.get("db_patterns", 0)
        s.failures.extend(r["failures"])
        kinds |= r.get("kinds", set())
        for k in ("refused", "trees", "deep_trees", "db_cases", "db_ghostly", "db_skipped"):
            tot[k] = tot.get(k, 0) + r.get(k, 0)
        for k in ("sample", "deep_sample", "db_sample"):
            if r.get(k) and k not in samples:
                samples[k] = r[k]
    s.samples = [samples[k] for k in ("sample", "deep_sample", "db_sample") if k in samples]
    deep_kinds = sorted(set((name, clause) for name, clause, what, depth, levels in kinds if levels >= 3))
    s.samples.append({"trees_swept": tot["trees"], "deep_trees_swept": tot["deep_trees"], "alterations_refused_by_setstate": tot["refused"],
                      "corrupting_alteration_kinds_on_trees_of_3_or_more_levels": ["%s:%s" % k for k in deep_kinds],
                      "database_cases": tot["db_cases"], "database_cases_with_ghosts": tot["db_ghostly"],
                      "stored_trees_not_judged_because_the_reader_found_them_damaged": tot["db_skipped"]})
    write_standin(a.out, s)


if __name__ == "__main__":
    main()
