"""F-SPLIT (C03, C17 - C side): `bucket_split(self, index, next)` - how a full leaf hands its upper half to a
new right sibling - against its functional contract, for every length, index and content (loop-free body:
the proof is complete, not bounded).

  requires   self != next; `next` is a freshly created empty leaf; vectors of self hold len entries;
             index is out of range (the one caller, BTree_grow, passes -1: checked in the AST of every unit as
             obligation `F-SPLIT:<caller>:call-index`) or 0 < index
  returns 0  =>  with idx the effective split point (index, or len/2 when index is out of range):
                 0 < idx < len0                                         (neither half is empty: C03)
                 self->len == idx, next->len == next->size == len0 - idx
                 next->keys[j] == old self->keys[idx + j]   for every j < next->len   (and values alike)
                 self's own vectors are untouched (same blocks, same contents below idx)
                 next->next == old self->next  and  self->next == next   (the leaf chain is re-linked)
                 the change of self was registered (PER_CHANGED called and succeeded)
  returns -1 =>  self is as it was: len, next, keys / values pointers and contents unchanged (C17: a failed
                 allocation leaves the previous contents), and `next` holds no pointer to a released block
                 (next->keys is NULL whenever its block was freed)
                 - unless the failure is PER_CHANGED's own (the split is then complete but unregistered).

Obligations `F-SPLIT:bucket_split:<ok|fail>:<clause>`; `memcpy` in bounds.  Quantifier-free: the element
clauses are proved for a fresh index.  Trusted: BTree_Malloc returns NULL or a block that overlaps no live
vector (A6), memcpy's contract, PER_CHANGED / Py_INCREF / PyErr_* do not touch the fields read here (A4).
"""
import z3

from .cexec import CExec, fresh, INT, Unsupported
from .funiq import strip, walk


def H0(field):
    return z3.Const("H0_" + field, z3.ArraySort(INT, INT))


def _one_star_less(t):
    """'PyObject**' -> 'PyObject*': the element type of a vector (exactly one level of indirection less)."""
    return t[:-1] if t.endswith("*") else t


class FSplit(CExec):
    family = "F-SPLIT"

    @classmethod
    def applies(cls, tu, fn):
        return fn == "bucket_split"

    def on_entry(self, st):
        ps = [p for p in self.fn.get("inner", []) if p["kind"] == "ParmVarDecl"]
        if [p.get("name") for p in ps] != ["self", "index", "next"]:
            raise Unsupported("bucket_split's parameters are not (self, index, next)")
        self.S, self.IDX, self.NX = (st.vars[p["id"]] for p in ps)
        sub = [x for x in walk(self.fn) if x.get("kind") == "CallExpr" and self.callee_name(x["inner"][0]) == "memcpy"]
        if len(sub) != 2:
            raise Unsupported("bucket_split does not have its two memcpy calls")
        self.kmem = self.vmem = None
        self.blocks = []                 # (pointer, element count) of the blocks allocated here
        self.freed = []                  # (guard, pointer)
        self.changed = []                # (guard, result) of PER_CHANGED
        self.len0 = z3.Select(H0("len"), self.S)
        self.K0 = z3.Select(H0("keys"), self.S)
        self.V0 = z3.Select(H0("values"), self.S)
        self.next0 = z3.Select(H0("next"), self.S)
        self.assumptions += [self.S != self.NX, self.S != 0, self.NX != 0, self.len0 >= 0, self.K0 != 0,
                             # a freshly created empty sibling
                             z3.Select(H0("len"), self.NX) == 0, z3.Select(H0("keys"), self.NX) == 0,
                             z3.Select(H0("values"), self.NX) == 0,
                             z3.Or(self.IDX < 0, self.IDX >= self.len0, self.IDX > 0),
                             # self's two vectors do not overlap
                             z3.Or(self.V0 == 0, self.K0 + self.len0 <= self.V0, self.V0 + self.len0 <= self.K0)]
        self.covers = [("F-SPLIT:bucket_split:cover:precondition", list(self.assumptions) + [self.len0 > 3])]
        ncalls = 0
        for fname, fn in self.tu.functions.items():
            for x in walk(fn):
                if x.get("kind") == "CallExpr" and self.callee_name(x["inner"][0]) == "bucket_split":
                    ncalls += 1
                    a = strip(x["inner"][2])
                    neg = a.get("kind") == "UnaryOperator" and a.get("opcode") == "-" and \
                        strip(a["inner"][0]).get("kind") == "IntegerLiteral"
                    self.oblige(st, "F-SPLIT:%s:call-index" % fname, z3.BoolVal(bool(neg)),
                                "bucket_split is called with an index that is not a negative literal: the precondition "
                                "`index out of range or > 0` is not evident at this call")
        if ncalls == 0:
            raise Unsupported("no call of bucket_split found in the unit")

    # ---- calls
    def count_of(self, node, st):
        """Element count of a byte size written as a product with exactly one sizeof(T) factor."""
        factors, todo = [], [node]
        while todo:
            x = strip(todo.pop())
            if x.get("kind") == "BinaryOperator" and x.get("opcode") == "*":
                todo.extend(x["inner"])
            else:
                factors.append(x)
        sz = [f for f in factors if f.get("kind") == "UnaryExprOrTypeTraitExpr"]
        if len(sz) != 1:
            raise Unsupported("size is not sizeof(T) * count")
        cnt = None
        for f in factors:
            if f is sz[0]:
                continue
            v = self.rvalue(f, st)
            cnt = v if cnt is None else cnt * v
        return cnt if cnt is not None else z3.IntVal(1)

    def on_call(self, name, args, n, st):
        if name in ("BTree_Malloc", "malloc"):
            cnt = self.count_of(n["inner"][1], st)
            r = fresh("blk")
            live = [(self.K0, self.len0), (self.V0, self.len0)] + self.blocks
            self.assumptions.append(z3.Or(r == 0, z3.And(r > 0, *[z3.Or(r + cnt <= b, b + c <= r) for b, c in live])))
            self.blocks.append((r, cnt))
            return r
        if name == "memcpy":
            cnt = self.count_of(n["inner"][3], st)
            dst, src = args[0], args[1]
            # which element map?  the one the source expression reads
            srcnode = strip(n["inner"][2])
            mem = None
            for x in walk(n["inner"][2]):
                if x.get("kind") == "MemberExpr" and x.get("name") in ("keys", "values"):
                    mem = x["name"]
            t = n["inner"][2]
            ptr_t = (t.get("type", {}).get("desugaredQualType") or t.get("type", {}).get("qualType", "")).replace("const ", "")
            elem_t = None
            for x in walk(n["inner"][2]):
                if x.get("kind") == "MemberExpr" and x.get("name") in ("keys", "values"):
                    q = x.get("type", {}).get("desugaredQualType") or x.get("type", {}).get("qualType", "")
                    elem_t = _one_star_less(q.replace("const ", "").replace(" ", ""))
            if elem_t is None:
                raise Unsupported("memcpy source is not self->keys / self->values based")
            field = "*" + elem_t
            if mem == "keys":
                self.kmem = field
            else:
                self.vmem = field
            base = self.K0 if mem == "keys" else self.V0
            tag = "F-SPLIT:bucket_split:memcpy[%s]:" % mem
            self.oblige(st, tag + "source-in-bounds", z3.And(src >= base, src + cnt <= base + self.len0, cnt >= 0))
            blk = [b for b in self.blocks]
            self.oblige(st, tag + "destination-in-bounds",
                        z3.Or(*[z3.And(dst == b, cnt <= c, b != 0) for b, c in blk]) if blk else z3.BoolVal(False))
            a = z3.Int("a!mc")
            old = st.heap.get(field)
            if old is None:
                old = H0(field)
            st.heap[field] = z3.Lambda([a], z3.If(z3.And(dst <= a, a < dst + cnt), z3.Select(old, src + (a - dst)), z3.Select(old, a)))
            return dst
        if name == "free":
            self.freed.append((st.guard, args[0]))
            return z3.IntVal(0)
        if name == "->changed":
            r = fresh("changed_rc")
            self.assumptions.append(z3.Or(r == 0, r == -1))
            self.changed.append((st.guard, r))
            return r
        if name in ("Py_INCREF", "_Py_INCREF", "Py_IncRef", "PyErr_SetString", "_Py_IsImmortal", "Py_TYPE", "_Py_NewRef"):
            return fresh("ret_" + name)
        raise Unsupported("bucket_split calls %s" % name)

    # ---- contract
    def f(self, st, field, ptr):
        return self.hread(st, field, ptr)

    def on_return(self, st, v):
        if v is None:
            raise Unsupported("bucket_split returns no value")
        if self.kmem is None:
            raise Unsupported("no memcpy of the keys was executed")
        S, NX, len0 = self.S, self.NX, self.len0
        idx = z3.If(z3.Or(self.IDX < 0, self.IDX >= len0), len0 / 2, self.IDX)
        j0 = fresh("j0")
        km = st.heap.get(self.kmem, H0(self.kmem))
        km0 = H0(self.kmem)
        nk, nv = self.f(st, "keys", NX), self.f(st, "values", NX)
        nlen = self.f(st, "len", NX)
        chg_ok = z3.Or(*[z3.And(g, r == 0) for g, r in self.changed]) if self.changed else z3.BoolVal(False)
        chg_failed = z3.Or(*[z3.And(g, r != 0) for g, r in self.changed]) if self.changed else z3.BoolVal(False)
        ok = {
            "halves_non_empty": z3.And(0 < idx, idx < len0),
            "left_length": self.f(st, "len", S) == idx,
            "right_length": z3.And(nlen == len0 - idx, self.f(st, "size", NX) == len0 - idx),
            "right_keys": z3.Implies(z3.And(0 <= j0, j0 < nlen), z3.And(nk != 0, z3.Select(km, nk + j0) == z3.Select(km0, self.K0 + idx + j0))),
            "left_keys_untouched": z3.And(self.f(st, "keys", S) == self.K0,
                                          z3.Implies(z3.And(0 <= j0, j0 < len0), z3.Select(km, self.K0 + j0) == z3.Select(km0, self.K0 + j0))),
            "chain_relinked": z3.And(self.f(st, "next", NX) == self.next0, self.f(st, "next", S) == NX),
            "registered": chg_ok,
        }
        if self.vmem is not None:
            vm = st.heap.get(self.vmem, H0(self.vmem))
            vm0 = H0(self.vmem)
            ok["right_values"] = z3.Implies(z3.And(self.V0 != 0, 0 <= j0, j0 < nlen),
                                            z3.And(nv != 0, z3.Select(vm, nv + j0) == z3.Select(vm0, self.V0 + idx + j0)))
            ok["left_values_untouched"] = z3.And(self.f(st, "values", S) == self.V0, z3.Implies(
                z3.And(self.V0 != 0, 0 <= j0, j0 < len0), z3.Select(vm, self.V0 + j0) == z3.Select(vm0, self.V0 + j0)))
            ok["set_stays_set"] = z3.Implies(self.V0 == 0, nv == 0)
        for nm, g in ok.items():
            self.oblige(st, "F-SPLIT:bucket_split:ok:" + nm, z3.Implies(v == 0, g))
        dangling = z3.Or(*[z3.And(g, p != 0, z3.Or(nk == p, nv == p)) for g, p in self.freed]) if self.freed else z3.BoolVal(False)
        fail = {
            "self_unchanged": z3.Implies(z3.Not(chg_failed), z3.And(self.f(st, "len", S) == len0, self.f(st, "next", S) == self.next0,
                                                                 self.f(st, "keys", S) == self.K0, self.f(st, "values", S) == self.V0)),
            "self_contents_unchanged": z3.Implies(z3.And(0 <= j0, j0 < len0), z3.Select(km, self.K0 + j0) == z3.Select(km0, self.K0 + j0)),
            "no_dangling_pointer_in_next": z3.Not(dangling),
        }
        for nm, g in fail.items():
            self.oblige(st, "F-SPLIT:bucket_split:fail:" + nm, z3.Implies(v == -1, g))
        self.oblige(st, "F-SPLIT:bucket_split:result-domain", z3.Or(v == 0, v == -1))


ANALYSIS = {"F-SPLIT": FSplit}


# ---------------------------------------------------------------------------------------------------
TYPE = z3.Function("ob_type", INT, INT)


class FSplitTree(CExec):
    """`BTree_split(self, index, next)`: the interior-node split (loop-free).
      returns 0  =>  0 < idx < len0; self->len == idx; next->len == next->size == len0 - idx;
                     next->data[j] is old self->data[idx + j] (child AND separator) for every j < next->len;
                     self->data and self->firstbucket untouched;
                     next->firstbucket is the first leaf of next's first child: that child itself when it is a
                     leaf, its own firstbucket (read after activating it) when it is a node of self's type;
                     the change of self was registered
      returns -1 =>  self->len, self->data, self->firstbucket are as they were (unless PER_CHANGED itself failed)
    Obligations `F-SPLIT:BTree_split:<ok|fail>:<clause>`.  Trusted: as for bucket_split; activating the child
    (`setstate`) may change any field OF THAT CHILD and nothing else (A4b); Py_TYPE is a function of the object."""
    family = "F-SPLIT"

    @classmethod
    def applies(cls, tu, fn):
        return fn == "BTree_split"

    def on_entry(self, st):
        ps = [p for p in self.fn.get("inner", []) if p["kind"] == "ParmVarDecl"]
        if [p.get("name") for p in ps] != ["self", "index", "next"]:
            raise Unsupported("BTree_split's parameters are not (self, index, next)")
        self.S, self.IDX, self.NX = (st.vars[p["id"]] for p in ps)
        self.blocks, self.changed = [], []
        self.len0 = z3.Select(H0("len"), self.S)
        self.D0 = z3.Select(H0("data"), self.S)
        self.fb0 = z3.Select(H0("firstbucket"), self.S)
        self.assumptions += [self.S != self.NX, self.S != 0, self.NX != 0, self.len0 >= 0, self.D0 != 0,
                             z3.Select(H0("len"), self.NX) == 0, z3.Select(H0("data"), self.NX) == 0]
        # A6b: a node is not its own child, and the fresh sibling is nobody's child yet
        idx = z3.If(z3.Or(self.IDX < 0, self.IDX >= self.len0), self.len0 / 2, self.IDX)
        c0 = z3.Select(H0("child"), self.D0 + idx)        # the one child the function touches
        self.assumptions.append(z3.And(c0 != self.S, c0 != self.NX))
        self.covers = [("F-SPLIT:BTree_split:cover:precondition", list(self.assumptions) + [self.len0 > 3])]
        self.copied = False

    count_of = FSplit.count_of

    def on_call(self, name, args, n, st):
        if name in ("BTree_Malloc", "malloc"):
            cnt = self.count_of(n["inner"][1], st)
            r = fresh("blk")
            live = [(self.D0, self.len0)] + self.blocks
            self.assumptions.append(z3.Or(r == 0, z3.And(r > 0, *[z3.Or(r + cnt <= b, b + c <= r) for b, c in live])))
            self.blocks.append((r, cnt))
            return r
        if name == "memcpy":
            cnt = self.count_of(n["inner"][3], st)
            dst, src = args[0], args[1]
            self.oblige(st, "F-SPLIT:BTree_split:memcpy[data]:source-in-bounds",
                        z3.And(src >= self.D0, src + cnt <= self.D0 + self.len0, cnt >= 0))
            self.oblige(st, "F-SPLIT:BTree_split:memcpy[data]:destination-in-bounds",
                        z3.Or(*[z3.And(dst == b, cnt <= c, b != 0) for b, c in self.blocks]) if self.blocks else z3.BoolVal(False))
            a = z3.Int("a!mc")
            for field in ("key", "child"):          # a BTreeItem is copied whole: both of its fields
                old = st.heap.get(field)
                if old is None:
                    old = H0(field)
                st.heap[field] = z3.Lambda([a], z3.If(z3.And(dst <= a, a < dst + cnt), z3.Select(old, src + (a - dst)), z3.Select(old, a)))
            self.copied = True
            return dst
        if name == "->changed":
            r = fresh("changed_rc")
            self.assumptions.append(z3.Or(r == 0, r == -1))
            self.changed.append((st.guard, r))
            return r
        if name == "->setstate":
            # loading the (ghost) child: any field of THAT object may change, nothing else
            obj = args[0]
            for f in list(st.heap):
                if f in ("key", "child") or f.startswith("*"):
                    continue
                st.heap[f] = z3.Store(st.heap[f], obj, fresh("loaded_" + f.replace(".", "_")))
            for f in ("firstbucket", "len", "data", "state"):
                if f not in st.heap:
                    st.heap[f] = z3.Store(H0(f), obj, fresh("loaded_" + f))
            return fresh("setstate_rc")
        if name == "Py_TYPE":
            return TYPE(args[0])
        if name in ("->accessed", "Py_INCREF", "_Py_INCREF", "Py_IncRef", "PyErr_SetString", "_Py_IsImmortal", "_Py_NewRef"):
            return fresh("ret_" + name.strip("->"))
        raise Unsupported("BTree_split calls %s" % name)

    def on_return(self, st, v):
        if v is None:
            raise Unsupported("BTree_split returns no value")
        S, NX, len0 = self.S, self.NX, self.len0
        idx = z3.If(z3.Or(self.IDX < 0, self.IDX >= len0), len0 / 2, self.IDX)
        j0 = fresh("j0")

        def f(field, ptr):
            return self.hread(st, field, ptr)
        nd, nlen = f("data", NX), f("len", NX)
        child0 = z3.Select(H0("child"), self.D0 + idx)
        chg_ok = z3.Or(*[z3.And(g, r == 0) for g, r in self.changed]) if self.changed else z3.BoolVal(False)
        chg_failed = z3.Or(*[z3.And(g, r != 0) for g, r in self.changed]) if self.changed else z3.BoolVal(False)
        ok = {
            "halves_non_empty": z3.And(0 < idx, idx < len0),
            "left_length": f("len", S) == idx,
            "right_length": z3.And(nlen == len0 - idx, f("size", NX) == len0 - idx),
            "right_items": z3.Implies(z3.And(0 <= j0, j0 < nlen), z3.And(
                nd != 0, f("child", nd + j0) == z3.Select(H0("child"), self.D0 + idx + j0),
                f("key", nd + j0) == z3.Select(H0("key"), self.D0 + idx + j0))),
            "left_items_untouched": z3.And(f("data", S) == self.D0, z3.Implies(z3.And(0 <= j0, j0 < len0), z3.And(
                f("child", self.D0 + j0) == z3.Select(H0("child"), self.D0 + j0),
                f("key", self.D0 + j0) == z3.Select(H0("key"), self.D0 + j0)))),
            "left_first_bucket_kept": f("firstbucket", S) == self.fb0,
            "right_first_bucket": f("firstbucket", NX) == z3.If(TYPE(S) == TYPE(child0), f("firstbucket", child0), child0),
            "registered": chg_ok,
        }
        for nm, g in ok.items():
            self.oblige(st, "F-SPLIT:BTree_split:ok:" + nm, z3.Implies(v == 0, g))
        fail = {"self_unchanged": z3.Implies(z3.Not(chg_failed), z3.And(f("len", S) == len0, f("data", S) == self.D0,
                                                                     f("firstbucket", S) == self.fb0))}
        for nm, g in fail.items():
            self.oblige(st, "F-SPLIT:BTree_split:fail:" + nm, z3.Implies(v == -1, g))
        self.oblige(st, "F-SPLIT:BTree_split:result-domain", z3.Or(v == 0, v == -1))
        if not self.copied:
            raise Unsupported("BTree_split copied no items")


class FSplitRoot(CExec):
    """`BTree_split_root(self, noval)`: the root keeps its identity; its contents move into a new child, which
    BTree_grow then splits (loop-free).
      at the call of BTree_grow:  the new child holds exactly what the root held (data, len, size, firstbucket);
                     the root has a fresh 2-slot vector, len 1, `data[0].child` is the new child, its firstbucket
                     is unchanged                                    (`F-SPLIT:BTree_split_root:handover:<clause>`)
      returns -1 without having called BTree_grow (creating the child or allocating the vector failed)
                 =>  the root is exactly as it was: data, len, size, firstbucket        (`...:fail:root_unchanged`)
                     and the child released on that path holds nothing of the root's     (`...:fail:released_child_owns_nothing`)
    Trusted: PyObject_CallObject returns NULL or a new object that is neither the root nor one of its children;
    BTree_Malloc as for bucket_split."""
    family = "F-SPLIT"

    @classmethod
    def applies(cls, tu, fn):
        return fn == "BTree_split_root"

    count_of = FSplit.count_of

    def on_entry(self, st):
        ps = [p for p in self.fn.get("inner", []) if p["kind"] == "ParmVarDecl"]
        if not ps or ps[0].get("name") != "self":
            raise Unsupported("BTree_split_root's first parameter is not self")
        self.S = st.vars[ps[0]["id"]]
        self.old = {f: z3.Select(H0(f), self.S) for f in ("data", "len", "size", "firstbucket")}
        self.assumptions += [self.S != 0, self.old["len"] >= 1, self.old["size"] >= self.old["len"], self.old["data"] != 0]
        self.grow = []               # guards of the paths that reached BTree_grow
        self.child = None

    def on_call(self, name, args, n, st):
        if name == "PyObject_CallObject":
            r = fresh("newnode")
            self.assumptions.append(z3.Or(r == 0, z3.And(r > 0, r != self.S)))
            self.child = r
            # a new object: empty (no vector, no first bucket)
            for fld in ("data", "len", "size", "firstbucket"):
                self.assumptions.append(z3.Select(H0(fld), r) == 0)
            return r
        if name in ("BTree_Malloc", "malloc"):
            cnt = self.count_of(n["inner"][1], st)
            r = fresh("blk")
            d0, s0 = self.old["data"], self.old["size"]
            self.assumptions.append(z3.Or(r == 0, z3.And(r > 0, z3.Or(r + cnt <= d0, d0 + s0 <= r))))
            self.vec = (r, cnt)
            return r
        if name == "BTree_grow":
            S, c = self.S, self.child

            def f(field, ptr):
                return self.hread(st, field, ptr)
            if c is None:
                self.oblige(st, "F-SPLIT:BTree_split_root:handover:child_created", z3.BoolVal(False))
            else:
                goals = {
                    "child_holds_the_old_contents": z3.And(c != 0, f("data", c) == self.old["data"], f("len", c) == self.old["len"],
                                                           f("size", c) == self.old["size"], f("firstbucket", c) == self.old["firstbucket"]),
                    "root_has_one_child": z3.And(f("len", S) == 1, f("size", S) == 2, f("data", S) != 0,
                                                 f("data", S) != self.old["data"], f("child", f("data", S)) == c),
                    "root_first_bucket_kept": f("firstbucket", S) == self.old["firstbucket"],
                    "split_the_only_child": args[1] == 0,
                }
                for nm, g in goals.items():
                    self.oblige(st, "F-SPLIT:BTree_split_root:handover:" + nm, g)
            self.grow.append(st.guard)
            self.havoc_heap(st, "call BTree_grow")
            return fresh("ret_BTree_grow")
        if name in ("Py_DECREF", "_Py_DECREF", "Py_XDECREF") and self.child is not None:
            # releasing the new child destroys it: it must not (yet / any more) hold the root's vector or first bucket
            self.oblige(st, "F-SPLIT:BTree_split_root:fail:released_child_owns_nothing",
                        z3.Implies(args[0] == self.child, z3.And(self.hread(st, "data", self.child) == 0,
                                                                 self.hread(st, "firstbucket", self.child) == 0)),
                        "the new child is released while it holds the root's item vector / first bucket: its destructor frees what "
                        "the root still points to")
            return fresh("ret_" + name)
        if name in ("Py_INCREF", "Py_DECREF", "_Py_INCREF", "_Py_DECREF", "Py_TYPE", "_Py_IsImmortal", "_Py_Dealloc", "Py_XDECREF"):
            return fresh("ret_" + name)
        raise Unsupported("BTree_split_root calls %s" % name)

    def on_return(self, st, v):
        if v is None:
            raise Unsupported("BTree_split_root returns no value")
        S = self.S
        grew = z3.Or(*self.grow) if self.grow else z3.BoolVal(False)
        same = z3.And(*[self.hread(st, f, S) == self.old[f] for f in ("data", "len", "size", "firstbucket")])
        self.oblige(st, "F-SPLIT:BTree_split_root:fail:root_unchanged", z3.Implies(z3.And(v == -1, z3.Not(grew)), same),
                    "the root was modified although creating the child / allocating its new vector failed")
        if not self.grow:
            raise Unsupported("BTree_split_root no longer calls BTree_grow")



class FGrow(CExec):
    """`BTree_grow(self, index, noval)`: split child `index` of an interior node and insert the new sibling right after
    it (or give an empty tree its first, empty leaf).  Loop-free; the vector may have to be doubled first.
      requires   0 <= index < len (or len == 0 and index == 0); len <= size; the child is neither self nor the new sibling
      returns 0, len0 > 0  =>  len' == len0 + 1 <= size';  items 0..index untouched (child AND separator);
                     item index+1 is (first key of the new sibling e as the split left it, e);
                     items index+1..len0-1 moved up by one;  firstbucket untouched
                     (stated at the return, and at the call of BTree_split_root when the node is then too big)
      returns 0, len0 == 0 =>  len' == 1, item 0 holds a new leaf, which is also the firstbucket
      returns -1           =>  len, firstbucket and the first len0 items are as they were (the vector may have moved)
    (`F-SPLIT:BTree_grow:<ok|empty|fail>:<clause>`.)  The callees BTree_split / bucket_split change the child and the new
    sibling only (their own contracts: above); `_max_internal_size` and the activation of the child do not touch self."""
    family = "F-SPLIT"

    @classmethod
    def applies(cls, tu, fn):
        return fn == "BTree_grow"

    count_of = FSplit.count_of

    def on_entry(self, st):
        ps = [p for p in self.fn.get("inner", []) if p["kind"] == "ParmVarDecl"]
        if [p.get("name") for p in ps][:2] != ["self", "index"]:
            raise Unsupported("BTree_grow's parameters are not (self, index, ...)")
        self.S, self.IDX = st.vars[ps[0]["id"]], st.vars[ps[1]["id"]]
        S = self.S
        self.old = {f: z3.Select(H0(f), S) for f in ("data", "len", "size", "firstbucket")}
        o = self.old
        self.assumptions += [S != 0, o["len"] >= 0, o["len"] <= o["size"], z3.Implies(o["size"] > 0, o["data"] > 0),
                             z3.Or(z3.And(o["len"] == 0, self.IDX == 0), z3.And(0 <= self.IDX, self.IDX < o["len"]))]
        self.blocks = [(o["data"], o["size"])]
        self.new_nodes = []
        self.e = None
        self.root_split = []
        for f in ("key", "child", "data", "len", "size", "firstbucket"):
            st.heap.setdefault(f, H0(f))
        self.covers = [("F-SPLIT:BTree_grow:cover:precondition", list(self.assumptions) + [o["len"] > 2])]

    def shift(self, st, dst, src, cnt, guard=None):
        a = z3.Int("a!gm")
        for field in ("key", "child"):
            old = st.heap.get(field, H0(field))
            inside = z3.And(dst <= a, a < dst + cnt)
            if guard is not None:
                inside = z3.And(guard, inside)
            st.heap[field] = z3.Lambda([a], z3.If(inside, z3.Select(old, src + (a - dst)), z3.Select(old, a)))

    def fresh_block(self, cnt, old=None):
        r = fresh("blk")
        ok = z3.And(r > 0, *[z3.Or(b == 0, r + cnt <= b, b + c <= r) for b, c in self.blocks if old is None or b is not old[0]])
        if old is not None:
            p, oc = old
            ok = z3.And(ok, z3.Or(r == p, r + cnt <= p, p + oc <= r))
        self.assumptions.append(z3.Or(r == 0, ok))
        return r

    def on_call(self, name, args, n, st):
        S = self.S
        if name in ("BTree_Realloc", "realloc"):
            p = args[0]
            cnt = self.count_of(n["inner"][2], st)
            oc = self.old["size"]
            r = self.fresh_block(cnt, old=(self.old["data"], oc))
            self.oblige(st, "F-SPLIT:BTree_grow:realloc:grows", z3.And(p == self.old["data"], cnt >= oc))
            self.shift(st, r, p, oc, guard=(r != 0))
            self.blocks = [(z3.If(r != 0, r, self.old["data"]), z3.If(r != 0, cnt, oc))]
            return r
        if name in ("BTree_Malloc", "malloc"):
            cnt = self.count_of(n["inner"][1], st)
            r = self.fresh_block(cnt)
            self.blocks.append((r, cnt))
            return r
        if name in ("PyObject_CallObject", "BTree_newBucket"):
            r = fresh("newnode")
            c0 = z3.Select(st.heap.get("child", H0("child")), self.hread(st, "data", S) + self.IDX)
            self.assumptions.append(z3.Or(r == 0, z3.And(r > 0, r != S, r != c0)))
            self.new_nodes.append(r)
            if name == "PyObject_CallObject":
                self.e = r
            else:
                self.bucket = r
            return r
        if name in ("->setstate", "BTree_split", "bucket_split"):
            # these work on the child (and the new sibling): any field of THOSE objects may change, nothing of self
            objs = [args[0]] + ([args[2]] if name != "->setstate" else [])
            for f in list(st.heap):
                if f in ("key", "child") or f.startswith("*"):
                    continue
                for o in objs:
                    st.heap[f] = z3.Store(st.heap[f], o, fresh("upd_" + f.replace(".", "_")))
            # the callee's own vectors (of the child / the sibling) are other blocks: self's items are not written
            self.assumptions.append(z3.And(*[o != S for o in objs]))
            return fresh("ret_" + name.strip("->"))
        if name == "BTree_split_root":
            self.check(st, "before-root-split")
            self.root_split.append(st.guard)
            self.havoc_heap(st, "call BTree_split_root")
            return fresh("ret_split_root")
        if name in ("_max_internal_size", "->accessed", "Py_INCREF", "_Py_INCREF", "Py_DECREF", "_Py_DECREF", "Py_XDECREF", "Py_TYPE",
                    "_Py_IsImmortal", "_Py_Dealloc", "_Py_NewRef", "PyErr_Occurred"):
            return fresh("ret_" + name.strip("->"))
        if name == "memmove":
            cnt = self.count_of(n["inner"][3], st)
            dst, src = args[0], args[1]
            base, size = self.hread(st, "data", S), self.hread(st, "size", S)
            self.oblige(st, "F-SPLIT:BTree_grow:memmove:source-in-bounds", z3.And(cnt >= 0, src >= base, src + cnt <= base + size))
            self.oblige(st, "F-SPLIT:BTree_grow:memmove:destination-in-bounds", z3.And(dst >= base, dst + cnt <= base + size))
            self.shift(st, dst, src, cnt)
            return dst
        raise Unsupported("BTree_grow calls %s" % name)

    def item(self, st, j):
        d = self.hread(st, "data", self.S)
        return z3.Select(st.heap.get("child", H0("child")), d + j), z3.Select(st.heap.get("key", H0("key")), d + j)

    def item0(self, j):
        d = self.old["data"]
        return z3.Select(H0("child"), d + j), z3.Select(H0("key"), d + j)

    def check(self, st, where, v=None):
        from .fleaf import norm
        S, o, idx = self.S, self.old, self.IDX
        j0 = fresh("j0")
        lenp, sizep = self.hread(st, "len", S), self.hread(st, "size", S)
        (c_new, k_new), (c_old, k_old) = self.item(st, j0), self.item0(j0)
        (c_up, k_up), (c_dn, k_dn) = self.item(st, j0 + 1), self.item0(j0)
        ok = z3.BoolVal(True) if v is None else v == 0
        grew = z3.And(ok, o["len"] > 0)
        G = {}
        G["ok:length"] = z3.Implies(grew, z3.And(lenp == o["len"] + 1, lenp <= sizep))
        G["ok:items_below"] = z3.Implies(z3.And(grew, 0 <= j0, j0 <= idx), z3.And(c_new == c_old, k_new == k_old))
        G["ok:items_above"] = z3.Implies(z3.And(grew, idx < j0, j0 < o["len"]), z3.And(c_up == c_dn, k_up == k_dn))
        if self.e is not None:
            c_ins, k_ins = self.item(st, idx + 1)
            G["ok:new_sibling_after_the_child"] = z3.Implies(grew, z3.And(self.e != 0, c_ins == self.e))
        G["ok:first_bucket_kept"] = z3.Implies(grew, self.hread(st, "firstbucket", S) == o["firstbucket"])
        for nm, g in G.items():
            self.oblige(st, "F-SPLIT:BTree_grow:%s%s" % (nm, "" if v is not None else "@" + where), norm(g))

    def on_return(self, st, v):
        from .fleaf import norm
        if v is None:
            raise Unsupported("BTree_grow returns no value")
        S, o = self.S, self.old
        rs = z3.Or(*self.root_split) if self.root_split else z3.BoolVal(False)
        # paths through BTree_split_root were checked at that call; the rest here
        st2 = st.clone()
        st2.guard = z3.simplify(z3.And(st.guard, z3.Not(rs)))
        self.check(st2, "return", v)
        j0 = fresh("j0")
        (c_new, k_new), (c_old, k_old) = self.item(st, j0), self.item0(j0)
        bucket = getattr(self, "bucket", None)
        if bucket is not None:
            c0, _ = self.item(st, z3.IntVal(0))
            self.oblige(st2, "F-SPLIT:BTree_grow:empty:first_leaf", norm(z3.Implies(z3.And(v == 0, o["len"] == 0), z3.And(
                self.hread(st, "len", S) == 1, bucket != 0, c0 == bucket, self.hread(st, "firstbucket", S) == bucket))))
        self.oblige(st2, "F-SPLIT:BTree_grow:fail:unchanged", norm(z3.Implies(v == -1, z3.And(
            self.hread(st, "len", S) == o["len"], self.hread(st, "firstbucket", S) == o["firstbucket"],
            z3.Implies(z3.And(0 <= j0, j0 < o["len"]), z3.And(c_new == c_old, k_new == k_old))))))
        self.oblige(st2, "F-SPLIT:BTree_grow:result-domain", z3.Or(v == 0, v == -1))



class FSplitAny(CExec):
    """Dispatch: one analysis id, two functions."""
    family = "F-SPLIT"
    ASSUMES = [
        "F-SPLIT: BTree_Malloc / BTree_Realloc return NULL or a block overlapping no live vector (realloc: holding the old "
        "contents); memcpy / memmove exact; PyObject_CallObject returns NULL or a NEW empty node that is neither self nor a child",
        "F-SPLIT: activating an object (setstate) may change any field of THAT object and nothing else; Py_TYPE is a function of "
        "the object; a node is not its own child (A6b); PER_CHANGED / Py_INCREF / PyErr_* / _max_internal_size do not touch the "
        "fields read",
        "F-SPLIT: bucket_split: index out of range or > 0 (its one caller passes -1: checked in the AST); BTree_grow: 0 <= index "
        "< len, len <= size; BTree_split / bucket_split / BTree_grow as callees change the child and the new sibling only"]

    @classmethod
    def applies(cls, tu, fn):
        return fn in ("bucket_split", "BTree_split", "BTree_split_root", "BTree_grow")

    def __new__(cls, tu, fname):
        return {"bucket_split": FSplit, "BTree_split": FSplitTree, "BTree_split_root": FSplitRoot, "BTree_grow": FGrow}[fname](tu, fname)


ANALYSIS = {"F-SPLIT": FSplitAny}
