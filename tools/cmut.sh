#!/bin/bash
# cmut.sh <seeded-id> <family> <analysis> [functions...] : run one Engine-C analysis against a seeded change
id=$1; fam=$2; kind=$3; shift 3
WT=/tmp/cmut-$id-$$
git -C /repo worktree add --detach $WT HEAD >/dev/null 2>&1 || exit 1
(cd $WT && git apply /verif/seeded/$id/patch.diff) || { echo "patch does not apply"; git -C /repo worktree remove --force $WT; exit 1; }
cd /verif
VERIF_REPO=$WT .venv/bin/python -m cvc.run $fam $kind "$@" 2>&1 | grep -v "^  File\|^    " | cut -c1-260 | tail -8
git -C /repo worktree remove --force $WT >/dev/null 2>&1
