"""Bounded stand-in for C11: multiunion.

Oracle (property C11, /verif/properties.jsonl): "multiunion returns the sorted,
duplicate-free union of all its inputs - integers, sets, the keys of mappings,
arbitrary iterables of integers - for every integer-keyed family (signed and
unsigned, 32 and 64 bit), for any number and size of inputs and any key values
in the family's range including both extremes; the result behaves as a normal
Set (membership and range queries work)."

A case is one call multiunion([operand, ...]); the expected keys are
sorted(set(all keys handed in)), computed with Python ints.  The operands are
generated (seeded) from: a key profile (which part of the family's range the
keys come from), a gathered size (number of keys handed in, counted with
duplicates - the C code switches from quicksort to radix sort above 800), a
duplicate mode and a partition of the keys into operands of random kinds.
"""
import argparse
import concurrent.futures as cf
import random

from lib.common import Standin, Failure, write_standin
from rtc import harness as H

KINDS = ("int", "Set", "TreeSet", "Bucket", "BTree", "list", "tuple", "gen", "pyset")
SIZES_QUICK = (0, 1, 9, 799, 800, 801, 1300, 2600)
PARTS = ("shuffled", "runs", "runs-touch")     # random membership / ascending disjoint runs / runs sharing their boundary key


def profiles(fam):
    """name -> function(rng, n) -> n distinct keys of the family's range."""
    lo, hi = H.extremes(fam)
    bits = 32 if fam[0] in "IU" else 64
    top = 1 << (bits - 1)                        # unsigned: first key with the top bit set
    mid = 0 if lo < 0 else top                   # where the top bit flips
    def span(a, b):                              # n distinct random keys in [a, b]
        return lambda rng, n: rng.sample(range(a, b + 1), n) if b - a < 10 ** 7 else \
            list({rng.randint(a, b) for _ in range(2 * n)})[:n]
    p = {
        "dense": lambda rng, n: list(range(mid - n // 2, mid - n // 2 + n)) if lo < 0 else list(range(n)),
        "spread16": span(max(lo, 1000), 1000 + 2 ** 16),
        "spread24": span(0, 2 ** 24),            # 3 differing bytes
        "full": span(lo, hi),
        "extremes": lambda rng, n: [lo + i for i in range((n + 1) // 2)] + [hi - i for i in range(n // 2)],
        "topbit": span(lo, -1) if lo < 0 else span(top, hi),       # every key has the top bit set
        "topmix": lambda rng, n: list(range(mid - n // 2, mid - n // 2 + n)),   # straddles the top-bit flip
    }
    if bits == 64:
        p["spread40"] = span(-2 ** 39 if lo < 0 else 0, 2 ** 39 if lo < 0 else 2 ** 40)   # 5 differing bytes
    return p


def make_case(rng, prof, size, dup, part):
    """-> list of (kind, [keys]); the keys of all operands together number `size` (before the
    BTrees operands drop their own duplicates)."""
    ndist = size if not dup else max(1, size * 2 // 3) if size else 0
    keys = prof(rng, ndist)
    pool = keys + [rng.choice(keys) for _ in range(size - len(keys))] if keys else []
    if part == "shuffled":
        rng.shuffle(pool)
    else:
        pool.sort()
    nops = rng.randint(1, 12) if pool else rng.randint(0, 3)
    cuts = sorted(rng.randint(0, len(pool)) for _ in range(nops - 1))
    chunks = [pool[a:b] for a, b in zip([0] + cuts, cuts + [len(pool)])] if nops else []
    if part == "runs-touch":
        for prev, c in zip(chunks, chunks[1:]):
            if prev and c:
                c[0] = prev[-1]                  # this run starts with the last key of the run before
    ops = []
    for c in chunks:
        kind = rng.choice(KINDS)
        if kind == "int" and len(c) != 1:
            kind = "list"
        if kind not in ("int", "Set", "TreeSet", "Bucket", "BTree", "pyset") and rng.random() < 0.5:
            rng.shuffle(c)                       # plain iterables need not be sorted
        ops.append((kind, c))
    return ops


def realise(cls, val, kind, keys):
    if kind == "int":
        return keys[0]
    if kind in ("Set", "TreeSet"):
        return cls[kind](keys)
    if kind in ("Bucket", "BTree"):
        return cls[kind]({k: val for k in keys})
    return {"list": list, "tuple": tuple, "gen": iter, "pyset": set}[kind](keys)


def check(res, setcls, exp, rng, lo, hi):
    """-> None | (clause, message).  exp = sorted(set(all input keys))."""
    if type(res) is not setcls:
        return "kind", "result is a %s, not the family's Set" % type(res).__name__
    ks = list(res)
    if ks != exp:
        clause = "dupfree" if len(set(ks)) != len(ks) else "sorted" if ks != sorted(ks) else "keys"
        i = next((i for i, (a, b) in enumerate(zip(ks, exp)) if a != b), min(len(ks), len(exp)))
        return clause, "%d keys, expected %d; first difference at index %d: %r vs %r" % (
            len(ks), len(exp), i, ks[i:i + 3], exp[i:i + 3])
    if len(res) != len(exp):
        return "len", "len() is %d, %d keys" % (len(res), len(exp))
    # behaves as a normal Set: membership, range queries, extremes, add
    es = set(exp)
    probes = [lo, hi] + ([exp[0], exp[-1], exp[len(exp) // 2]] if exp else []) + \
        [rng.choice(exp) for _ in range(8) if exp] + [rng.randint(lo, hi) for _ in range(6)] + \
        [k + d for k in exp[:2] + exp[-2:] for d in (-1, 1) if lo <= k + d <= hi]
    for k in probes:
        if (k in res) != (k in es):
            return "member", "%r in result is %r" % (k, k in res)
    for _ in range(4):
        a, b = sorted((rng.choice(probes), rng.choice(probes)))
        if list(res.keys(a, b)) != [k for k in exp if a <= k <= b]:
            return "range", "keys(%r, %r) returned %d keys, expected %d" % (
                a, b, len(res.keys(a, b)), len([k for k in exp if a <= k <= b]))
    if exp and (res.minKey() != exp[0] or res.maxKey() != exp[-1]):
        return "range", "minKey/maxKey %r/%r, expected %r/%r" % (res.minKey(), res.maxKey(), exp[0], exp[-1])
    new = next((k for k in probes if k not in es), None)
    if new is not None:
        res.add(new)
        if list(res) != sorted(es | {new}):
            return "add", "after add(%r) the result is not the sorted union plus that key" % (new,)
    return None


def run_config(args):
    fam, impl, seed, quick = args
    m = H.family_module(fam)
    cls = {k: H.get_class(fam, k, impl, 8, 4) for k in ("Set", "TreeSet", "Bucket", "BTree")}
    mu = getattr(m, "multiunionPy" if impl == "py" else "multiunion")
    if impl == "c" and mu is getattr(m, "multiunionPy"):
        raise RuntimeError("C extension for %s not built" % fam)
    val = H.values_of(fam)[0]
    lo, hi = H.extremes(fam)
    rng = random.Random("%s-%s-%s" % (seed, fam, impl))
    evals, sigs, fails, sample = 0, set(), {}, None
    sizes = SIZES_QUICK if quick else SIZES_QUICK + (2, 100, 802, 5000, 20000)
    for pname, prof in profiles(fam).items():
        for size in sizes:
            for dup in (False, True):
                for part in PARTS:
                    for rep in range(1 if quick else 4):
                        ops = make_case(rng, prof, size, dup and size > 1, part)
                        real = [realise(cls, val, k, c) for k, c in ops]
                        gathered = sum(1 if k == "int" else len(c) if k in ("list", "tuple", "gen") else len(set(c))
                                       for k, c in ops)
                        exp = sorted({x for _, c in ops for x in c})
                        evals += 1
                        try:
                            res = mu(real)
                            bad = check(res, cls["Set"], exp, rng, lo, hi)
                        except Exception as e:
                            bad = ("raised", "raised %s: %s" % (type(e).__name__, e))
                        if sum(1 for _, c in ops if c) >= 2:
                            sigs.add((pname, dup, part, tuple((k, len(c)) for k, c in ops)))
                            if sample is None and 800 < gathered < 1400 and pname == "full":
                                sample = {"family": fam, "impl": impl, "profile": pname, "gathered": gathered,
                                          "operands": ["%s[%d keys]" % (k, len(c)) for k, c in ops],
                                          "result": "%d keys %r .. %r" % (len(exp), exp[0], exp[-1])}
                        if bad:
                            key = "multiunion:%s:%s:%s:%s:%s" % (impl, fam[0], bad[0], "gt800" if gathered > 800 else "le800", pname)
                            if key in fails:
                                fails[key][1] += 1
                                continue
                            sfx = "Py" if impl == "py" else ""
                            script = ("from BTrees.%sBTree import %s\nS, T, B, R = %s\nT.max_leaf_size = R.max_leaf_size = 8; "
                                      "T.max_internal_size = R.max_internal_size = 4\nops = [%s]\nres = list(mu(ops))\n"
                                      "exp = %r\nprint(res == exp, len(res), len(exp))\n" % (
                                          fam, ", ".join(["multiunion%s as mu" % sfx] + ["%s%s%s" % (fam, k, sfx) for k in cls]),
                                          ", ".join("%s%s%s" % (fam, k, sfx) for k in ("Set", "TreeSet", "Bucket", "BTree")),
                                          ", ".join({"int": "%s", "Set": "S(%s)", "TreeSet": "T(%s)", "Bucket": "B(dict.fromkeys(%s, " + repr(val) + "))",
                                                     "BTree": "R(dict.fromkeys(%s, " + repr(val) + "))", "list": "%s", "tuple": "tuple(%s)",
                                                     "gen": "iter(%s)", "pyset": "set(%s)"}[k] % (c[0] if k == "int" else c,) for k, c in ops),
                                          exp))
                            fails[key] = [Failure(
                                key=key, desc="%s %s multiunion of %d operands (%s), %d keys gathered, profile %s, %s%s: %s" % (
                                    fam, impl, len(ops), " ".join("%s:%d" % (k, len(c)) for k, c in ops), gathered, pname, part,
                                    ", duplicates" if dup else "", bad[1]),
                                repro={"family": fam, "impl": impl, "profile": pname, "partition": part, "gathered": gathered,
                                       "operands": [[k, c] for k, c in ops]},
                                script=script), 1]
    return evals, len(sigs), [(f, n) for f, n in fails.values()], sample


def main():
    ap = argparse.ArgumentParser()
    ap.add_argument("--out")
    a = ap.parse_args()
    quick = H.tier() == "quick"
    fams = [f for f in H.fams() if f[0] in "IULQ"]
    s = Standin(
        name="multiunion_rt",
        bound="per integer-key family (%s) and implementation: key profiles {dense, spread over 2/3/(5) bytes, full range, "
              "both extremes, all-top-bit, straddling the top-bit flip} x gathered sizes %s x {duplicate-free, with "
              "duplicates} x partitions {shuffled, ascending runs, runs sharing their boundary key} into 0..12 operands of "
              "random kind among %s (trees at node sizes 8/4), seeded" % (
                  ",".join(fams), list(SIZES_QUICK if quick else SIZES_QUICK + (2, 100, 802, 5000, 20000)), "/".join(KINDS)),
        rule="case = one multiunion call and its contract (kind, keys == sorted(set(inputs)), len, membership probes incl. "
             "extremes and neighbours, 4 range queries, minKey/maxKey, add of a new key); distinct non-trivial = distinct "
             "(profile, duplicate mode, partition, operand kinds and sizes) with >= 2 non-empty operands",
        exhaustive=False,
        functions=["multiunion_m", "sort_int_nodups", "quicksort", "radixsort_int", "uniq", "bucket_append",
                   "_base.multiunion (run-time)"])
    jobs = [(fam, impl, H.seed(), quick) for impl in ("py", "c") for fam in fams]
    merged = {}
    with cf.ProcessPoolExecutor(max_workers=min(16, len(jobs) or 1)) as ex:
        for (fam, impl, _, _), (ev, nd, fails, sample) in zip(jobs, ex.map(run_config, jobs)):
            s.evaluations += ev
            s.distinct_nontrivial += nd
            if sample and fam == fams[-1]:           # one measured case per implementation
                s.samples.append(sample)
            for f, n in fails:
                merged.setdefault(f.key, (f, []))[1].append("%s: %d cases" % (fam, n))
    for f, where in merged.values():
        f.desc += "  [" + ", ".join(where) + "]"
        s.failures.append(f)
    write_standin(a.out, s)


if __name__ == "__main__":
    main()
