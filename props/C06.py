"""C06 - serialized state round-trips, identically in C and Python."""
from props import _generic as g


def run(ctx):
    fns = g.run_pyvc(ctx, "C06")
    res = ctx.cvc(["II", "IO", "OO"] if ctx.tier == "quick" else ["II", "IO", "OO", "LF", "QQ", "OI"], ["F-STATE"], functions=["bucket_getstate", "BTree_getstate"])
    res2 = ctx.cvc(["OO"], ["F-STATE"], functions=["_bucket_setstate", "_set_setstate"])
    from lib import replay
    replay.replay_fstate(ctx, res)
    replay.replay_fstate(ctx, res2)
    ctx.standin("pickle_rt", families=tuple("OO,II,LF,fs".split(",")))
    return "other", (
        "Engine P: the state functions of the pure-Python implementation are under contract (%d targets: %s): "
        "__getstate__ emits the documented tuple (interleaved keys/values resp. keys, successor link iff present), "
        "__setstate__ reads it back (TypeError exactly for a non-tuple first element), and the round trip "
        "x.__setstate__(y.__getstate__()) restores the ordered contents and the link (lemma programs over the "
        "contracts; sortedness is carried over). State items are a union sort; every use of an item as key/value/child "
        "carries its own typing obligation. Engine C, F-STATE: the C bucket_getstate from its real body (both loops cut at "
        "invariants) emits exactly the documented tuple for every length and content: 2*len resp. len items, item 2j the object of "
        "keys[j] and item 2j+1 the object of values[j] (resp. item j the object of keys[j]), (items, next) iff there is a successor, "
        "every PyTuple_SET_ITEM inside the tuple; BTree_getstate likewise (None for an empty tree; the ONLY child embedded as ((leafstate,),) "
        "exactly when it is a leaf without an oid of its own; otherwise (items, firstbucket) with the children and the objects of the "
        "separators interleaved; no NULL stored - found and fixed: 5b9672e); _bucket_setstate of the object-keyed unit reads that tuple back (len' == len(items)/2, "
        "entry j is (items[2j], items[2j+1]), the successor is taken over, every item read inside the tuple, vectors only grown) - "
        "together the C round trip of a leaf; the integer units' conversions inside setstate are F-CONV's sites (C13). "
        "pickle/copy, byte identity between C and Python, set / tree state code of the C side are outside both engines: "
        "bounded stand-in pickle_rt." % (len(fns), ", ".join(fns)))
