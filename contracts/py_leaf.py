"""Sidecar contracts for the leaf layer of /repo/src/BTrees/_base.py
(_BucketBase, Bucket, Set).  Clause text is Python expression syntax, see
pyvc/spec.py.  Postconditions are taken from the property statements
(properties.jsonl), shapes and frames from the code (DESIGN.md 5.2, 5.3)."""
from pyvc.spec import Contract

WF_KEYS = "sorted_strict(self._keys)"
WF_BUCKET = {
    "sorted": WF_KEYS,
    "paired": "len(self._values) == len(self._keys)",
}
WF_SET = {"sorted": WF_KEYS}

SEARCH_ENS = {
    "found": "implies(result >= 0, result < len(self._keys) and self._keys[result] == key)",
    "absent_range": "implies(result < 0, 0 <= -result - 1 and -result - 1 <= len(self._keys))",
    "absent_left": "implies(result < 0, forall(0, -result - 1, lambda j: self._keys[j] < key))",
    "absent_right": "implies(result < 0, forall(-result - 1, len(self._keys), lambda j: key < self._keys[j]))",
}

CONTRACTS = []


def C(*a, **k):
    c = Contract(*a, **k)
    CONTRACTS.append(c)
    return c


for cls in ("Bucket", "Set"):
    pass

# The leaf search: same body for Bucket and Set (defined on _BucketBase); it
# is verified once with the receiver's class left symbolic.
C("_BucketBase._search", cls=None, params={"key": "K"},
  requires={"sorted": WF_KEYS},
  returns="int", ensures=SEARCH_ENS, modifies=[],
  loops=[{
      "inv": {
          "alias": "keys is self._keys",
          "bounds": "0 <= low and low <= high and high <= len(keys)",
          "left": "forall(0, low, lambda j: keys[j] < key)",
          "right": "forall(high, len(keys), lambda j: key < keys[j])",
      },
      "dec": "high - low",
  }],
  props=["C01", "C02", "C09"])
