"""Contracts for weightedUnion / weightedIntersection of _base.py (C12).

Scope: numeric-valued families (the only ones that export these functions,
_module_builder._create_set_operations): `numeric(o1)`.  Values live in the
family's value type, whose `*`, `+` are uninterpreted (vmul, vadd; vadd is
commutative), so a clause about values IS the documented formula
v1*w1 + v2*w2 - also for floats.  A set member counts one() (the family's
multiplication identity, checked against _datatypes by attached:*).

vlookup(keys, values, k) is the value paired with key k in two parallel
sequences; its definition (ghost lemma_instances vlookup_def) is conservative
because operand key sequences are strictly ascending.
"""
from pyvc.spec import Contract
from contracts.py_setop import cur, seen, allkeys, CUR_MOD, SORTED_IN, LEMMA_INST, FRONTIER, BOTH

CONTRACTS = []


def C(*a, **k):
    c = Contract(*a, **k)
    CONTRACTS.append(c)
    return c


OPERAND = ["none", "any"]
WPARAMS = {"set_type": "cls:Set", "o1": OPERAND, "o2": OPERAND, "w1": "V", "w2": "V"}
K1 = "prefix_elems(keyseq(o1), len(keyseq(o1)))"
K2 = "prefix_elems(keyseq(o2), len(keyseq(o2)))"
MERGING = "(has_values(o1) or has_values(o2))"


def val(o):
    """value an operand contributes for key k: its stored value, or one() for a set member"""
    return "(vlookup(keyseq(%(o)s), valseq(%(o)s), k) if has_values(%(o)s) else one())" % {"o": o}


# documented formula, in terms of the ORIGINAL operands and weights
W_BOTH = "(%s * old(w1) + %s * old(w2))" % (val("o1"), val("o2"))
W_ONLY1 = "(%s * old(w1))" % val("o1")
W_ONLY2 = "(%s * old(w2))" % val("o2")
UNION_VALUE = ("(" + W_BOTH + " if (mem(" + K1 + ", k) and mem(" + K2 + ", k)) else "
               "(" + W_ONLY1 + " if mem(" + K1 + ", k) else " + W_ONLY2 + "))")

# the same in terms of the cursors (which may have been swapped together with the weights)
def ival(i):
    return "(vlookup(it_seq(%(i)s._iter), it_vals(%(i)s._iter), k) if %(i)s.useValues else one())" % {"i": i}


KA = allkeys("i1")
KB = allkeys("i2")
I_BOTH = "(%s * w1 + %s * w2)" % (ival("i1"), ival("i2"))
I_UNION_VALUE = ("(" + I_BOTH + " if (mem(" + KA + ", k) and mem(" + KB + ", k)) else "
                 "((" + ival("i1") + " * w1) if mem(" + KA + ", k) else (" + ival("i2") + " * w2)))")

SWAP = ("((it_seq(i1._iter) is keyseq(o1) and it_vals(i1._iter) is valseq(o1) and it_seq(i2._iter) is keyseq(o2) and "
        "it_vals(i2._iter) is valseq(o2) and w1 == old(w1) and w2 == old(w2) and "
        "i1.useValues == has_values(o1) and i2.useValues == has_values(o2)) or "
        "(it_seq(i1._iter) is keyseq(o2) and it_vals(i1._iter) is valseq(o2) and it_seq(i2._iter) is keyseq(o1) and "
        "it_vals(i2._iter) is valseq(o1) and w1 == old(w2) and w2 == old(w1) and "
        "i1.useValues == has_values(o2) and i2.useValues == has_values(o1) and i1.useValues and not i2.useValues))")


def wloop(content, value_of_k, extra=None):
    inv = {
        "cursors": cur("i1") + " and " + cur("i2"),
        "defaults": "implies(not i1.useValues, i1.value == one()) and implies(not i2.useValues, i2.value == one())",
        "distinct": "i1 is not i2 and i1._iter is not i2._iter and fresh(result) and fresh(result._keys) and "
                    "fresh(i1) and fresh(i2) and fresh(i1._iter) and fresh(i2._iter) and "
                    "result._keys is not it_seq(i1._iter) and result._keys is not it_seq(i2._iter)",
        "sources": SWAP,
        "merging": "_merging == (i1.useValues or i2.useValues) and _merging == " + MERGING,
        "kind": "is_cls(result, 'Bucket') if _merging else is_cls(result, 'Set')",
        "own_values": "implies(_merging, fresh(result._values) and result._values is not result._keys and "
                      "result._values is not it_vals(i1._iter) and result._values is not it_vals(i2._iter) and "
                      "result._values is not it_seq(i1._iter) and result._values is not it_seq(i2._iter))",
        "sorted": "sorted_strict(result._keys)",
        "below1": "implies(i1.active, forall(0, len(result._keys), lambda r: result._keys[r] < i1.key))",
        "below2": "implies(i2.active, forall(0, len(result._keys), lambda r: result._keys[r] < i2.key))",
        "content": "set_eq(elems(result._keys), " + content + ")",
        "paired": "implies(_merging, len(result._values) == len(result._keys))",
        "values": "implies(_merging, forall(0, len(result._keys), lambda r: result._values[r] == "
                  + value_of_k.replace("k)", "result._keys[r])").replace(" k ", " result._keys[r] ") + "))",
    }
    inv.update(FRONTIER)
    if extra:
        inv.update(extra)
    return {"inv": inv, "modifies": CUR_MOD + ["list:result._keys", "freshlist:result._values"],
            "dec": "(len(it_seq(i1._iter)) - i1.position if i1.active else 0) + "
                   "(len(it_seq(i2._iter)) - i2.position if i2.active else 0) + "
                   "(1 if i1.active else 0) + (1 if i2.active else 0)"}


VDEFS = {"vdef_o1": "implies(o1 is not None, vlookup_def(keyseq(o1), valseq(o1)))",
         "vdef_o2": "implies(o2 is not None, vlookup_def(keyseq(o2), valseq(o2)))"}
NONE_RULES = {
    "both_none": "implies(o1 is None and o2 is None, result[0] == 0 and result[1] is None)",
    "first_none": "implies(o1 is None and o2 is not None, result[0] == w2 and result[1] is o2)",
    "second_none": "implies(o1 is not None and o2 is None, result[0] == w1 and result[1] is o1)",
}
RET = [("tuple", ["int", "none"]), ("tuple", ["V", "any"]), ("tuple", ["int", "ref"]), ("tuple", ["V", "ref"])]


def subst_k(text, repl):
    return text.replace("k)", repl + ")").replace(" k ", " " + repl + " ")


UNION_ENS = dict(NONE_RULES, **{
    "weight": "implies(" + BOTH + ", result[0] == 1)",
    "new_container": "implies(" + BOTH + ", fresh(result[1]) and fresh(result[1]._keys))",
    "kind": "implies(" + BOTH + ", is_cls(result[1], 'Bucket') if " + MERGING + " else is_cls(result[1], 'Set'))",
    "sorted_duplicate_free": "implies(" + BOTH + ", sorted_strict(result[1]._keys))",
    "keys_are_the_union": "implies(" + BOTH + ", set_eq(elems(result[1]._keys), sunion(" + K1 + ", " + K2 + ")))",
    "paired": "implies(" + BOTH + " and " + MERGING + ", len(result[1]._values) == len(result[1]._keys))",
    "values_follow_the_formula": "implies(" + BOTH + " and " + MERGING + ", forall(0, len(result[1]._keys), lambda r: "
                                 "result[1]._values[r] == " + subst_k(UNION_VALUE, "result[1]._keys[r]") + "))",
})

C("weightedUnion", params=WPARAMS,
  requires=dict(SORTED_IN, numeric_family="implies(o1 is not None, numeric(o1))"),
  returns=RET, ensures=UNION_ENS, raises={},
  modifies=[], ghost={"allocates": True, "lemma_instances": dict(LEMMA_INST, **VDEFS)},
  loops=[wloop("sunion(" + seen("i1") + ", " + seen("i2") + ")", UNION_VALUE),
         wloop("sunion(" + seen("i1") + ", " + seen("i2") + ")", UNION_VALUE, {"other_done": "implies(i1.active, not i2.active)"}),
         wloop("sunion(" + seen("i1") + ", " + seen("i2") + ")", UNION_VALUE, {"other_done": "not i1.active"})],
  props=["C12", "C09"])

INTER_ENS = dict(NONE_RULES, **{
    "weight": "implies(" + BOTH + ", (result[0] == 1) if " + MERGING + " else (result[0] == w1 + w2))",
    "new_container": "implies(" + BOTH + ", fresh(result[1]) and fresh(result[1]._keys))",
    "kind": "implies(" + BOTH + ", is_cls(result[1], 'Bucket') if " + MERGING + " else is_cls(result[1], 'Set'))",
    "sorted_duplicate_free": "implies(" + BOTH + ", sorted_strict(result[1]._keys))",
    "keys_are_the_intersection": "implies(" + BOTH + ", set_eq(elems(result[1]._keys), sinter(" + K1 + ", " + K2 + ")))",
    "paired": "implies(" + BOTH + " and " + MERGING + ", len(result[1]._values) == len(result[1]._keys))",
    "values_follow_the_formula": "implies(" + BOTH + " and " + MERGING + ", forall(0, len(result[1]._keys), lambda r: "
                                 "result[1]._values[r] == " + subst_k(W_BOTH, "result[1]._keys[r]") + "))",
})
C("weightedIntersection", params=WPARAMS,
  requires=dict(SORTED_IN, numeric_family="implies(o1 is not None, numeric(o1))"),
  returns=RET, ensures=INTER_ENS, raises={},
  modifies=[], ghost={"allocates": True, "lemma_instances": dict(LEMMA_INST, **VDEFS)},
  loops=[wloop("sinter(" + seen("i1") + ", " + seen("i2") + ")", W_BOTH)],
  props=["C12", "C09"])
