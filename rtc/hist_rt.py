"""Bounded stand-in shared by C01 (sorted-map behaviour), C03 (structure) and
C09 (C vs Python): drives the real containers through histories of public
calls and evaluates the run-time contract after every call.

  --mode model : every result / exception class / full contents equal the
                 reference sorted map's (C01); a raising single-key call
                 leaves the contents unchanged
  --mode wf    : after every call the independent walker, _check() and
                 BTrees.check.check() accept the container (C03)
  --mode twin  : C and Python driven in lockstep agree on results, contents,
                 shape (__getstate__ structure) and pickles (C09)

Besides the generated histories every configuration runs two scripted
scenario classes (see "Special scenario classes" below): [E] writes with
arguments outside the family's domain offered to an EMPTY container, [S]
in-place set operators whose operand is the container itself.
"""
import argparse
import pickle
import time

from lib.common import Standin, Failure, write_standin
from rtc import harness as H


def state_sig(t):
    """__getstate__ walked recursively, with class names normalised."""
    def rec(x):
        if isinstance(x, tuple):
            return tuple(rec(y) for y in x)
        if hasattr(x, "__getstate__") and type(x).__module__.startswith("BTrees"):
            return (type(x).__name__.replace("Py", ""), rec(x.__getstate__()))
        return x
    return rec(t.__getstate__())


def twin_extras(fam, is_set, is_tree, keys, vals):
    """C09: arguments outside the family's domain and int subclasses, through
    every call that takes a key (reads report absence, writes raise TypeError
    and change nothing - in both implementations)."""
    bad = ["x", 2 ** 70, 1.5, (1,), b"toolong-bytes"]
    if fam[0] != "O":
        bad.append(None)
    sub = [True] if fam[0] in "IULQ" else []
    fill = tuple((("add", k) if is_set else ("setitem", k, vals[0])) for k in keys[:4])
    for b in bad + sub:
        if is_set:
            ops = [("add", b), ("remove", b), ("discard", b), ("contains", b), ("supdate", (b,)), ("isub", (b,))]
        else:
            ops = [("setitem", b, vals[0]), ("delitem", b), ("get", b), ("get", b, vals[1]), ("getitem", b),
                   ("contains", b), ("has_key", b), ("pop", b), ("pop", b, vals[1]), ("setdefault", b, vals[0]),
                   ("update", ((b, vals[0]),))]
            if is_tree:
                ops.append(("insert", b, vals[0]))
            if fam[1] != "O":
                ops += [("setitem", keys[0], "not-a-value"), ("setdefault", keys[-1], None)]
        for op in ops:
            yield (op,)
            yield fill + (op, ("len",))


def typed(x):
    """type-sensitive rendering: True and 1 are different stored keys"""
    if isinstance(x, tuple):
        return tuple(typed(y) for y in x)
    return (type(x).__name__, x)


def run_config(s, fam, kind, impl, sizes, mode, budget):
    is_set = kind in ("Set", "TreeSet")
    is_tree = kind in ("BTree", "TreeSet")
    leaf, internal = sizes if is_tree else (None, None)
    keys = H.keys_of(fam, 6)
    if fam[0] == "O" and mode != "twin":
        keys = [None] + keys[:5]
    else:
        ex = H.extremes(fam)
        keys = keys[:6 - len(ex)] + [e for e in ex if e is not None]
    vals = H.values_of(fam)
    core = H.alphabet(fam, is_set, keys, vals, rich=False, tree=is_tree)
    full = H.alphabet(fam, is_set, keys, vals, rich=True, tree=is_tree)
    cls = H.get_class(fam, kind, impl, leaf, internal)
    twin = H.get_class(fam, kind, "py" if impl == "c" else "c", leaf, internal) if mode == "twin" else None
    from BTrees.check import check as pkg_check
    t0 = time.time()
    shapes = set()
    tag = "%s%s%s" % (fam, kind, "Py" if impl == "py" else "")
    qs = H.tier() == "quick"
    import itertools
    gen = H.histories(core, full, H.seed() * 7919 + hash((fam, kind, impl, sizes)) % 1000,
                      exhaustive_len=3 if qs else 4, n_random=budget, random_len=26)
    if is_tree:
        # deep phase: 10 keys of the family (no extremes needed) reach 4 levels at 2/2
        deep_keys = H.keys_of(fam, 10 if qs else 12)
        gen = itertools.chain(gen, H.deep_histories(is_set, deep_keys, vals))
    if mode == "twin":
        gen = itertools.chain(gen, twin_extras(fam, is_set, is_tree, keys, vals))
    nfail = 0
    for h in gen:
        if nfail >= 6:
            break
        t = cls()
        u = twin() if twin else None
        ref = H.RefMap(is_set)
        for i, op in enumerate(h):
            if mode == "twin":
                r_ref = None          # the twin is the oracle; the reference map is not consulted
            else:
                r_ref = H.apply_ref(ref, op)
            r_imp = H.apply_impl(t, op)
            s.evaluations += 1
            hist = [list(map(repr, o)) for o in h[:i + 1]]
            bad = None
            if mode == "model":
                if not H.same_result(r_imp, r_ref):
                    bad = ("result", "call %r returned %r, reference %r" % (op, r_imp, r_ref))
                else:
                    try:
                        c = H.contents(t, is_set)
                    except Exception as e:
                        c = "iteration raised %s: %s" % (type(e).__name__, e)
                    if c != ref.contents():
                        bad = ("contents", "after %r contents %r, reference %r" % (op, c, ref.contents()))
                    elif len(t) != len(ref.d) or bool(t) != bool(ref.d):
                        bad = ("len", "after %r len/bool %r/%r, reference %r" % (op, len(t), bool(t), len(ref.d)))
            elif mode == "wf":
                try:
                    if is_tree:
                        c, nleaves, height = H.walk(t, is_set, leaf, internal)
                        if c != ref.contents():
                            raise H.Damage("walk yields %r, reference %r" % (c, ref.contents()))
                        t._check()
                        pkg_check(t)
                        shapes.add((nleaves, height, len(c)))
                    else:
                        ks = list(t.keys())
                        if ks != ref.keys():
                            raise H.Damage("leaf keys %r, reference %r" % (ks, ref.keys()))
                except H.Damage as e:
                    bad = ("damage", "after %r: %s" % (op, e))
                except AssertionError as e:
                    bad = ("checker", "after %r a package checker rejected the container: %s" % (op, e))
                except Exception as e:
                    bad = ("walk-error", "after %r inspecting the container raised %s: %s" % (op, type(e).__name__, e))
            elif mode == "twin":
                r_tw = H.apply_impl(u, op)
                if not H.same_result(r_imp, r_tw):
                    oc = lambda r: r[1] if r[0] == "exc" else "ret"
                    bad = ("twin-result", "call %r: %s %r, twin %r" % (op, impl, r_imp, r_tw),
                           "%s/%s" % (oc(r_imp), oc(r_tw)))
                else:
                    a, b = typed(state_sig(t)), typed(state_sig(u))
                    if a != b:
                        bad = ("twin-state", "after %r states differ: %r vs %r" % (op, a, b))
            if bad:
                nfail += 1
                s.failures.append(Failure(
                    key="%s:%s:%s:%s:%s" % (mode, "py" if impl == "py" else "c", kind, bad[0], op[0]) +
                        (":" + bad[2] if len(bad) > 2 else ""),
                    desc="%s sizes=%s: %s" % (tag, sizes, bad[1]),
                    repro={"family": fam, "kind": kind, "impl": impl, "sizes": list(sizes), "history": hist}))
                break
        if is_tree and mode != "wf":
            try:
                shapes.add(H.shape(t, is_set))
            except Exception:
                pass
        elif not is_tree and mode != "twin":
            shapes.add(tuple(ref.keys()))
    s.distinct_nontrivial += len(shapes)
    return time.time() - t0


# --------------------------------------------------------------------------
# Special scenario classes (run in a forked child, H.guarded_cases: a crash or
# a hang of the code under test is the outcome of the case, reported like any
# other failure).
#
#  [E] rejected writes on an EMPTY container.  C01: "a single-key call that
#      raises leaves the contents unchanged"; C03: "no leaf or interior node of
#      a non-empty tree is empty ... _check() succeeds" (so a tree without
#      entries has no node at all: state None, no first leaf); C09: "writes
#      with unusable keys or values raise TypeError and change nothing, in
#      both".  The container is empty because it is fresh, was emptied by
#      clear(), by deleting every key (ascending / descending) or by popping
#      everything; the call offers a key outside the family's key domain with a
#      good value, a good key with a value outside the value domain, or both,
#      through every writing entry point.  After the call the container is
#      observed SAFEST FIRST (bool, len, _check, __getstate__, then iteration),
#      each compared with the reference (an empty sorted map); the first
#      difference is reported and nothing else is called on that container.
#      Only when all agree the history continues (popitem/pop on the empty
#      container, then a good insert, lookups, pop, again empty).
#  [S] in-place set operators with the container itself as operand.  C01
#      names "the in-place set operators" among the calls whose results and
#      contents equal the reference's; the reference is Python's builtin set:
#      s ^= s and s -= s empty it, s &= s and s |= s keep it.
# --------------------------------------------------------------------------
GRAVE = []      # containers that failed an observation stay referenced: deallocation is not a safe observation


class Plain:
    """an object with default comparison: outside the key domain of object-keyed families"""
    def __repr__(self):
        return "Plain()"


def bad_arguments(fam):
    """-> (keys outside the key domain, values outside the value domain)"""
    def of(c, is_key):
        if fam == "fs":
            n = 2 if is_key else 6
            return ["x" * n, b"y" * (n + 1), b"", 7, None]
        if c == "O":
            return [Plain()] if is_key else []
        if c == "F":
            return ["x", None, (1.5,)]
        out = ["x", 2 ** 70, -2 ** 70, 1.5, None, (1,), b"1"]
        if c in "UQ":
            out.append(-1)
        if c in "IU":
            out.append(2 ** 32)
        return out
    return of(fam[0], True), of(fam[1], False)


EMPTY_WAYS = (("fresh", 0), ("clear", 1), ("clear", 5), ("del-asc", 1), ("del-asc", 5), ("del-desc", 5), ("pop-all", 3))


def special_cases(fam, is_set, is_tree):
    keys = H.keys_of(fam, 8)
    vals = H.values_of(fam)
    bk, bv = bad_arguments(fam)
    cases = []
    if is_set:
        args = [(b, None, "bad-key") for b in bk]
        entry = ["add", "sinsert", "supdate", "ior", "ixor", "ctor"]
    else:
        args = ([(b, vals[0], "bad-key") for b in bk] + [(keys[1], b, "bad-value") for b in bv] +
                [(bk[i % len(bk)], bv[i % len(bv)], "bad-both") for i in range(min(2, len(bk), len(bv)))])
        entry = ["setitem", "setdefault", "update", "update_dict", "ctor", "ctor_dict"] + (["insert"] if is_tree else [])
    # argument outermost, entry point innermost: the first few failures of a configuration name different calls
    for i, (k, v, what) in enumerate(args):
        for way, n in EMPTY_WAYS:
            for op in entry:
                if op.startswith("ctor") and way != "fresh":
                    continue            # the constructor makes its own (fresh) container
                cases.append(("E", way, n, op, k, v, what, (i + len(op)) % 2))
    if is_set:
        for n in (0, 1, 2, 3, 5, 8):
            for prep in ("fill", "thinned"):
                if prep == "thinned" and n < 2:
                    continue
                for op in ("ixor", "isub", "iand", "ior"):
                    cases.append(("S", prep, n, op))
        # in-place operators with a plain iterable that REPEATS elements (a list is not a set: the number of
        # elements yielded says nothing about the number of distinct keys).  ^= is left out: it toggles once per
        # element in both implementations (recorded finding of C10).
        for n in (1, 2, 3, 5, 8):
            for shape in ("all-but-one-repeated", "one-key-n-times", "subset-doubled", "superset-doubled"):
                for op in ("isub", "iand", "ior"):
                    cases.append(("D", shape, n, op))
    return cases


class Scenario:
    def __init__(self, cfg, note):
        self.__dict__.update(cfg)
        self.note = note
        self.cls = H.get_class(self.fam, self.kind, self.impl, self.leaf, self.internal)
        self.twin = (H.get_class(self.fam, self.kind, "py" if self.impl == "c" else "c", self.leaf, self.internal)
                     if self.mode == "twin" else None)
        self.t = self.cls()
        self.u = self.twin() if self.twin else None
        self.ref = H.RefMap(self.is_set)
        self.hist = []
        self.evals = 0

    def fail(self, what, text):
        GRAVE.append((self.t, self.u))
        return {"what": what, "text": text, "hist": list(self.hist)}

    def apply(self, t, op):
        name = op[0]
        try:
            if name == "update_dict":
                t.update({op[1]: op[2]})
            elif name == "sinsert":
                t.insert(op[1])
            elif name == "self":
                import operator
                r = getattr(operator, op[1])(t, t)
                return ("ret", "self" if r is t else "other: %r" % (r,))
            elif name == "inplace":
                import operator
                r = getattr(operator, op[1])(t, list(op[2]))
                return ("ret", "self" if r is t else "other: %r" % (r,))
            else:
                return H.apply_impl(t, op)
            return ("ret", H.MARK)
        except Exception as e:
            return ("exc", type(e).__name__)

    # ---- observations, safest first; `want` = the reference contents
    def observe(self, t, want, who=""):
        is_set, is_tree = self.is_set, self.is_tree
        # what each property states about the container (safest observation first in every mode):
        #   model (C01): bool, len, iteration, items equal the reference's
        #   wf    (C03): _check() succeeds, a tree without entries has no node (state None), the independent
        #                walk yields the reference contents, BTrees.check.check() succeeds
        #   twin  (C09): "change nothing" / equal contents and serialized state: all of the cheap ones, on both
        steps = []
        if self.mode != "wf":
            steps += [("bool", lambda: bool(t), bool(want)), ("len", lambda: len(t), len(want))]
        if self.mode != "model":
            if is_tree:
                steps.append(("_check", lambda: t._check(), None))
            if not want:
                steps.append(("getstate", lambda: t.__getstate__(), None if is_tree else ((),)))
        if self.mode != "wf" or not is_tree:
            steps.append(("iter", lambda: list(t), [x if is_set else x[0] for x in want]))
            if not is_set:
                steps.append(("items", lambda: list(t.items()), list(want)))
        if self.mode == "wf" and is_tree:
            steps.append(("walk", lambda: H.walk(t, is_set, self.leaf, self.internal)[0], list(want)))
            from BTrees.check import check as pkg_check
            steps.append(("check.check", lambda: pkg_check(t), None))
        for name, f, exp in steps:
            self.evals += 1
            self.note("%s%s after %s" % (who, name, self.hist[-1] if self.hist else "creation"))
            try:
                got = ("ret", f())
            except Exception as e:
                got = ("exc", "%s: %s" % (type(e).__name__, e))
            if got != ("ret", exp):
                return self.fail(who + name, "%s%s gave %r, the reference %r" % (who, name, got, exp))
        return None

    def step(self, op, want_exc=None):
        """one call on the container (and twin), judged against the reference; -> failure | None"""
        self.hist.append(list(map(repr, op)))
        self.note("call %r" % (op,))
        self.evals += 1
        if want_exc:
            r_ref = ("exc", want_exc)
        elif op[0] in ("update_dict", "sinsert"):
            r_ref = H.apply_ref(self.ref, ("update", ((op[1], op[2]),)) if op[0] == "update_dict" else ("add", op[1]))
        else:
            r_ref = H.apply_ref(self.ref, op)
        r = self.apply(self.t, op)
        if self.mode == "twin":
            r2 = self.apply(self.u, op)
            if not H.same_result(r, r2):
                return self.fail("twin-result", "call %r: %s %r, twin %r" % (op, self.impl, r, r2))
            if want_exc and r != ("exc", want_exc):
                return self.fail("result", "call %r gave %r in both; the statement asks for %s" % (op, r, want_exc))
        elif want_exc:
            if r[0] != "exc":
                return self.fail("accepted", "call %r returned; the argument is outside the family's domain" % (op,))
        elif not H.same_result(r, r_ref):
            return self.fail("result", "call %r returned %r, reference %r" % (op, r, r_ref))
        want = self.ref.contents()
        bad = self.observe(self.t, want)
        if bad is None and self.mode == "twin":
            bad = self.observe(self.u, want, "twin-")
            if bad is None:
                self.evals += 1
                a, b = typed(state_sig(self.t)), typed(state_sig(self.u))
                if a != b:
                    bad = self.fail("twin-state", "after %r states differ: %r vs %r" % (op, a, b))
        return bad


def run_special(case, note, cfg):
    """-> {'evals', 'fail': None | {...}, 'key': the case-specific part of the failure key}"""
    sc = Scenario(cfg, note)
    fam, is_set, is_tree = sc.fam, sc.is_set, sc.is_tree
    keys, vals = H.keys_of(fam, 8), H.values_of(fam)
    ins = (lambda k: ("add", k)) if is_set else (lambda k: ("setitem", k, vals[0]))
    dele = (lambda k: ("remove", k)) if is_set else (lambda k: ("delitem", k))

    def run(ops):
        for op in ops:
            bad = sc.step(op)
            if bad:
                return bad
        return None

    def done(bad, tail, pre=False):
        if bad and pre:
            # the preparation (plain fills / deletions) is the business of the ordinary histories
            tail = "prepare:" + tail
        return {"evals": sc.evals, "fail": bad, "tail": tail}

    if case[0] == "E":
        _, way, n, op, k, v, what, cont = case
        tail = "%s:%s:%s" % (op, what, way)
        fill = keys[:n]
        prep = [ins(x) for x in fill]
        if way == "clear":
            prep.append(("clear",))
        elif way == "del-asc":
            prep += [dele(x) for x in fill]
        elif way == "del-desc":
            prep += [dele(x) for x in fill[::-1]]
        elif way == "pop-all":
            prep += [("spop",) if is_set else ("popitem",)] * n
        bad = run(prep)
        if bad:
            return done(bad, tail, True)
        if op in ("ctor", "ctor_dict"):
            arg = [k] if is_set else {k: v} if op == "ctor_dict" else [(k, v)]
            sc.hist.append([op, repr(arg)])
            outs = []
            for c in [sc.cls] + ([sc.twin] if sc.twin else []):
                sc.evals += 1
                note("constructor %s(%r)" % (c.__name__, arg))
                try:
                    x = c(arg)
                    GRAVE.append(x)
                    outs.append("ret")
                except Exception as e:
                    outs.append(type(e).__name__)
            if "ret" in outs:
                return done(sc.fail("accepted", "%s(%r) returned; the argument is outside the family's domain (%s)" %
                                    (sc.cls.__name__, arg, outs)), tail)
            if sc.mode == "twin" and set(outs) != {"TypeError"}:
                return done(sc.fail("result", "%s(%r) raised %s; the statement asks for TypeError" %
                                    (sc.cls.__name__, arg, outs)), tail)
            return done(None, tail)
        if op in ("update", "supdate", "ior", "ixor"):
            call = (op, (k,) if is_set else ((k, v),))
        elif is_set:
            call = (op, k)
        else:
            call = (op, k, v)
        bad = sc.step(call, want_exc="TypeError")
        if bad:
            return done(bad, tail)
        # ---- only now the history continues
        k1, k2 = keys[2], keys[0]
        pop = ("spop",) if is_set else ("popitem",)
        if cont == 0:
            ops = [pop, ins(k1), ("contains", k1), ins(k2), pop, pop, ("len",)]
        else:
            ops = [ins(k1), pop, pop, ("bool",)]
        bad = run(ops)
        if bad:
            bad["what"] = "later-" + bad["what"]
            return done(bad, tail + ":" + sc.hist[-1][0].strip("'"))
        bad = sc.step(call, want_exc="TypeError")
        return done(bad, tail)

    if case[0] == "D":
        _, shape, n, op = case
        tail = "%s:%s" % (op, shape)
        fill = keys[:n]
        bad = run([ins(x) for x in fill])
        if bad:
            return done(bad, tail, True)
        outside = keys[n:n + 2] if len(keys) > n else []
        operand = {"all-but-one-repeated": (fill[:-1] + fill[:1]) if n > 1 else [fill[0], fill[0]],
                   "one-key-n-times": [fill[0]] * n,
                   "subset-doubled": fill[::2] * 2,
                   "superset-doubled": (fill + outside) * 2}[shape]
        import operator
        r = set(sc.ref.d)
        r = getattr(operator, op)(r, set(operand))
        sc.ref.d = {x: None for x in r}
        sc.hist.append(["s %s= %r" % ({"isub": "-", "iand": "&", "ior": "|"}[op], operand)])
        note("%s with a list repeating elements (%s) on %d keys" % (op, shape, n))
        sc.evals += 1
        res = sc.apply(sc.t, ("inplace", op, operand))
        if res != ("ret", "self"):
            return done(sc.fail("result", "s %s= %r gave %r; the builtin set returns s itself" % (op, operand, res)), tail)
        if sc.mode == "twin":
            res2 = sc.apply(sc.u, ("inplace", op, operand))
            if res2 != res:
                return done(sc.fail("twin-result", "s %s= list: %s %r, twin %r" % (op, sc.impl, res, res2)), tail)
        want = sc.ref.contents()
        bad = sc.observe(sc.t, want)
        if bad is None and sc.mode == "twin":
            bad = sc.observe(sc.u, want, "twin-")
        return done(bad, tail)

    _, prep, n, op = case
    tail = op
    fill = keys[:n]
    ops = [ins(x) for x in fill]
    if prep == "thinned":
        ops.append(dele(fill[n // 2]))
    bad = run(ops)
    if bad:
        return done(bad, tail, True)
    # the reference is Python's builtin set, driven by the same statement
    import operator
    r = set(sc.ref.d)
    r = getattr(operator, op)(r, r)
    sc.ref.d = {x: None for x in r}
    sc.hist.append(["s %s= s" % {"ixor": "^", "isub": "-", "iand": "&", "ior": "|"}[op]])
    note("self operand %s on %d keys" % (op, len(fill)))
    sc.evals += 1
    res = sc.apply(sc.t, ("self", op))
    if res != ("ret", "self"):
        return done(sc.fail("result", "s %s s with s of %d keys gave %r; the builtin set returns s itself" % (op, n, res)), tail)
    if sc.mode == "twin":
        res2 = sc.apply(sc.u, ("self", op))
        if res2 != res:
            return done(sc.fail("twin-result", "s %s s: %s %r, twin %r" % (op, sc.impl, res, res2)), tail)
    want = sc.ref.contents()
    bad = sc.observe(sc.t, want)
    if bad is None and sc.mode == "twin":
        bad = sc.observe(sc.u, want, "twin-")
        if bad is None and typed(state_sig(sc.t)) != typed(state_sig(sc.u)):
            bad = sc.fail("twin-state", "after s %s s states differ: %r vs %r" % (op, state_sig(sc.t), state_sig(sc.u)))
    if bad:
        return done(bad, tail)
    bad = run([ins(keys[7]), ("contains", keys[0]), ins(keys[0]), dele(keys[7]), ("len",)])
    if bad:
        bad["what"] = "later-" + bad["what"]
    return done(bad, tail)


def run_special_config(s, fam, kind, impl, sizes, mode):
    is_set = kind in ("Set", "TreeSet")
    is_tree = kind in ("BTree", "TreeSet")
    leaf, internal = sizes if is_tree else (None, None)
    cfg = dict(fam=fam, kind=kind, impl=impl, leaf=leaf, internal=internal, mode=mode, is_set=is_set, is_tree=is_tree)
    cases = special_cases(fam, is_set, is_tree)
    tag = "%s%s%s" % (fam, kind, "Py" if impl == "py" else "")
    state = {"fails": 0}

    def fn(case, note):
        r = run_special(case, note, cfg)
        if r["fail"]:
            state["fails"] += 1
            r["stop"] = state["fails"] >= 6
        return r

    def stop(results):
        return sum(1 for r in results if r[0] == "crash" or r[0] == "ok" and r[1]["fail"]) >= 6

    results = H.guarded_cases(fn, cases, timeout=20, stop=stop)
    ran = 0
    for case, r in zip(cases, results):
        scen = {"E": "empty-reject", "D": "repeating-operand"}.get(case[0], "self-operand")
        if r[0] == "skipped":
            continue
        ran += 1
        if r[0] == "crash":
            s.evaluations += 1
            what = "hang" if r[1] == 14 else "crash"
            tail = "%s:%s:%s" % (case[3], case[6], case[1]) if case[0] == "E" else case[3]
            f = {"what": what, "hist": [["case"] + list(map(repr, case))],
                 "text": "the interpreter %s (signal %s) at: %s" % ("hung" if what == "hang" else "crashed", r[1], r[2])}
        else:
            s.evaluations += r[1]["evals"]
            f, tail = r[1]["fail"], r[1]["tail"]
        if f:
            key = "%s:%s:%s:%s:%s:%s" % (mode, "py" if impl == "py" else "c", kind, scen, f["what"], tail)
            if scen == "self-operand" and f["what"] == "twin-state":
                # C09's "equal shape and equal serialized state" after an in-place operator is the very contract
                # of the ordinary histories, whatever the operand is: the same violation keeps the same key
                key = "%s:%s:%s:%s:%s" % (mode, "py" if impl == "py" else "c", kind, f["what"], tail)
            s.failures.append(Failure(
                key=key,
                desc="%s sizes=%s: %s" % (tag, sizes, f["text"]),
                repro={"family": fam, "kind": kind, "impl": impl, "sizes": list(sizes), "case": list(map(repr, case)),
                       "history": f["hist"]}))
    s.distinct_nontrivial += ran
    return ran


# --------------------------------------------------------------------------
#  [B] (twin mode only) bulk writes whose argument holds an UNUSABLE item at a
#      position other than the first.  C09: "For the same history of public
#      calls - with arguments inside or outside a family's domain - the C and
#      the pure-Python implementation ... raise the same class of exception in
#      the same situations, and end with equal contents, equal shape and equal
#      serialized state ... writes with unusable keys or values raise
#      TypeError".  The call is update(pairs) / update(dict) / the constructor
#      from pairs / from a dict (sets: update(seq), |=, ^=, the constructor);
#      its argument holds k usable items (new keys, keys already present with
#      a different value, or both alternating; not in key order), then one
#      item with a key outside the key domain or a value outside the value
#      domain (or, sequences of pairs, an item that is a 1-tuple / 3-tuple:
#      same exception class in both), then (every other case) one more usable
#      item.  The container is
#      fresh or holds 2 / 5 keys (several leaves at the small node sizes).
#      Whatever part of the argument the package applies before it raises, the
#      two implementations must have applied the SAME part: both raise
#      TypeError, contents (type-sensitive) and __getstate__ structure are
#      equal, each container is still sound (independent walk / _check for
#      trees, strictly increasing keys, len, every entry readable through
#      t[k] / k in t and either present before or offered by the call), and a
#      short continuation of the history (insert, len, lookup, delete) agrees.
#      The constructor is observed through a subclass whose __init__ catches
#      the exception (the half-built object is what a subclass sees).
# --------------------------------------------------------------------------
BULK_FILL = (0, 2, 5)
BULK_K = (1, 2, 3, 5)
BULK_STYLES = ("new", "present", "mixed")
_CATCHING = {}


def catching(cls):
    """subclass of cls whose constructor records the outcome of cls.__init__ instead of propagating it"""
    if cls not in _CATCHING:
        class Sub(cls):
            def __init__(self, arg=None):         # interior nodes are made by type(self)() without arguments
                self.outcome = ("ret", None)
                try:
                    if arg is None:
                        cls.__init__(self)
                    else:
                        cls.__init__(self, arg)
                except Exception as e:
                    self.outcome = ("exc", type(e).__name__)
        Sub.__name__ = Sub.__qualname__ = cls.__name__
        Sub.__module__ = cls.__module__
        _CATCHING[cls] = Sub
    return _CATCHING[cls]


def bulk_bad(fam, is_set):
    """-> [(what, unusable key | MARK, unusable value | MARK)]: a representative subset of bad_arguments"""
    bk, bv = bad_arguments(fam)
    pick = lambda xs: [x for i, x in enumerate(xs) if i in (0, 1, 3, 4)]      # str, beyond the range, float, None (ints)
    out = [("bad-key", b, H.MARK) for b in pick(bk)]
    if not is_set:
        out += [("bad-value", H.MARK, b) for b in pick(bv)]
        out += [("bad-shape", H.MARK, 1), ("bad-shape", H.MARK, 3)]     # a 1-tuple / 3-tuple where a pair is due (sequences only)
    return out


def bulk_cases(fam, is_set):
    entry = ["supdate", "ior", "ixor", "ctor"] if is_set else ["update", "update_dict", "ctor", "ctor_dict"]
    cases, i = [], 0
    for what, k_bad, v_bad in bulk_bad(fam, is_set):
        for nfill in BULK_FILL:
            for k in BULK_K:
                for op in entry:
                    if op.startswith("ctor") and nfill:
                        continue                  # the constructor makes its own (fresh) container
                    if what == "bad-shape" and op.endswith("_dict"):
                        continue                  # a dict has pairs only
                    i += 1
                    style = BULK_STYLES[i % 3] if nfill else "new"
                    cases.append(("B", op, what, k_bad, v_bad, nfill, k, style, i % 2))
    return cases


def bulk_argument(fam, is_set, case):
    """-> (prefill keys, usable items before the unusable one, the unusable item, usable items after it)"""
    _, op, what, k_bad, v_bad, nfill, k, style, tail = case
    keys, vals = H.keys_of(fam, 14), H.values_of(fam)
    fill = keys[1:2 * nfill:2]                    # odd keys: new keys fall before, between and after them
    new = [x for x in keys[:12] if x not in fill]
    new = new[1::2] + new[0::2][::-1]             # not in key order
    present = fill[::-1]
    pre = []
    for j in range(k):
        use_present = present and (style == "present" or style == "mixed" and j % 2 == 1)
        key = present[j % len(present)] if use_present and j < len(present) else new.pop(0)
        pre.append(key if is_set else (key, vals[1]))      # the fill stores vals[0]: a present key gets a different value
    badkey = new.pop(0) if k_bad is H.MARK else k_bad
    bad = badkey if is_set else (badkey, vals[0] if v_bad is H.MARK else v_bad)
    if what == "bad-shape":
        bad = (badkey,) if v_bad == 1 else (badkey, vals[0], vals[0])
    post = [keys[13] if is_set else (keys[13], vals[0])] if tail else []
    return fill, pre, bad, post


def bulk_sound(t, is_set, is_tree, leaf, internal, allowed):
    """-> None | text.  allowed: key -> the values it may hold (sets: key -> {None})"""
    try:
        pub = list(t) if is_set else list(t.items())
        if len(t) != len(pub) or bool(t) != bool(pub):
            return "len/bool %r/%r with %d entries" % (len(t), bool(t), len(pub))
        ks = [x if is_set else x[0] for x in pub]
        if any(not a < b for a, b in zip(ks, ks[1:])):
            return "keys not strictly increasing: %r" % (ks,)
        if is_tree:
            t._check()
            c = H.walk(t, is_set, leaf, internal)[0]
            if c != pub:
                return "the independent walk yields %r, iteration %r" % (c, pub)
        for x in pub:
            key, v = (x, None) if is_set else x
            if key not in allowed or v not in allowed[key]:
                return "entry %r was neither present before nor offered by the call" % (x,)
            if key not in t or (not is_set and t[key] != v):
                return "entry %r is listed but not found by lookup" % (x,)
    except H.Damage as e:
        return "damage: %s" % e
    except AssertionError as e:
        return "_check() rejected the container: %s" % e
    except Exception as e:
        return "inspecting the container raised %s: %s" % (type(e).__name__, e)
    return None


def run_bulk(case, note, cfg):
    sc = Scenario(cfg, note)
    fam, is_set, is_tree = sc.fam, sc.is_set, sc.is_tree
    _, op, what, k_bad, v_bad, nfill, k, style, tail = case
    vals = H.values_of(fam)
    fill, pre, bad, post = bulk_argument(fam, is_set, case)
    items = pre + [bad] + post
    arg = dict(items) if op.endswith("_dict") else list(items)
    tailkey = "%s:%s" % (op, what)

    def done(f, pre_=False):
        return {"evals": sc.evals, "fail": f, "tail": ("prepare:" if f and pre_ else "") + tailkey}

    allowed = {}
    for x in fill:
        allowed.setdefault(x, set()).add(None if is_set else vals[0])
    for x in pre + post:
        key, v = (x, None) if is_set else x
        allowed.setdefault(key, set()).add(v)
    if op.startswith("ctor"):
        sc.hist.append([op, repr(arg)])
        note("constructor %s(%r)" % (sc.cls.__name__, arg))
        sc.evals += 1
        sc.t = catching(sc.cls)(arg)
        sc.u = catching(sc.twin)(arg)
        r, r2 = sc.t.outcome, sc.u.outcome
    else:
        for x in fill:
            bad_ = sc.step(("add", x) if is_set else ("setitem", x, vals[0]))
            if bad_:
                return done(bad_, True)
        call = (op, arg) if op == "update_dict" else (op, tuple(items))
        sc.hist.append([op, repr(arg)])
        note("call %s(%r)" % (op, arg))
        sc.evals += 1
        if op == "update_dict":
            r, r2 = [("ret", H.MARK)] * 2
            for who, t in ((0, sc.t), (1, sc.u)):
                try:
                    t.update(dict(arg))
                except Exception as e:
                    if who:
                        r2 = ("exc", type(e).__name__)
                    else:
                        r = ("exc", type(e).__name__)
        else:
            r, r2 = H.apply_impl(sc.t, call), H.apply_impl(sc.u, call)
    oc = lambda x: x[1] if x[0] == "exc" else "ret"
    if oc(r) != oc(r2):
        return done(sc.fail("twin-result", "%s(%r): %s %s, twin %s" % (op, arg, sc.impl, oc(r), oc(r2))))
    if r[0] != "exc":
        return done(sc.fail("accepted", "%s(%r) returned in both; item %d is outside the family's domain" % (op, arg, k)))
    if r[1] != "TypeError" and what != "bad-shape":       # (for a malformed item the statement only asks for the same class)
        return done(sc.fail("result", "%s(%r) raised %s in both; the statement asks for TypeError" % (op, arg, r[1])))
    # ---- both raised TypeError: whatever was applied before, it is the same in both
    sc.evals += 2
    for who, t in ((sc.impl, sc.t), ("twin", sc.u)):
        note("soundness of the %s container after %s" % (who, op))
        txt = bulk_sound(t, is_set, is_tree, sc.leaf, sc.internal, allowed)
        if txt:
            name = who if who != "twin" else ("py" if sc.impl == "c" else "c")
            return done(sc.fail("unsound-" + name, "after the TypeError of %s(%r) the %s container is unsound: %s" %
                                (op, arg, name, txt)))
    sc.evals += 2
    ca, cb = typed(tuple(H.contents(sc.t, is_set))), typed(tuple(H.contents(sc.u, is_set)))
    if ca != cb:
        return done(sc.fail("twin-contents", "after the TypeError of %s(%r) [%d usable items before the unusable one, %d keys "
                            "before the call] contents differ: %s %r, twin %r" %
                            (op, arg, k, nfill, sc.impl, H.contents(sc.t, is_set), H.contents(sc.u, is_set))))
    a, b = typed(state_sig(sc.t)), typed(state_sig(sc.u))
    if a != b:
        return done(sc.fail("twin-state", "after the TypeError of %s(%r) states differ: %r vs %r" % (op, arg, a, b)))
    # ---- the history continues, in lockstep
    k_new, k_old = H.keys_of(fam, 14)[12], (pre[0] if is_set else pre[0][0])
    if is_set:
        ops = [("add", k_new), ("len",), ("contains", k_old), ("discard", k_new), ("add", k_old)]
    else:
        ops = [("setitem", k_new, vals[1]), ("len",), ("get", k_old), ("pop", k_new, None), ("setitem", k_old, vals[0])]
    for o in ops:
        sc.hist.append(list(map(repr, o)))
        note("call %r" % (o,))
        sc.evals += 1
        ra, rb = H.apply_impl(sc.t, o), H.apply_impl(sc.u, o)
        if not H.same_result(ra, rb):
            return done(sc.fail("later-twin-result", "after the TypeError of %s(%r), call %r: %s %r, twin %r" %
                                (op, arg, o, sc.impl, ra, rb)))
    a, b = typed(state_sig(sc.t)), typed(state_sig(sc.u))
    if a != b:
        return done(sc.fail("later-twin-state", "after the TypeError of %s(%r) and %r states differ: %r vs %r" %
                            (op, arg, ops, a, b)))
    return done(None)


def run_bulk_config(s, fam, kind, impl, sizes):
    is_set = kind in ("Set", "TreeSet")
    is_tree = kind in ("BTree", "TreeSet")
    leaf, internal = sizes if is_tree else (None, None)
    cfg = dict(fam=fam, kind=kind, impl=impl, leaf=leaf, internal=internal, mode="twin", is_set=is_set, is_tree=is_tree)
    cases = bulk_cases(fam, is_set)
    tag = "%s%s" % (fam, kind)
    state = {"fails": 0}

    def fn(case, note):
        r = run_bulk(case, note, cfg)
        if r["fail"]:
            state["fails"] += 1
            r["stop"] = state["fails"] >= 6
        return r

    def stop(results):
        return sum(1 for r in results if r[0] == "crash" or r[0] == "ok" and r[1]["fail"]) >= 6

    results = H.guarded_cases(fn, cases, timeout=20, stop=stop)
    ran = 0
    for case, r in zip(cases, results):
        if r[0] == "skipped":
            continue
        ran += 1
        if r[0] == "crash":
            s.evaluations += 1
            what = "hang" if r[1] == 14 else "crash"
            tail = "%s:%s" % (case[1], case[2])
            f = {"what": what, "hist": [["case"] + list(map(repr, case))],
                 "text": "the interpreter %s (signal %s) at: %s" % ("hung" if what == "hang" else "crashed", r[1], r[2])}
        else:
            s.evaluations += r[1]["evals"]
            f, tail = r[1]["fail"], r[1]["tail"]
        if f:
            fill, pre, bad, post = bulk_argument(fam, is_set, case)
            s.failures.append(Failure(
                key="twin:%s:%s:bulk-partial:%s:%s" % ("py" if impl == "py" else "c", kind, f["what"], tail),
                desc="%s vs %sPy sizes=%s: %s" % (tag, tag, sizes, f["text"]),
                repro={"family": fam, "kind": kind, "impl": impl, "sizes": list(sizes), "case": list(map(repr, case)),
                       "prefill": list(map(repr, fill)), "usable_before": list(map(repr, pre)), "unusable": repr(bad),
                       "usable_after": list(map(repr, post)), "history": f["hist"]}))
    s.distinct_nontrivial += ran
    return ran


def main():
    ap = argparse.ArgumentParser()
    ap.add_argument("--out")
    ap.add_argument("--mode", default="model")
    a = ap.parse_args()
    qs = H.tier() == "quick"
    s = Standin(name="hist_rt[%s]" % a.mode,
                bound="every history of <=%d core mutators (set/del or add/remove over 6 keys) + %s seeded histories of "
                      "13..26 calls over the whole public alphabet, per (family, kind, implementation, node sizes); "
                      "node sizes (2,2),(3,2) set on the class" % (3 if qs else 4, "40" if qs else "400") +
                      "; PLUS per configuration, in a forked child (a crash / 20 s hang is the outcome of the case): "
                      "[E] every writing entry point (t[k]=v, setdefault, insert, update(pairs), update(dict), the constructor "
                      "from pairs / dict; sets: add, insert, update, |=, ^=, the constructor) x every argument of a fixed list "
                      "outside the family's domain (bad key + good value, good key + bad value, both; str, int beyond the "
                      "range, negative for unsigned, float, None, tuple, bytes; wrong-length / non-bytes for fs; an object "
                      "with default comparison for object keys) x container empty because fresh / clear() after 1 and 5 keys / "
                      "every key deleted ascending (1, 5 keys) and descending (5) / popped empty (3), observed safest first "
                      "(bool, len, _check, __getstate__, iteration) before the history continues (popitem/pop, insert, "
                      "lookup, pop to empty, the rejected call again); [S] Set and TreeSet: s ^= s, s -= s, s &= s, s |= s "
                      "with 0, 1, 2, 3, 5, 8 keys (plain fill, and fill then one deletion) against Python's builtin set, "
                      "then further adds / removes",
                rule="case = one call of one history (or one observation after it); distinct non-trivial = distinct final "
                     "shapes (leaf count, height, size) reached + the [E]/[S] cases run (distinct (emptying way, entry point, "
                     "argument) / (operator, size, preparation))",
                functions=["_BTree_set", "BTree_grow", "BTree_split", "BTree_split_root", "BTree_deleteNextBucket",
                           "bucket_pop", "BTree_popitem", "set_i*/TreeSet_i*", "_Tree._set/_del/_grow/_split (run-time)"])
    sizes = [(2, 2), (3, 2)] if qs else [(2, 2), (2, 3), (3, 2), (4, 3)]
    impls = ["c", "py"] if a.mode != "twin" else ["c"]
    for fam in H.fams():
        for kind in ("BTree", "TreeSet", "Bucket", "Set"):
            if fam == "fs" and kind in ("TreeSet", "Set") and False:
                continue
            for impl in impls:
                for sz in (sizes if kind in ("BTree", "TreeSet") else [(None, None)]):
                    run_config(s, fam, kind, impl, sz, a.mode, 40 if qs else 400)
                    run_special_config(s, fam, kind, impl, sz, a.mode)
                    if a.mode == "twin":
                        run_bulk_config(s, fam, kind, impl, sz)
    s.samples = [{"family": "OO", "kind": "BTree", "sizes": [2, 2],
                  "history": "setitem(0,'a') setitem(1,'a') setitem(2,'a') delitem(1) ... (each call checked)"},
                 {"family": "II", "kind": "BTree", "sizes": [2, 2], "scenario": "E",
                  "history": "setitem(0,1) .. setitem(4,1) clear() setdefault(1,'x') -> must raise; bool len _check "
                             "__getstate__ list items == empty; popitem() -> KeyError; setitem(2,1) ... (each call checked)"},
                 {"family": "OO", "kind": "TreeSet", "sizes": [2, 2], "scenario": "S",
                  "history": "add(0) .. add(4) remove(2); s ^= s -> s, empty; add(7) contains(0) add(0) remove(7) len"}]
    if a.mode == "twin":
        s.bound += ("; PLUS (twin) [B] bulk writes with an unusable item at a later position: update(pairs), update(dict), the "
                    "constructor from pairs / dict (sets: update(seq), |=, ^=, the constructor; the constructor observed through "
                    "a subclass whose __init__ catches the exception) x unusable key / unusable value (str, int beyond the range, "
                    "float, None; wrong-length / non-bytes for fs; an object with default comparison for object keys; "
                    "pairs: a 1-tuple / 3-tuple item) x k = 1, 2, 3, 5 usable items before it (new keys / keys already present with a different value / alternating, "
                    "not in key order) x container fresh or holding 2 / 5 keys x with / without one more usable item after it; "
                    "after the TypeError of both: equal contents, equal __getstate__ structure, each container sound "
                    "(independent walk, _check, sorted keys, len, lookups, no entry that was neither present nor offered), "
                    "then insert / len / lookup / delete in lockstep")
        s.rule += "; [B]: the cases run (distinct (entry point, unusable item, k, prefill, prefix style, tail))"
        s.samples.append({"family": "II", "kind": "BTree", "sizes": [2, 2], "scenario": "B",
                          "history": "t[1]=1 t[3]=1; t.update([(2,2),(3,2),(0,'x'),(13,1)]) -> TypeError in both; contents, "
                                     "__getstate__ structure equal in IIBTree and IIBTreePy; both sound; t[12]=2 len get pop ..."})
    write_standin(a.out, s)


if __name__ == "__main__":
    main()
