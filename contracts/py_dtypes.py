"""Sidecar contracts for the converters of /repo/src/BTrees/_datatypes.py - what every
pure-Python family uses as `_to_key` / `_to_value` (C13; C09 for the result type).

The postconditions are C13's statement per declared type: a value comes back only if the
argument denotes something representable in the type, it IS that value (never a different one),
and everything else is rejected with TypeError - no other exception class.  The bounds are
written here from the property (32/64-bit signed/unsigned), NOT read from `_struct_format`:
a wrong format character in the source fails `representable`.

The argument is an arbitrary Python object (ghost vocabulary: pyvc/dtypes.py).
Float types (F) are not under contract: the pure-Python float families store the unrounded
double (recorded finding of C13); the stand-in conv_rt covers them.
"""
from pyvc.spec import Contract

CONTRACTS = []


def C(*a, **k):
    c = Contract(*a, **k)
    CONTRACTS.append(c)
    return c


INT_TYPES = {"I": (-2 ** 31, 2 ** 31 - 1), "U": (0, 2 ** 32 - 1), "L": (-2 ** 63, 2 ** 63 - 1), "Q": (0, 2 ** 64 - 1)}

for _cls, (_lo, _hi) in INT_TYPES.items():
    _in = "(py_numeric(item) and %d <= py_numval(item) and py_numval(item) <= %d)" % (_lo, _hi)
    C("_AbstractNativeDataType.__call__#" + _cls, cls="dt:" + _cls, params={"item": "any"}, returns="int",
      ensures={"representable": "%d <= result and result <= %d" % (_lo, _hi),
               "same_value": "py_numeric(item) and result == py_numval(item)",
               "accepts_only_representable": _in},
      raises={"TypeError": {"rejects_only_unrepresentable": "not " + _in}},
      modifies=[], ghost={"of": "_AbstractNativeDataType.__call__", "no_frame": True}, props=["C13", "C09"])

for _cls, _n in (("f", 2), ("s", 6)):
    _in = "(py_isbytes(item) and py_blen(item) == %d)" % _n
    C("_AbstractBytes.__call__#" + _cls, cls="dt:" + _cls, params={"item": "any"}, returns="any",
      ensures={"unchanged": "result == item", "representable": _in},
      raises={"TypeError": {"rejects_only_unrepresentable": "not " + _in}},
      modifies=[], ghost={"of": "_AbstractBytes.__call__", "no_frame": True}, props=["C13", "C09"])

# object keys: anything but an object with default comparison (not orderable); object values: anything
C("O.__call__", cls="dt:O", params={"item": "any"}, returns="any",
  ensures={"unchanged": "result == item", "orderable": "not py_defaultcmp(item)"},
  raises={"TypeError": {"rejects_only_unorderable": "py_defaultcmp(item)"}},
  modifies=[], ghost={"no_frame": True}, props=["C13", "C09"])
C("Any.__call__", cls="dt:Any", params={"item": "any"}, returns="any",
  ensures={"unchanged": "result == item"}, modifies=[], ghost={"no_frame": True}, props=["C13", "C09"])
