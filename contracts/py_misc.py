"""Contracts for BTrees.Length (C19) and BTrees._compat.compare (C01)."""
from pyvc.spec import Contract

CONTRACTS = []


def C(*a, **k):
    c = Contract(*a, **k)
    CONTRACTS.append(c)
    return c


# C19: "resolves any two concurrent updates of a common original value to
# original + (change made by one) + (change made by the other), independent
# of the order of the two" -- over unbounded mathematical integers.
C("Length._p_resolveConflict", cls="Length", params={"old": "int", "s1": "int", "s2": "int"},
  returns="int",
  ensures={"sum_of_changes": "result == old + (s1 - old) + (s2 - old)",
           "order_independent": "result == old + (s2 - old) + (s1 - old)"},
  modifies=[], props=["C19"])
C("Length.__init__", cls="Length", params={"v": "int"}, returns="none",
  ensures={"cell": "self.value == v"}, modifies=["self.value", "self._p_changed"], props=["C19"])
C("Length.set", cls="Length", params={"v": "int"}, returns="none",
  ensures={"cell": "self.value == v", "flagged": "changed(self)"},
  modifies=["self.value", "self._p_changed"], props=["C19"])
C("Length.change", cls="Length", params={"delta": "int"}, returns="none",
  ensures={"cell": "self.value == old(self.value) + delta", "flagged": "changed(self)"},
  modifies=["self.value", "self._p_changed"], props=["C19"])
C("Length.__call__", cls="Length", params={}, returns="int", ghost={"ignore_star": True},
  ensures={"cell": "result == self.value"}, modifies=[], props=["C19"])
C("Length.__getstate__", cls="Length", params={}, returns="int",
  ensures={"cell": "result == self.value"}, modifies=[], props=["C19"])
C("Length.__setstate__", cls="Length", params={"v": "int"}, returns="none",
  ensures={"cell": "self.value == v"}, modifies=["self.value", "self._p_changed"], props=["C19"])

# the key order: None is the least key; otherwise the sign of the order
C("compare", params={"x": ["none", "K"], "y": ["none", "K"]}, returns="int",
  ensures={
      "none_none": "implies(x is None and y is None, result == 0)",
      "none_least_l": "implies(x is None and y is not None, result < 0)",
      "none_least_r": "implies(x is not None and y is None, result > 0)",
      "sign_lt": "implies(x is not None and y is not None, (result < 0) == (x < y))",
      "sign_eq": "implies(x is not None and y is not None, (result == 0) == (x == y))",
      "sign_gt": "implies(x is not None and y is not None, (result > 0) == (x > y))",
      "range": "-1 <= result and result <= 1",
  }, modifies=[], props=["C01"], ghost={"self_only": True})
