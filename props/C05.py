"""C05 - evicting nodes from the object cache never changes behaviour."""
QUICK = ["II", "OO", "LF", "fs"]
ALL = "IO II IF IU UO UU UF UI LO LL LF LQ QO QQ QF QL OO OI OU OL OQ fs".split()


def run(ctx):
    fams = QUICK if ctx.tier == "quick" else ALL
    ctx.cvc(fams, ["T-PIN"])
    ctx.cvc(["II", "OO"] if ctx.tier == "quick" else fams, ["T-USE"])
    from props import _generic as g
    from lib import replay
    leaf = [t for t in g.py_targets("C01") if t.split(".")[0] in ("Bucket", "Set", "_BucketBase")]
    res = ctx.pyvc(leaf, mode="evict")
    replay.replay_python(ctx, res)
    ctx.standin("evict_rt", families=("OO", "II") if ctx.tier == "quick" else ("OO", "II", "LF", "QQ", "fs"))
    return "proof", (
        "T-PIN: for every function definition of the translation units (%s), on every exit, "
        "normal or error: forall o: state'[o]==STICKY ==> state[o]==STICKY over the real ->state "
        "field written by the PER_USE/PER_UNUSE expansions (clang AST of the preprocessed TU, "
        "state merging at joins, loops cut at an inferred invariant, callees by the same contract). "
        "This is the third sentence of the property (nothing stays pinned, also on failing calls). "
        "T-USE (first and second sentence, the mechanism): every access to a vector field (len, size, keys, values, next, "
        "data, firstbucket) of a node is made while `state` says the node is not a ghost; functions whose protocol is 'the caller "
        "activates' are inferred and every call site proves its argument pinned; entry points get no assumption (type slots) or "
        "'activated by attribute lookup' (named methods); the summary 'which arguments a function may leave un-pinned' is itself a "
        "fixpoint of per-function proofs; loops by Houdini-chosen invariants. "
        "Python leaf layer, evict mode of Engine P: the search may turn the unchanged node into a ghost and reload it "
        "into new list objects; every leaf function still meets its whole-view contract (it re-reads its lists after "
        "the search). "
        "Transparent reload and protection during comparisons are exercised by the bounded stand-in "
        "evict_rt (cache sweeps between operations and inside key comparisons)." % ", ".join(fams))
