#!/usr/bin/env python3
"""mkresults.py: seeded/RESULTS.md from the logs of tools/run_seeded.sh (/tmp/seedrun/<id>.log)."""
import os
import re

HERE = os.path.dirname(os.path.dirname(os.path.abspath(__file__)))
STANDIN = re.compile(r"^(nonekey|model|wf|twin|range|lazy|stale|persist|evict|pickle|merge|conc|setop|multiunion|weighted|conv|"
                     r"cmpfault|iter|refcount|alloc|checkers|length|Length):")
import json
KEEP = os.path.join(HERE, "seeded", "results.json")      # id -> [verdict, deductive, stand-in]: rows of earlier sweeps
kept = json.load(open(KEEP)) if os.path.exists(KEEP) else {}
rows = []
for d in sorted(os.listdir(os.path.join(HERE, "seeded"))):
    if not re.match(r"C\d\d-m\d$", d):
        continue
    log = "/tmp/seedrun/%s.log" % d
    if not os.path.exists(log):
        if d in kept:
            rows.append((d, kept[d][0] + " (earlier sweep)", kept[d][1], kept[d][2]))
        else:
            rows.append((d, "not run in this sweep", "", ""))
        continue
    txt = open(log).read()
    keys = []
    for m in re.finditer(r"^  violated: (\S+) -- ", txt, re.M):
        if m.group(1) not in keys:
            keys.append(m.group(1))
    ded = [k for k in keys if not STANDIN.match(k)]
    std = [k for k in keys if STANDIN.match(k)]
    verdict = "yes" if "VIOLATION property=" in txt else ("CHECKER ERROR" if "CHECKER ERROR" in txt else
                                                            ("UNDECIDED" if "UNDECIDED" in txt else "NO"))
    rows.append((d, verdict, "; ".join(ded[:3]) or "-", "; ".join(std[:2]) or "-"))
    kept[d] = [verdict, "; ".join(ded[:3]) or "-", "; ".join(std[:2]) or "-"]
json.dump(kept, open(KEEP, "w"), indent=0, sort_keys=True)
with open(os.path.join(HERE, "seeded", "RESULTS.md"), "w") as f:
    f.write("# Which checks catch which seeded changes\n\n"
            "Each change was applied to a scratch worktree of /repo HEAD and the quick check of its property run against it "
            "(tools/run_seeded.sh; table by tools/mkresults.py from the logs).  `deductive` = named obligations of Engine P / "
            "Engine C that were discharged on the unchanged tree and are refuted or no longer discharged with the change; "
            "`stand-in` = first contract keys of the bounded run-time stand-ins.  A change can break several properties; "
            "it is run against the property it was written for.\n\n"
            "| seeded change | detected | by a discharged-obligation failure (deductive) | by bounded stand-in (first keys) |\n"
            "|---|---|---|---|\n")
    for r in rows:
        f.write("| %s | %s | %s | %s |\n" % r)
print(len(rows), "rows;", sum(1 for r in rows if r[1] == "yes"), "detected;",
      sum(1 for r in rows if r[1] not in ("yes", "not run in this sweep")), "not detected")
