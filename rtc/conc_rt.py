"""Bounded stand-in for C08 (concurrent transactions on a tree merge, serialize
or conflict - nothing else).

Oracle = the statement: "When two transactions that started from the same
committed tree are committed one after the other under optimistic concurrency
control with conflict resolution, the second either fails with a conflict
error or the stored tree afterwards is sound and its contents equal either the
result of executing the second transaction's operations after the first's, or
the original contents with both transactions' net key-level changes applied
(which then touch disjoint keys); no other outcome [...] is possible.  Every
write declares each stored interior node it descended through as a read
dependency of its transaction, and pure reads (lookups, range queries,
iteration, len) declare none".

The optimistic commit is rtc.stubdb's (a stated model of ZODB's: write conflict
by serial -> _p_resolveConflict on reference-placeholder states, readCurrent
objects must still be current).  Per base tree and ordered pair (T1, T2): both
run on their own connection opened on the same committed state, T1 commits,
then T2.  Expected contents are computed on the reference sorted map
(harness.apply_ref), never by the code under test; soundness is harness.walk on
a fresh reader.

Read dependencies: the interior nodes on the way to a key are found here from
the stored states (__getstate__ and the separator keys); a node counts as
*stored* when it has an oid and a non-zero serial.  A call that changed the
contents must have declared each of them - or have registered the node as
changed in the same transaction, which is the stronger dependency (a write
conflict on it is detected by serial; ZODB exempts such nodes from the
read-current check as well).
"""
import argparse
import itertools
import random

from lib.common import Standin, Failure, write_standin
from rtc import harness as H
from rtc import stubdb
from rtc.persist_rt import inlined_below_root, slug

ABSENT = ("absent",)


def stored_path(t, key):
    """Stored interior nodes (root included) a search for key descends through."""
    path, node = [], t
    while True:
        if node._p_oid is not None and node._p_serial != stubdb.Z64:
            path.append(node._p_oid)
        st = node.__getstate__()
        if st is None or len(st) == 1:
            return path
        kids, seps = st[0][0::2], st[0][1::2]
        i = 0
        while i < len(seps) and not key < seps[i]:
            i += 1
        if type(kids[i]) is not type(t):
            return path
        node = kids[i]


def run_txn(conn, oid, ops, ref, viol):
    """Run ops on the connection's copy of the tree and on the reference map;
    check the read-dependency sentence for every call that changed the contents."""
    t = conn.get(oid)
    for op in ops:
        path = stored_path(t, op[1]) if len(op) > 1 else []
        before, log0 = dict(ref.d), len(conn.read_log)
        H.apply_ref(ref, op)
        H.apply_impl(t, op)
        if ref.d != before:
            have = set(conn.read_log[log0:]) | {o._p_oid for o in conn.registered}
            missing = [p for p in path if p not in have]
            if missing:
                viol.append(("readcurrent-missing", op[0],
                             "%r changed the contents below %d stored interior node(s) but %d of them were neither declared "
                             "readCurrent nor registered (oids %s)" % (op, len(path), len(missing),
                                                                       [stubdb.u64(m) for m in missing])))


def read_ops(is_set, keys):
    ops = [("len",), ("bool",)]
    for k in keys:
        ops += [("contains", k)] if is_set else [("get", k), ("getitem", k), ("contains", k), ("has_key", k)]
    return ops


def pure_reads(st, oid, is_set, keys):
    """-> [(op name, text)] for reads that declared a read dependency."""
    out = []
    conn = st.open()
    t = conn.get(oid)
    extra = [("iter", lambda: list(t)), ("keys", lambda: list(t.keys())), ("keys-range", lambda: list(t.keys(keys[1], keys[-2]))),
             ("minKey", lambda: t.minKey()), ("maxKey", lambda: t.maxKey()), ("minKey-k", lambda: t.minKey(keys[2])),
             ("maxKey-k", lambda: t.maxKey(keys[-3]))]
    if not is_set:
        extra += [("values", lambda: list(t.values(keys[1]))), ("items", lambda: list(t.items(None, keys[-2]))),
                  ("byValue", lambda: t.byValue(t[t.minKey()]))]
    for op in read_ops(is_set, keys):
        H.apply_impl(t, op)
        if conn.read_log:
            out.append((op[0], "%r declared %d read dependencies" % (op, len(conn.read_log))))
            conn.read_log[:] = []
    for name, f in extra:
        try:
            f()
        except (ValueError, KeyError):
            pass
        if conn.read_log:
            out.append((name, "%s() declared %d read dependencies" % (name, len(conn.read_log))))
            conn.read_log[:] = []
    return out


def base_trees(cls, is_set, keys, vals, rng, limit):
    """Committed base trees of distinct shapes: -> [(storage, oid, contents dict, shape)].  Every call is followed by
    a commit, so that no node is new when the two transactions start."""
    put = (lambda k: ("add", k)) if is_set else (lambda k: ("setitem", k, vals[0]))
    rem = (lambda k: ("remove", k)) if is_set else (lambda k: ("delitem", k))
    hs = []
    for n in range(1, len(keys) + 1):
        hs.append([put(k) for k in keys[:n]])                       # ascending fills: the deepest trees
        hs.append([put(k) for k in keys[::-1][:n]])
    for _ in range(4 * limit):
        ks = rng.sample(keys, rng.randint(2, len(keys)))
        hs.append([put(k) for k in ks] + [rem(k) for k in rng.sample(ks, rng.randint(0, len(ks) // 2))])
    seen, out = set(), []
    for h in hs:
        st = stubdb.Storage()
        conn = st.open()
        t = cls()
        oid = conn.add(t)
        conn.commit()
        ref = H.RefMap(is_set)
        for op in h:
            H.apply_impl(t, op)
            H.apply_ref(ref, op)
            conn.commit()
        sh = H.shape(t, is_set)
        if sh in seen:
            continue
        seen.add(sh)
        out.append((st, oid, dict(ref.d), sh))
    # from the deepest / widest down to the one-leaf tree, evenly spaced, up to the limit
    out.sort(key=lambda b: -len(repr(b[3])))
    if len(out) > limit:
        out = [out[round(i * (len(out) - 1) / (limit - 1))] for i in range(limit)]
    return out


def job(j):
    fam, kind, impl, sizes = j
    quick = H.tier() == "quick"
    is_set = kind == "TreeSet"
    cls = H.get_class(fam, kind, impl, *sizes)
    keys = H.keys_of(fam, 8) if fam != "fs" else [bytes([0, i]) for i in range(8)]
    vals = H.values_of(fam)
    rng = random.Random(H.seed() * 7919 + hash(j) % 1000)
    if is_set:
        singles = [("add", k) for k in keys] + [("remove", k) for k in keys] + [("clear",)]
    else:
        singles = [("setitem", k, v) for k in keys for v in vals] + [("delitem", k) for k in keys] + [("clear",)]
    evals, cases, failures = 0, set(), []

    def fail(clause, opnames, text, repro):
        key = "conc:%s:%s:%s:%s" % (impl, kind, clause, opnames)
        if sum(f.key == key for f in failures) < 2:
            failures.append(Failure(key=key, desc="%s%s%s sizes=%s: %s" % (fam, kind, "Py" if impl == "py" else "", sizes, text[:600]),
                                    repro=repro))

    for st0, oid, base, sh in base_trees(cls, is_set, keys, vals, rng, 14 if quick else 60):
        for name, text in pure_reads(st0.fork(), oid, is_set, keys):
            fail("read-declares", name, text, {"family": fam, "kind": kind, "impl": impl, "sizes": sizes, "base": repr(base)})
        evals += 1
        pairs = [((a,), (b,)) for a in singles for b in singles]
        if quick:       # same key or clear on either side: all; of the others a seeded sample
            near = [p for p in pairs if len(p[0][0]) == 1 or len(p[1][0]) == 1 or p[0][0][1] == p[1][0][1]]
            far = [p for p in pairs if p not in near]
            pairs = near + rng.sample(far, 150)
        two = [tuple(rng.sample(singles, 2)) for _ in range(40 if quick else 400)]
        pairs += [(two[i], two[i + 1]) for i in range(0, len(two), 2)] + [((a,), two[i]) for i, a in enumerate(singles[::3])]
        for T1, T2 in pairs:
            if len(failures) >= 10:
                return evals, cases, failures
            evals += 1
            st = st0.fork()
            c1, c2 = st.open(), st.open()
            r1, r2, viol = H.RefMap(is_set), H.RefMap(is_set), []
            r1.d, r2.d = dict(base), dict(base)
            run_txn(c1, oid, T1, r1, viol)
            run_txn(c2, oid, T2, r2, viol)
            names = "%s|%s" % ("+".join(o[0] for o in T1), "+".join(o[0] for o in T2))
            repro = {"family": fam, "kind": kind, "impl": impl, "sizes": sizes, "base_contents": repr(sorted(base.items())),
                     "base_shape": repr(sh), "T1 (commits first)": repr(T1), "T2": repr(T2)}
            for clause, opname, text in viol:
                fail(clause, opname, text, repro)
            # expected: serial execution (T1 then T2), or the disjoint-key merge of the net changes
            serial = H.RefMap(is_set)
            serial.d = dict(r1.d)
            for op in T2:
                H.apply_ref(serial, op)
            d1 = {k: r1.d.get(k, ABSENT) for k in set(base) | set(r1.d) if r1.d.get(k, ABSENT) != base.get(k, ABSENT)}
            d2 = {k: r2.d.get(k, ABSENT) for k in set(base) | set(r2.d) if r2.d.get(k, ABSENT) != base.get(k, ABSENT)}
            allowed = [serial.contents()]
            if not set(d1) & set(d2):
                m = H.RefMap(is_set)
                m.d = dict(base)
                for k, v in list(d1.items()) + list(d2.items()):
                    if v is ABSENT:
                        m.d.pop(k, None)
                    else:
                        m.d[k] = v
                allowed.append(m.contents())
            try:
                c1.commit()
            except stubdb.ConflictError as e:
                fail("first-commit-conflict", names, "the first commit, with nothing committed meanwhile, was refused: %s" % e, repro)
                continue
            try:
                c2.commit()
                outcome = "stored"
            except stubdb.ConflictError as e:
                outcome = "conflict-" + e.kind
            if outcome == "stored":
                rt = st.open().get(oid)
                try:
                    got = H.walk(rt, is_set)[0]      # sound = C03's first sentence; a merged leaf may exceed max_leaf_size
                    api = H.contents(rt, is_set)
                except H.Damage as e:
                    why = "nonroot-node-inlines-its-only-leaf" if inlined_below_root(rt) else slug(e)
                    fail("damage:" + why, names, "both commits succeeded; stored tree: %s" % e, repro)
                    continue
                except Exception as e:
                    fail("reader-error:" + type(e).__name__, names, "both commits succeeded; reading the stored tree raised %s: %s"
                         % (type(e).__name__, e), repro)
                    continue
                if got not in allowed or api != got:
                    fail("contents", names, "both commits succeeded; stored contents %r (iteration %r); allowed: serial %r%s" %
                         (got, api, allowed[0], " or merge %r" % (allowed[1],) if len(allowed) > 1 else " (no merge: same keys)"),
                         repro)
                    continue
                if len(allowed) > 1 and got == allowed[1] and allowed[1] != allowed[0]:
                    outcome = "merged"
            if d1 and d2:
                cases.add((sh, names, outcome))
    return evals, cases, failures


def main():
    ap = argparse.ArgumentParser()
    ap.add_argument("--out")
    a = ap.parse_args()
    quick = H.tier() == "quick"
    s = Standin(
        name="conc_rt",
        bound="per (family, BTree/TreeSet, implementation, node sizes (2,3),(3,3)): %d base trees of distinct shapes, evenly spaced from the deepest to the one-leaf tree, among trees "
              "of <=8 keys (ascending / descending fills of 1..8 keys, seeded fill+delete histories; committed after every call); "
              "ordered pairs (T1 commits first) of one-call transactions over {insert/overwrite with 2 values, delete} x 8 keys + "
              "clear: %s; plus seeded pairs involving two-call transactions; plus, per base tree, every lookup / range query / "
              "iteration / len / minKey / maxKey / byValue on a fresh connection (must declare nothing)"
              % ((14, "all pairs on the same key or with clear on either side, and 150 seeded others") if quick else (60, "all 625")),
        rule="case = one ordered pair on one base tree (two commits, outcome check, read-dependency check of every changing call); "
             "distinct non-trivial = distinct (base shape, operations, outcome in conflict-write/conflict-read/stored/merged) with a "
             "net change on both sides",
        functions=["_BTree_set (PER_READCURRENT)", "_Tree._set/_del (readCurrent)", "bucket__p_resolveConflict / bucket_merge",
                   "BTree__p_resolveConflict", "Bucket._p_resolveConflict", "Set._p_resolveConflict", "_Tree._p_resolveConflict",
                   "read paths: _BTree_get, BTree_rangeSearch, BTree_maxminKey, BTree_length_or_nonzero, BTreeItems, "
                   "_Tree._findbucket/keys/minKey/maxKey/__len__"])
    jobs = [(fam, kind, impl, sizes) for fam in H.fams() for kind in ("BTree", "TreeSet") for impl in ("c", "py")
            for sizes in ((2, 3), (3, 3))]
    cases = set()
    outcomes = {}
    for n, c, fails in H.run_parallel(job, jobs):
        s.evaluations += n
        cases |= c
        s.failures += fails
    for _, _, o in cases:
        outcomes[o] = outcomes.get(o, 0) + 1
    s.distinct_nontrivial = len(cases)
    s.samples = [{"family": "OO", "kind": "BTree", "sizes": [2, 3], "base": "keys 0..7 inserted ascending (3 levels)",
                  "T1": "del t[7]", "T2": "t[7]='b'", "allowed": "conflict, or {..., 7:'b'} (serial); a merge is not (same key)"},
                 {"distinct_outcomes_seen": outcomes}]
    write_standin(a.out, s)


if __name__ == "__main__":
    main()
