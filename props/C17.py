from props import _generic as g


def run(ctx):
    fns = g.run_pyvc(ctx, "C17")
    ctx.standin("alloc_rt", families=tuple("OO,II".split(",")))
    return "exploration", "bounded stand-in alloc_rt (no obligation of the deductive engines serves C17 yet)"
