"""C16 - the C extension accounts for every reference and stays inside its memory."""


def run(ctx):
    fams = ["OO", "OI", "IO"] if ctx.tier == "quick" else ["OO", "OI", "IO", "OL", "LO", "OU", "OQ", "UO", "QO"]
    res = ctx.cvc(fams, ["T-REF"])
    ctx.cvc(["II", "OO"] if ctx.tier == "quick" else ["II", "OO", "LF", "fs", "QQ"], ["M-IDX"])
    res2 = ctx.cvc(["II", "OO", "fs"] if ctx.tier == "quick" else ["II", "OO", "fs", "LF", "QQ", "IO", "OI"], ["M-NULL"])
    from lib import replay
    replay.replay_mnull(ctx, res2)
    from cvc import tref
    ctx.notes.append("functions NOT under the T-REF contract (slot-level ownership, bounded only): " + ", ".join(tref.OUTSIDE))
    ctx.standin("refcount_rt", families=("OO", "OI", "IO") if ctx.tier == "quick" else ("OO", "OI", "IO", "OL", "LO"))
    return "other", (
        "T-REF, the local reference discipline, is proved for every function of the translation units (%s) except "
        "the %d listed as outside the contract: every reference an activation acquires (new-reference API results, "
        "Py_INCREF of locals, results of BTrees functions) is released, returned, stored into the container / an "
        "out-parameter or stolen exactly once on every path, and nothing it does not own is released. Ownership of "
        "the references held by container slots across memmove, and freedom from out-of-bounds access in general, are NOT proved "
        "(needs separation logic, DESIGN.md section 10): bounded stand-in refcount_rt (per-call refcount equation on "
        "every tracked key/value over histories incl. error paths, set algebra, merges, pickling, eviction). "
        "M-IDX (see C15) is run here too: the lazy sequences and iterators read a leaf only inside its CURRENT length "
        "(slots beyond it hold released references), for all cursor states. M-NULL, on every function that calls a fallible "
        "constructor of the CPython API: its result is known non-NULL wherever it is dereferenced (->field, Py_INCREF / Py_DECREF, "
        "Py_TYPE, PyTuple_GET_ITEM) or stored into a tuple / list slot - found and fixed: update() released a NULL iterator "
        "(069bdf6: OOBucket().update(X()) with X.items() returning 5 was a segmentation fault), BTree_getstate stored a NULL (5b9672e)."
        % (", ".join(fams), len(tref.OUTSIDE)))
