"""C14 - an exception raised by a key comparison leaves the container intact."""
from props import _generic as g


def run(ctx):
    fns = [t for t in g.py_targets("C01") if "#" not in t and not t.startswith("lemma:")]
    res = ctx.pyvc(fns, mode="faulty")
    from lib import replay
    replay.replay_python(ctx, res)
    ctx.cvc(["OO"], ["T-PIN", "T-REF"])
    ctx.standin("cmpfault_rt", families=("OO",))
    return "proof", (
        "Engine P, faulty-comparison mode: every compare() call and every ==/< on keys in the %d leaf-layer "
        "functions of _base.py additionally has the outcome 'raises'; on each such path the obligation is that "
        "the exception propagates and every heap cell (key list, value list, links, change flag) is exactly as on "
        "entry (frame with an empty modifies set). C (object keys, _OOBTree.c): every ONERROR exit of the "
        "search macros is an explored path of T-PIN (no pin survives) and T-REF (local references balanced), since the "
        "comparison API may fail at every call. The interior-node level, contents-after-failure and reference counts "
        "after a failing n-th comparison are the bounded stand-in cmpfault_rt." % len(fns))
