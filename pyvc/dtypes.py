"""Data-type layer of Engine P: the converters of /repo/src/BTrees/_datatypes.py
(`_to_key` / `_to_value` of every pure-Python family) under contract (C13, C09).

Receiver: `self` of kind 'dtype' (x = the class name, e.g. 'I').  Attributes of the
receiver are resolved through the MRO of the REAL class bodies read from
_datatypes.py on every run: methods (inlined), `@Lazy` methods (evaluated as
properties) and class attributes (`_struct_format = 'i'`, `_as_packable =
operator.index`, `_as_python_type = int`, `_length = 2`, ...).

The argument is an arbitrary Python object: kind 'any' (an opaque id) described by
ghost functions -

  py_isint(x)      isinstance(x, int)          py_ival(x)     its integer value
  py_hasindex(x)   a non-int with __index__    py_index(x)    what __index__ returns
  py_hasint(x)     a non-int with __int__      py_intconv(x)  what __int__ returns
  py_isbytes(x)    isinstance(x, bytes)        py_blen(x)     its length
  py_defaultcmp(x) isinstance(x, _HasDefaultComparison)

TRUSTED contracts of the CPython functions the converters call (listed in evidence):
  operator.index(x)  -> ival if isint; index if hasindex; else TypeError
  int(x)             -> ival if isint; intconv if hasint; index if hasindex; else TypeError
                        (an int SUBCLASS that overrides __int__ is outside the model)
  struct.Struct(c).pack(v), v an int -> bytes if v is in the range of format c,
                        else struct.error          (table STRUCT_RANGE, native mode, LP64)
  user-defined __index__ / __int__ return normally.
"""
import ast
import z3

from .sym import SV, Unsupported, mk_int, mk_bool, INT, BOOL
from .expr import exc

PY_ISINT = z3.Function("py_isint", INT, BOOL)
PY_IVAL = z3.Function("py_ival", INT, INT)
PY_HASINDEX = z3.Function("py_hasindex", INT, BOOL)
PY_INDEX = z3.Function("py_index", INT, INT)
PY_HASINT = z3.Function("py_hasint", INT, BOOL)
PY_INTCONV = z3.Function("py_intconv", INT, INT)
PY_ISBYTES = z3.Function("py_isbytes", INT, BOOL)
PY_BLEN = z3.Function("py_blen", INT, INT)
PY_DEFCMP = z3.Function("py_defaultcmp", INT, BOOL)
PY_EXACTINT = z3.Function("py_exactint", INT, BOOL)      # type(x) is int
BITLEN = z3.Function("bit_length", INT, INT)

GHOSTS = {"py_isint": PY_ISINT, "py_ival": PY_IVAL, "py_hasindex": PY_HASINDEX, "py_index": PY_INDEX,
          "py_hasint": PY_HASINT, "py_intconv": PY_INTCONV, "py_isbytes": PY_ISBYTES, "py_blen": PY_BLEN,
          "py_defaultcmp": PY_DEFCMP, "py_exactint": PY_EXACTINT}

# struct format character (native mode, LP64 Linux) -> inclusive integer range
STRUCT_RANGE = {"b": (-2 ** 7, 2 ** 7 - 1), "B": (0, 2 ** 8 - 1), "h": (-2 ** 15, 2 ** 15 - 1), "H": (0, 2 ** 16 - 1),
                "i": (-2 ** 31, 2 ** 31 - 1), "I": (0, 2 ** 32 - 1), "l": (-2 ** 63, 2 ** 63 - 1), "L": (0, 2 ** 64 - 1),
                "q": (-2 ** 63, 2 ** 63 - 1), "Q": (0, 2 ** 64 - 1), "n": (-2 ** 63, 2 ** 63 - 1), "N": (0, 2 ** 64 - 1)}

TRUSTED_DT = [
    "operator.index(x): the int value of an int; what __index__ returns for a non-int that has one; else TypeError",
    "int(x): the int value of an int (int subclasses overriding __int__ are outside the model); what __int__ returns, "
    "else what __index__ returns, for a non-int that has one; else TypeError; the result is a plain int",
    "struct.Struct(c).pack(v) for an int v: succeeds iff v is in the range of format character c (native mode, LP64), "
    "else struct.error",
    "user-defined __index__ / __int__ return normally; isinstance / len on bytes are exact",
    "utils.Lazy evaluates the decorated method once per instance (a property for the purposes of one call)",
]


def wellformed(z):
    """What is true of every Python object id (assumed when an 'any' parameter is created)."""
    return z3.And(z3.Implies(PY_EXACTINT(z), PY_ISINT(z)), z3.Implies(PY_ISINT(z), z3.And(z3.Not(PY_HASINDEX(z)), z3.Not(PY_HASINT(z)), z3.Not(PY_ISBYTES(z)))),
                  z3.Implies(PY_ISBYTES(z), z3.And(z3.Not(PY_HASINDEX(z)), z3.Not(PY_HASINT(z)), PY_BLEN(z) >= 0)))


class DTypeMixin:

    def dt_lookup(self, cls, name, after=None):
        """-> ('method', FunctionDef, defining class) | ('attr', value ast, class) | None, through the MRO of the
        real classes (`after`: start behind that class - super())."""
        ca = self.sources.get("$classattr", {})
        mro = self.mro(cls)
        if after is not None:
            mro = mro[mro.index(after) + 1:] if after in mro else []
        for c in mro:
            if c + "." + name in self.sources:
                return ("method", self.sources[c + "." + name], c)
            if (c, name) in ca:
                return ("attr", ca[(c, name)], c)
        return None

    def dt_inline(self, s, node, defcls, obj, args, kw):
        """Inline a method of a data type; `super()` inside it starts behind its defining class."""
        saved = s.env.get("$defcls")
        outs = self.inline(s, node, obj, args, kw, closure_env={"$defcls": SV("str", None, defcls)})
        return outs

    def dt_getattr(self, s, obj, name):
        hit = self.dt_lookup(obj.x, name)
        if hit is None:
            raise Unsupported("data type %s has no attribute %s" % (obj.x, name))
        kind, node, defcls = hit
        if kind == "method":
            decos = [ast.unparse(d) for d in node.decorator_list]
            if decos == ["Lazy"]:
                return self.dt_inline(s, node, defcls, obj, [], {})
            if decos:
                raise Unsupported("decorator %s on %s.%s" % (decos, obj.x, name))
            return [(s, SV("bmeth", None, (obj, name)))]
        txt = ast.unparse(node)
        if isinstance(node, ast.Constant):
            return self.ev_Constant(node, s)
        if txt in ("operator.index", "int", "float"):
            # a builtin stored as a class attribute is not bound to the instance
            return [(s, SV("func", None, txt))]
        raise Unsupported("class attribute %s.%s = %s" % (obj.x, name, txt))

    def dt_apply(self, s, f, args, kw):
        """Calls the data-type layer knows; None if `f` is not one of them."""
        if f.kind == "bmeth":
            obj, name = f.x
            if obj.kind == "dtype":
                kind, node, defcls = self.dt_lookup(obj.x, name)
                return self.dt_inline(s, node, defcls, obj, args, kw)
            if obj.kind == "super":
                recv, after = obj.x
                hit = self.dt_lookup(recv.x, name, after=after)
                if hit is None or hit[0] != "method":
                    raise Unsupported("super().%s" % name)
                return self.dt_inline(s, hit[1], hit[2], recv, args, kw)
            if obj.kind == "any" and name == "bit_length" and not args:
                return self.dt_bit_length(s, obj)
            if obj.kind == "func" and obj.x == "struct" and name == "Struct":
                if len(args) != 1 or args[0].kind != "str":
                    raise Unsupported("struct.Struct of a non-constant format")
                return [(s, SV("structobj", None, args[0].x))]
            return None
        if f.kind != "func":
            return None
        if isinstance(f.x, tuple) and f.x[0] == "struct.pack":
            return self.dt_pack(s, f.x[1], args)
        if f.x == "operator.index":
            return self.dt_index(s, args[0])
        if f.x == "int":
            return self.dt_int(s, args[0])
        return None

    def dt_super(self, s):
        """super() inside a method of a data type."""
        d = s.env.get("$defcls")
        recv = s.env.get("self")
        if d is None or recv is None or recv.kind != "dtype":
            raise Unsupported("super() outside a data-type method")
        return [(s, SV("super", None, (recv, d.x)))]

    def dt_bit_length(self, s, x):
        """int.bit_length(): n with 2**(n-1) <= |v| < 2**n, stated at the widths code compares against."""
        z = x.z
        outs = []
        for s2, isint in self.fork(s, PY_ISINT(z), "is_int"):
            if not isint:
                outs.append((s2, exc("AttributeError")))
                continue
            v = PY_IVAL(z)
            bl = BITLEN(v)
            s2.assume(bl >= 0)
            for k in (7, 8, 15, 16, 31, 32, 63, 64):
                s2.assume((bl <= k) == z3.And(v > -2 ** k, v < 2 ** k))
            outs.append((s2, mk_int(bl)))
        return outs

    def dt_type_is(self, s, o, c):
        """type(o) is c for an arbitrary object."""
        fn = {"int": PY_EXACTINT}.get(c)
        if fn is None:
            raise Unsupported("type(x) is %s" % c)
        return mk_bool(fn(o.z))

    def dt_structattr(self, s, obj, name):
        if name == "pack":
            return [(s, SV("func", None, ("struct.pack", obj.x)))]
        raise Unsupported("struct.Struct(..).%s" % name)

    # ---- trusted contracts of the CPython functions -------------------------------------------
    def _split(self, s, cases):
        """cases: [(condition, outcome SV, label)] -> feasible (state, SV) list."""
        res = []
        for cnd, out, label in cases:
            s2 = s.copy()
            s2.assume(cnd)
            if self.feasible(s2):
                s2.trace.append(label)
                res.append((s2, out))
        return res

    def dt_index(self, s, x):
        if x.kind in ("int", "bool"):
            return [(s, x if x.kind == "int" else mk_int(z3.If(x.z, 1, 0)))]
        if x.kind != "any":
            return [(s, exc("TypeError"))]
        z = x.z
        return self._split(s, [
            (PY_ISINT(z), mk_int(PY_IVAL(z)), "index(int)"),
            (z3.And(z3.Not(PY_ISINT(z)), PY_HASINDEX(z)), mk_int(PY_INDEX(z)), "index(obj.__index__)"),
            (z3.And(z3.Not(PY_ISINT(z)), z3.Not(PY_HASINDEX(z))), exc("TypeError"), "index raises TypeError")])

    def dt_int(self, s, x):
        if x.kind in ("int", "bool"):
            return [(s, x if x.kind == "int" else mk_int(z3.If(x.z, 1, 0)))]
        if x.kind != "any":
            return [(s, exc("TypeError"))]
        z = x.z
        ni = z3.Not(PY_ISINT(z))
        return self._split(s, [
            (PY_ISINT(z), mk_int(PY_IVAL(z)), "int(int)"),
            (z3.And(ni, PY_HASINT(z)), mk_int(PY_INTCONV(z)), "int(obj.__int__)"),
            (z3.And(ni, z3.Not(PY_HASINT(z)), PY_HASINDEX(z)), mk_int(PY_INDEX(z)), "int(obj.__index__)"),
            (z3.And(ni, z3.Not(PY_HASINT(z)), z3.Not(PY_HASINDEX(z))), exc("TypeError"), "int raises TypeError")])

    def dt_pack(self, s, fmt, args):
        if len(args) != 1 or len(fmt) != 1 or fmt not in STRUCT_RANGE:
            raise Unsupported("struct.Struct(%r).pack with %d arguments" % (fmt, len(args)))
        v = args[0]
        if v.kind == "bool":
            v = mk_int(z3.If(v.z, 1, 0))
        if v.kind != "int":
            raise Unsupported("struct pack of a %s" % v.kind)
        lo, hi = STRUCT_RANGE[fmt]
        ok = z3.And(v.z >= lo, v.z <= hi)
        return self._split(s, [(ok, SV("bytesval", None, fmt), "pack ok"),
                               (z3.Not(ok), exc("struct.error"), "pack raises struct.error")])

    def dt_isinstance(self, s, o, c):
        """isinstance(o, c) for an arbitrary object o; None if not one of the modelled classes."""
        if o.kind != "any" or c.kind not in ("cls", "func"):
            return None
        fn = {"int": PY_ISINT, "bytes": PY_ISBYTES, "_HasDefaultComparison": PY_DEFCMP}.get(c.x)
        if fn is None:
            return None
        return [(s, mk_bool(fn(o.z)))]

    # ---- spec vocabulary ------------------------------------------------------------------------
    def dt_spec(self, f, args):
        if f in GHOSTS:
            r = GHOSTS[f](args[0].z)
            return mk_bool(r) if r.sort() == BOOL else mk_int(r)
        z = args[0].z if args and args[0].kind == "any" else None
        if f == "py_numeric":        # the object denotes an integer
            return mk_bool(z3.Or(PY_ISINT(z), PY_HASINDEX(z)))
        if f == "py_numval":         # ... namely this one
            return mk_int(z3.If(PY_ISINT(z), PY_IVAL(z), PY_INDEX(z)))
        return None
