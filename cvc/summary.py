"""Per-TU call-graph summaries used by the typestate analyses: which struct
fields a function may write (transitively) and whether it may run arbitrary
Python code (any call outside capi.PURE / the TU, function pointers)."""
from . import capi

# Trusted refinements of the coarse rule "Py_DECREF may run Python": these
# functions only release objects they created or increfed themselves (listed
# in evidence as assumptions).
NO_PYTHON_OVERRIDE = {
    "getBucketEntry": "releases only objects it just created/increfed (refcount cannot reach 0 of a user object)",
}


def callee_name(c):
    while c["kind"] in ("ImplicitCastExpr", "ParenExpr", "CStyleCastExpr"):
        c = c["inner"][0]
    if c["kind"] == "DeclRefExpr":
        return c["referencedDecl"].get("name")
    if c["kind"] == "MemberExpr":
        return "->" + c["name"]
    return "?"


def direct(fn, fieldmap=None):
    fieldmap = fieldmap or {}
    writes, calls = set(), set()
    todo = [fn]
    while todo:
        n = todo.pop()
        k = n.get("kind")
        tgt = None
        if k == "CallExpr":
            calls.add(callee_name(n["inner"][0]))
        elif (k == "BinaryOperator" and n.get("opcode") == "=") or k == "CompoundAssignOperator":
            tgt = n["inner"][0]
        elif k == "UnaryOperator" and n.get("opcode") in ("++", "--"):
            tgt = n["inner"][0]
        if tgt is not None:
            t = tgt
            while t["kind"] in ("ParenExpr", "ImplicitCastExpr", "CStyleCastExpr"):
                t = t["inner"][0]
            if t["kind"] == "MemberExpr":
                # a[i].f and p->f both write field f; p->s.f writes "s.f"
                b = t["inner"][0]
                while b["kind"] in ("ParenExpr",):
                    b = b["inner"][0]
                if t.get("isArrow") or b["kind"] in ("ArraySubscriptExpr", "UnaryOperator"):
                    writes.add(fieldmap.get(t.get("referencedMemberDecl"), t["name"]))
                elif b["kind"] == "MemberExpr":
                    writes.add(b["name"] + "." + t["name"])
            elif t["kind"] in ("ArraySubscriptExpr", "UnaryOperator"):
                writes.add("*")
        todo.extend(n.get("inner", []))
    return writes, calls


def summarize(tu):
    d = {f: direct(n, tu.fieldmap) for f, n in tu.functions.items()}
    python = {}
    writes = {}
    for f, (w, calls) in d.items():
        python[f] = any((c not in capi.PURE and c not in tu.functions and c not in ("->accessed",))
                        for c in calls)
        writes[f] = set(w)
        if any(c in ("memcpy", "memmove", "memset") for c in calls):
            writes[f].add("*")
    for f in NO_PYTHON_OVERRIDE:
        if f in python:
            python[f] = False
    frozen = set(NO_PYTHON_OVERRIDE)
    changed = True
    while changed:
        changed = False
        for f, (w, calls) in d.items():
            for c in calls:
                if c in tu.functions:
                    if python[c] and not python[f] and f not in frozen:
                        python[f] = True
                        changed = True
                    if not writes[c] <= writes[f]:
                        writes[f] |= writes[c]
                        changed = True
    return python, writes
