from props import _generic as g


def run(ctx):
    fns = g.run_pyvc(ctx, "C16")
    ctx.standin("refcount_rt", families=tuple("OO,OI,IO".split(",")))
    return "exploration", "bounded stand-in refcount_rt (no obligation of the deductive engines serves C16 yet)"
