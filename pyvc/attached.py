"""`attached:*` obligations: facts about how _module_builder.py and
_datatypes.py wire the pure-Python classes, read from the real source with
`ast` on every run.  Engine P relies on them when it resolves
getattr(o, 'MERGE') etc.; they are syntactic checks (solver '-')."""
import ast
import os

from lib.common import Obligation

REPO = os.environ.get("VERIF_REPO", "/repo")
SRC = os.path.join(REPO, "src", "BTrees")


def _parse(fn):
    with open(os.path.join(SRC, fn)) as f:
        return ast.parse(f.read())


def check(prop):
    out = []

    def ob(name, ok, detail):
        out.append(Obligation("pyvc", "_module_builder", "attached:" + name, "proved" if ok else "refuted",
                              solver="ast", detail=detail, model=None if ok else {"source": detail}))
    mb = _parse("_module_builder.py")
    kws = {}
    for n in ast.walk(mb):
        if isinstance(n, ast.Call) and isinstance(n.func, ast.Name) and n.func.id == "dict":
            for k in n.keywords:
                if k.arg and k.arg.startswith("MERGE"):
                    kws[k.arg] = ast.unparse(k.value)
    ob("MERGE-is-_base.MERGE", kws.get("MERGE") == "MERGE", "dict(... MERGE=%s ...)" % kws.get("MERGE"))
    ob("MERGE_WEIGHT-is-apply_weight", kws.get("MERGE_WEIGHT") == "value_datatype.apply_weight",
       "dict(... MERGE_WEIGHT=%s ...)" % kws.get("MERGE_WEIGHT"))
    ob("MERGE_DEFAULT-is-multiplication_identity", kws.get("MERGE_DEFAULT") == "value_datatype.multiplication_identity",
       "dict(... MERGE_DEFAULT=%s ...)" % kws.get("MERGE_DEFAULT"))
    dt = _parse("_datatypes.py")
    ident, bases, applyw = {}, {}, {}
    for n in dt.body:
        if isinstance(n, ast.ClassDef):
            bases[n.name] = [ast.unparse(b) for b in n.bases]
            for x in n.body:
                if isinstance(x, ast.Assign) and len(x.targets) == 1 and isinstance(x.targets[0], ast.Name) \
                        and x.targets[0].id == "multiplication_identity":
                    ident[n.name] = ast.unparse(x.value)
                if isinstance(x, ast.FunctionDef) and x.name == "apply_weight":
                    applyw[n.name] = n.name

    def lookup(cls, table):
        seen = set()
        todo = [cls]
        while todo:
            c = todo.pop(0)
            if c in seen:
                continue
            seen.add(c)
            if c in table:
                return table[c]
            todo.extend(bases.get(c, []))
        return None
    for cls, want in (("I", "1"), ("L", "1"), ("U", "1"), ("Q", "1"), ("F", "1.0")):
        got = lookup(cls, ident)
        ob("multiplication_identity[%s]==%s" % (cls, want), got == want, "_datatypes.%s.multiplication_identity = %s" % (cls, got))
        aw = lookup(cls, applyw)
        ob("apply_weight[%s]-is-native" % cls, aw == "_AbstractNativeDataType", "_datatypes.%s.apply_weight defined by %s" % (cls, aw))
    return out
