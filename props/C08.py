"""C08 - concurrent transactions on a tree merge, serialize or conflict - nothing else."""
from props import _generic as g


def run(ctx):
    fns = g.run_pyvc(ctx, "C08")
    fams = ["II", "OO"] if ctx.tier == "quick" else ["II", "OO", "LF", "QQ", "fs", "IO"]
    ctx.cvc(fams, ["T-RC"])
    ctx.standin("conc_rt", families=("OO", "II") if ctx.tier == "quick" else ("OO", "II", "LF", "QQ", "fs"))
    return "other", (
        "Second sentence of the statement, proved for all trees in both implementations: Python _Tree._set/_del "
        "call readCurrent(self) before every descent when the node is stored (typestate view, child calls "
        "havocked), tree lookups declare none; C: T-RC on every function of the translation units (%s) - "
        "_BTree_set reaches its recursive / leaf call only after cPersistenceCAPI->readCurrent(self), and no "
        "call chain from a reader reaches readCurrent. The refusal of multi-leaf states (reason 11) is proved for "
        "_get_simple_btree_bucket_state. The outcome trichotomy over schedules is NOT within this family's reach "
        "(DESIGN.md section 10): bounded stand-in conc_rt (stub optimistic commit); the leaf merges are C07 (merge_rt)." % ", ".join(fams))
