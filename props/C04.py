from props import _generic as g


def run(ctx):
    fns = g.run_pyvc(ctx, "C04")
    ctx.standin("persist_rt", families=tuple("OO,II".split(",")))
    return "proof", "Engine P obligations on %d functions of _base.py for C04 plus the bounded stand-in persist_rt" % len(fns)
