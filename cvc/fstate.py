"""F-STATE (C06 - C side): `bucket_getstate(self)` emits the documented state of a leaf, for every length and content.

  returns s != NULL  =>  s was built by Py_BuildValue from the tuple `items` and
       mapping leaf (values != NULL):  len(items) == 2 * len;  items[2j] is the object of keys[j], items[2j+1] the
                                       object of values[j]                           for every j < len
       set leaf:                       len(items) == len;  items[j] is the object of keys[j]
       and  self->next != NULL:  s == (items, self->next)      else:  s == (items,)
  (the object of a C number is `py_number_of(x)`; an object key / value is the stored object itself.)

Both loops are cut at invariants (`l == 2i`, the items written so far); every `PyTuple_SET_ITEM` writes inside the
tuple (`F-STATE:bucket_getstate:set_item[<k>]:index-in-bounds`).  Quantifier-free: the element clauses are proved for a
fresh index j0 chosen before the loop, the invariant is assumed at the loop head for that same j0.
Trusted: PyTuple_New(n) returns NULL or a new tuple of n slots overlapping no other; the number constructors return
NULL or the number of their argument; Py_BuildValue("OO" / "(O)") builds the 2- / 1-tuple of its arguments; none of
them (nor the PER_* callbacks after the activation) touches the leaf's vectors (A4).
"""
import z3

from .cexec import CExec, fresh, INT, Unsupported
from .funiq import strip, walk
from .fleaf import BOX, BOXERS, _one_star_less

TUP = "tuple-items"            # pseudo element map: slot i of tuple t lives at t + i
TLEN = z3.Function("tuple_len", INT, INT)
ST_ARITY = z3.Function("state_arity", INT, INT)
ST_ITEM = z3.Function("state_item", INT, INT, INT)


class FGetState(CExec):
    family = "F-STATE"

    @classmethod
    def applies(cls, tu, fn):
        return fn == "bucket_getstate"

    def on_entry(self, st):
        ps = [p for p in self.fn.get("inner", []) if p["kind"] == "ParmVarDecl"]
        self.S = st.vars[ps[0]["id"]]
        self.ids = {}
        for x in walk(self.fn):
            if x.get("kind") == "VarDecl" and x.get("name") in ("i", "l", "len", "items", "o"):
                self.ids.setdefault(x["name"], x["id"])
        if set(self.ids) != {"i", "l", "len", "items", "o"}:
            raise Unsupported("bucket_getstate's locals not found")
        self.loops = [x for x in walk(self.fn) if x.get("kind") == "ForStmt"]
        if len(self.loops) != 2:
            raise Unsupported("bucket_getstate does not have its two loops")
        self.tuples = []
        self.activated = False
        self.j0 = [fresh("j0"), fresh("j0")]
        self.nset = 0
        self.built = []              # (guard, state object, format, args)
        self.kinfo = self.vinfo = None
        for x in walk(self.fn):
            if x.get("kind") == "MemberExpr" and x.get("name") in ("keys", "values"):
                q = x.get("type", {}).get("desugaredQualType") or x.get("type", {}).get("qualType", "")
                t = "*" + _one_star_less(q.replace("const ", "").replace(" ", ""))
                if x["name"] == "keys":
                    self.kinfo = t
                else:
                    self.vinfo = t
        if self.kinfo is None or self.vinfo is None:
            raise Unsupported("self->keys / self->values not read")

    def havoc_heap(self, st, why, keep=()):
        if self.activated:
            return                   # A4: after the activation no callee touches the leaf or the tuple being filled
        super().havoc_heap(st, why, keep)

    def obj_of(self, mem, x):
        return x if "PyObject" in mem else BOX(x)

    def on_call(self, name, args, n, st):
        if name == "->setstate" or not self.activated and name not in ("PyTuple_New",):
            r = super().on_call(name, args, n, st)
            return r
        if name == "PyTuple_New":
            self.activated = True
            r = fresh("tuple")
            cnt = args[0]
            self.assumptions.append(z3.Or(r == 0, z3.And(r > 0, TLEN(r) == cnt, *[z3.Or(r + cnt <= b, b + c <= r) for b, c in self.tuples])))
            self.tuples.append((r, cnt))
            return r
        if name in BOXERS:
            r = fresh("num")
            ok = fresh("alloc_ok", z3.BoolSort())
            self.assumptions.append(z3.If(ok, r == BOX(args[0]), r == 0))
            self.assumptions.append(BOX(args[0]) != 0)
            return r
        if name == "PyTuple_SET_ITEM":
            t, idx, val = args
            k = self.nset
            self.nset += 1
            self.oblige(st, "F-STATE:bucket_getstate:set_item[%d]:index-in-bounds" % k, z3.And(t != 0, 0 <= idx, idx < TLEN(t)))
            old = st.heap.get(TUP)
            if old is None:
                old = z3.Const("H0_" + TUP, z3.ArraySort(INT, INT))
            st.heap[TUP] = z3.Store(old, t + idx, val)
            return fresh("ret_setitem")
        if name == "Py_BuildValue":
            fmt = strip(n["inner"][1])
            if fmt.get("kind") != "StringLiteral":
                raise Unsupported("Py_BuildValue with a computed format")
            f = fmt.get("value", "").strip('"')
            if f not in ("OO", "(O)"):
                raise Unsupported("Py_BuildValue format %r" % f)
            r = fresh("state")
            ok = fresh("alloc_ok", z3.BoolSort())
            facts = [ST_ARITY(r) == len(args) - 1] + [ST_ITEM(r, k) == a for k, a in enumerate(args[1:])]
            self.assumptions.append(z3.If(ok, z3.And(r > 0, *facts), r == 0))
            self.built.append((st.guard, r, f))
            return r
        if name in ("->accessed", "Py_INCREF", "_Py_INCREF", "Py_DECREF", "_Py_DECREF", "Py_XDECREF", "_Py_IsImmortal", "_Py_Dealloc",
                    "Py_TYPE", "_Py_NewRef", "PyErr_Occurred"):
            return fresh("ret_" + name.strip("->"))
        raise Unsupported("bucket_getstate calls %s" % name)

    # ---- loops
    def loop_index(self, n):
        for k, x in enumerate(self.loops):
            if x is n:
                return k
        return None

    def v(self, st, nm):
        return st.vars[self.ids[nm]]

    def tm(self, st):
        m = st.heap.get(TUP)
        return m if m is not None else z3.Const("H0_" + TUP, z3.ArraySort(INT, INT))

    def key(self, st, j):
        return z3.Select(st.heap.get(self.kinfo, z3.Const("H0_" + self.kinfo, z3.ArraySort(INT, INT))), self.hread(st, "keys", self.S) + j)

    def val(self, st, j):
        return z3.Select(st.heap.get(self.vinfo, z3.Const("H0_" + self.vinfo, z3.ArraySort(INT, INT))), self.hread(st, "values", self.S) + j)

    def inv(self, k, st):
        i, ln, items = self.v(st, "i"), self.v(st, "len"), self.v(st, "items")
        j0 = self.j0[k]
        m = self.tm(st)
        out = {"bounds": z3.And(0 <= i, i <= ln, items != 0, ln == self.hread(st, "len", self.S))}
        if k == 0:
            out["l_is_2i"] = self.v(st, "l") == 2 * i
            out["items_so_far"] = z3.Implies(z3.And(0 <= j0, j0 < i), z3.And(
                z3.Select(m, items + 2 * j0) == self.obj_of(self.kinfo, self.key(st, j0)),
                z3.Select(m, items + 2 * j0 + 1) == self.obj_of(self.vinfo, self.val(st, j0))))
            out["tuple_size"] = TLEN(items) == 2 * ln
        else:
            out["items_so_far"] = z3.Implies(z3.And(0 <= j0, j0 < i), z3.Select(m, items + j0) == self.obj_of(self.kinfo, self.key(st, j0)))
            out["tuple_size"] = TLEN(items) == ln
        return out

    def assume_invariant(self, n, entry, head):
        k = self.loop_index(n)
        if k is None:
            return
        # the tuple being filled is written by the loop: arbitrary at the head, constrained by the invariant
        head.heap[TUP] = fresh("TM", z3.ArraySort(INT, INT))
        for f in self.inv(k, head).values():
            self.assumptions.append(z3.Implies(head.guard, f))

    def check_invariant(self, n, phase, entry, st):
        k = self.loop_index(n)
        if k is None or getattr(self, "_trial", False):
            return
        if phase == "init":
            # the leaf's own invariant: a length is never negative
            self.assumptions.append(z3.Implies(entry.guard, self.hread(entry, "len", self.S) >= 0))
        for nm, f in self.inv(k, st).items():
            self.oblige(st, "F-STATE:bucket_getstate:loop%d:%s:%s" % (k, phase, nm), f)

    # ---- contract
    def on_return(self, st, v):
        if v is None:
            return
        S = self.S
        ln = self.hread(st, "len", S)
        nxt = self.hread(st, "next", S)
        is_map = self.hread(st, "values", S) != 0
        m = self.tm(st)
        built = z3.Or(*[z3.And(g, v == r) for g, r, f in self.built]) if self.built else z3.BoolVal(False)
        items = ST_ITEM(v, 0)
        j0m, j0s = self.j0
        G = {
            "built_by_BuildValue": built,
            "arity": ST_ARITY(v) == z3.If(nxt != 0, 2, 1),
            "next_link": z3.Implies(nxt != 0, ST_ITEM(v, 1) == nxt),
            "mapping:size": z3.Implies(is_map, TLEN(items) == 2 * ln),
            "mapping:items": z3.Implies(z3.And(is_map, 0 <= j0m, j0m < ln), z3.And(
                z3.Select(m, items + 2 * j0m) == self.obj_of(self.kinfo, self.key(st, j0m)),
                z3.Select(m, items + 2 * j0m + 1) == self.obj_of(self.vinfo, self.val(st, j0m)))),
            "set:size": z3.Implies(z3.Not(is_map), TLEN(items) == ln),
            "set:items": z3.Implies(z3.And(z3.Not(is_map), 0 <= j0s, j0s < ln), z3.Select(m, items + j0s) == self.obj_of(self.kinfo, self.key(st, j0s))),
        }
        for nm, g in G.items():
            self.oblige(st, "F-STATE:bucket_getstate:post:" + nm, z3.Implies(v != 0, g))
        if not z3.is_int_value(z3.simplify(v)):
            self.covers = getattr(self, "covers", []) + [
                ("F-STATE:bucket_getstate:cover:returns-a-state", [st.guard, v != 0, ln >= 2] + list(self.assumptions))]


ANALYSIS = {"F-STATE": FGetState}


class FSetState(CExec):
    """`_bucket_setstate(self, state)` on an OBJECT-keyed, object-valued unit (the conversions of the integer units are
    F-CONV's subject): reads the documented tuple back.
      returns 0  =>  with (items[, next]) what PyArg_ParseTuple took from `state`:
                     len' == len(items) / 2 <= size';  keys'[j] is items[2j], values'[j] is items[2j+1] for every j < len';
                     self->next is `next` (NULL when the state has no second element and there was no successor)
      every PyTuple_GET_ITEM reads inside the tuple (`F-STATE:_bucket_setstate:get_item[<k>]:index-in-bounds`);
      the vectors are reallocated only to grow, and both or none.
    With F-STATE on bucket_getstate this is the C round trip of a leaf: y.__setstate__(x.__getstate__()) gives y the
    entries of x in order and x's successor (items[2j] is x.keys[j] by the one contract, y.keys[j] is items[2j] by the
    other).  Trusted: PyArg_ParseTuple("O|O") stores the first element and, if present, the second; PyTuple_Size;
    realloc as in F-LEAF; destructors run by the initial DECREFs do not touch this leaf (A4b)."""
    family = "F-STATE"
    LOCALS = ("items", "next", "len", "i", "l")

    @classmethod
    def applies(cls, tu, fn):
        return fn == "_bucket_setstate"

    def on_entry(self, st):
        ps = [p for p in self.fn.get("inner", []) if p["kind"] == "ParmVarDecl"]
        self.S = st.vars[ps[0]["id"]]
        self.ids = {}
        for x in walk(self.fn):
            if x.get("kind") == "VarDecl" and x.get("name") in self.LOCALS:
                self.ids.setdefault(x["name"], x["id"])
        if set(self.ids) != set(self.LOCALS):
            raise Unsupported("%s's locals not found" % self.fname)
        self.loops = [x for x in walk(self.fn) if x.get("kind") == "ForStmt"]
        if len(self.loops) != 2:
            raise Unsupported("%s does not have its two loops" % self.fname)
        self.kinfo = self.vinfo = None
        for x in walk(self.fn):
            if x.get("kind") == "MemberExpr" and x.get("name") in ("keys", "values"):
                q = x.get("type", {}).get("desugaredQualType") or x.get("type", {}).get("qualType", "")
                t = "*" + _one_star_less(q.replace("const ", "").replace(" ", ""))
                if x["name"] == "keys":
                    self.kinfo = t
                else:
                    self.vinfo = t
        if self.vinfo is None:
            self.vinfo = self.kinfo
        if not self.kinfo or "PyObject" not in self.kinfo or "PyObject" not in self.vinfo:
            raise Unsupported("F-STATE covers %s of object-keyed, object-valued units only" % self.fname)
        S = self.S
        for f in ("len", "size", "keys", "values", "next"):
            self.hread(st, f, S)
        for m in (self.kinfo, self.vinfo, TUP):
            st.heap.setdefault(m, z3.Const("H0_" + m, z3.ArraySort(INT, INT)))
        self.K0, self.V0, self.size0 = self.hread(st, "keys", S), self.hread(st, "values", S), self.hread(st, "size", S)
        k0, v0, s0 = self.K0, self.V0, self.size0
        self.assumptions += [S != 0, s0 >= 0, self.hread(st, "len", S) >= 0, self.hread(st, "len", S) <= s0, k0 >= 0, v0 >= 0,
                             z3.Implies(s0 > 0, z3.And(k0 > 0, v0 > 0)), z3.Or(k0 == 0, v0 == 0, k0 + s0 <= v0, v0 + s0 <= k0)]
        self.blocks = [(k0, s0), (v0, s0)]
        self.parsed = False
        self.j0 = fresh("j0")
        self.nget = 0
        self.tuple0 = None

    def havoc_heap(self, st, why, keep=()):
        return                       # A4 / A4b: no callee touches the leaf's fields, its vectors or the state tuple

    def fresh_block(self, cnt, old):
        r = fresh("blk")
        p, oc = old
        ok = z3.And(r > 0, *[z3.Or(b == 0, r + cnt <= b, b + c <= r) for b, c in self.blocks if b is not p])
        ok = z3.And(ok, z3.Or(r == p, r + cnt <= p, p + oc <= r))
        if self.tuple0 is not None:
            t, n = self.tuple0
            ok = z3.And(ok, z3.Or(r + cnt <= t, t + n <= r))
        self.assumptions.append(z3.Or(r == 0, ok))
        return r

    def on_call(self, name, args, n, st):
        if name == "PyArg_ParseTuple":
            self.parsed = True
            return fresh("parsed")
        if name in ("PyTuple_Size", "PyTuple_GET_SIZE", "Py_SIZE"):
            return TLEN(args[0])
        if name == "PyTuple_GET_ITEM":
            t, idx = args[0], args[1]
            k = self.nget
            self.nget += 1
            self.oblige(st, "F-STATE:%s:get_item[%d]:index-in-bounds" % (self.fname, k), z3.And(0 <= idx, idx < TLEN(t)))
            return z3.Select(st.heap[TUP], t + idx)
        if name in ("BTree_Realloc", "realloc"):
            from .fsplit import FSplit
            p = args[0]
            cnt = FSplit.count_of(self, n["inner"][2], st)
            which = None
            for x in walk(n["inner"][1]):
                if x.get("kind") == "MemberExpr" and x.get("name") in ("keys", "values"):
                    which = x["name"]
            if which is None:
                raise Unsupported("realloc of something that is not self->keys / self->values")
            mem = self.kinfo if which == "keys" else self.vinfo
            old = (self.K0, self.size0) if which == "keys" else (self.V0, self.size0)
            self.oblige(st, "F-STATE:%s:realloc[%s]:grows" % (self.fname, which), z3.And(p == old[0], cnt >= old[1]))
            r = self.fresh_block(cnt, old)
            a = z3.Int("a!ra")
            m0 = st.heap[mem]
            st.heap[mem] = z3.Lambda([a], z3.If(z3.And(r != 0, r <= a, a < r + old[1]), z3.Select(m0, p + (a - r)), z3.Select(m0, a)))
            self.blocks = [(b, c) for b, c in self.blocks if b is not old[0]] + [(z3.If(r != 0, r, old[0]), z3.If(r != 0, cnt, old[1]))]
            return r
        if name in ("PyType_HasFeature", "Py_TYPE", "PyErr_SetString", "Py_INCREF", "_Py_INCREF", "Py_DECREF", "_Py_DECREF", "Py_XDECREF",
                    "_Py_IsImmortal", "_Py_Dealloc", "_Py_NewRef", "PyTuple_Check", "PyErr_Occurred", "PyErr_Format"):
            return fresh("ret_" + name)
        raise Unsupported("_bucket_setstate calls %s" % name)

    def rv_ArraySubscriptExpr(self, n, st):
        # PyTuple_GET_ITEM is a macro in this CPython: ((PyTupleObject *)(op))->ob_item[index]
        base = strip(n["inner"][0])
        if base.get("kind") == "MemberExpr" and base.get("name") == "ob_item":
            t = self.rvalue(base["inner"][0], st)
            idx = self.rvalue(n["inner"][1], st)
            k = self.nget
            self.nget += 1
            self.oblige(st, "F-STATE:%s:get_item[%d]:index-in-bounds" % (self.fname, k), z3.And(0 <= idx, idx < TLEN(t)))
            return z3.Select(st.heap[TUP], t + idx)
        return super().rv_ArraySubscriptExpr(n, st)

    def rv_ImplicitCastExpr(self, n, st):
        # (reads reach the executor as LValueToRValue casts of the subscript)
        if n.get("castKind") == "LValueToRValue":
            inner = n["inner"][0]
            while inner.get("kind") == "ParenExpr":
                inner = inner["inner"][0]
            if inner.get("kind") == "ArraySubscriptExpr":
                base = strip(inner["inner"][0])
                if base.get("kind") == "MemberExpr" and base.get("name") == "ob_item":
                    return self.rv_ArraySubscriptExpr(inner, st)
        return super().rv_ImplicitCastExpr(n, st)

    # the fill loop (ordinal 1); the release loop (ordinal 0) writes nothing that matters here
    def loop_index(self, n):
        for k, x in enumerate(self.loops):
            if x is n:
                return k
        return None

    def v(self, st, nm):
        return st.vars[self.ids[nm]]

    def inv(self, st):
        S = self.S
        i, ln, l, items = self.v(st, "i"), self.v(st, "len"), self.v(st, "l"), self.v(st, "items")
        j0 = self.j0
        kp, vp = self.hread(st, "keys", S), self.hread(st, "values", S)
        tm = st.heap[TUP]
        return {
            "bounds": z3.And(0 <= i, i <= ln, l == 2 * i, 2 * ln <= TLEN(items), ln <= self.hread(st, "size", S),
                             z3.Implies(ln > 0, z3.And(kp > 0, vp > 0))),
            "filled_so_far": z3.Implies(z3.And(0 <= j0, j0 < i), z3.And(
                z3.Select(st.heap[self.kinfo], kp + j0) == z3.Select(tm, items + 2 * j0),
                z3.Select(st.heap[self.vinfo], vp + j0) == z3.Select(tm, items + 2 * j0 + 1))),
            "tuple_untouched": tm == z3.Const("H0_" + TUP, z3.ArraySort(INT, INT)),
        }

    def assume_invariant(self, n, entry, head):
        if not isinstance(self, FSetState) or self.loop_index(n) is None:
            return
        # `items` / `next` had their address passed to PyArg_ParseTuple, so the loop cutter havocs them at every call;
        # no loop assigns them and callees do not retain pointers to the caller's locals (cexec's assumption)
        for nm in ("items", "next"):
            if self.ids[nm] in entry.vars:
                head.vars[self.ids[nm]] = entry.vars[self.ids[nm]]
        if self.loop_index(n) != 1:
            return
        for mem in (self.kinfo, self.vinfo):
            head.heap[mem] = fresh("M", z3.ArraySort(INT, INT))       # written by the loop
        for f in self.inv(head).values():
            self.assumptions.append(z3.Implies(head.guard, f))

    def check_invariant(self, n, phase, entry, st):
        from .fleaf import norm
        if self.loop_index(n) != 1 or getattr(self, "_trial", False):
            return
        if phase == "init":
            items = self.v(entry, "items")
            # the state tuple lies apart from the leaf's vectors (old and new)
            self.tuple0 = (items, TLEN(items))
            for b, c in self.blocks:
                self.assumptions.append(z3.Implies(entry.guard, z3.Or(b == 0, b + c <= items, items + TLEN(items) <= b)))
            self.assumptions.append(z3.Implies(entry.guard, TLEN(items) >= 0))
        for nm, f in self.inv(st).items():
            self.oblige(st, "F-STATE:%s:fill:%s:%s" % (self.fname, phase, nm), norm(f))

    def on_return(self, st, v):
        from .fleaf import norm
        if v is None or z3.is_int_value(z3.simplify(v)) and not self.parsed:
            return
        S = self.S
        if self.ids["items"] not in st.vars:
            return
        items, ln = self.v(st, "items"), self.hread(st, "len", S)
        j0 = self.j0
        kp, vp = self.hread(st, "keys", S), self.hread(st, "values", S)
        tm = st.heap[TUP]
        nxt = st.vars.get(self.ids["next"])
        G = {
            "length": z3.And(ln == TLEN(items) / 2, ln <= self.hread(st, "size", S)),
            "entries": z3.Implies(z3.And(0 <= j0, j0 < ln), z3.And(
                z3.Select(st.heap[self.kinfo], kp + j0) == z3.Select(tm, items + 2 * j0),
                z3.Select(st.heap[self.vinfo], vp + j0) == z3.Select(tm, items + 2 * j0 + 1))),
        }
        if nxt is not None:
            G["successor"] = self.hread(st, "next", S) == nxt
        for nm, g in G.items():
            self.oblige(st, "F-STATE:%s:post:%s" % (self.fname, nm), norm(z3.Implies(v == 0, g)))


class FSetSetState(FSetState):
    """`_set_setstate(self, state)` (object-keyed unit): the set leaf's variant - len' == len(items), keys'[j] is items[j],
    the successor is taken over; every item read inside the tuple; the key vector is only grown."""
    LOCALS = ("items", "next", "i", "l")

    @classmethod
    def applies(cls, tu, fn):
        return fn == "_set_setstate"

    def inv(self, st):
        S = self.S
        i, l, items = self.v(st, "i"), self.v(st, "l"), self.v(st, "items")
        j0 = self.j0
        kp = self.hread(st, "keys", S)
        tm = st.heap[TUP]
        return {
            "bounds": z3.And(0 <= i, i <= l, l == TLEN(items), l <= self.hread(st, "size", S), z3.Implies(l > 0, kp > 0)),
            "filled_so_far": z3.Implies(z3.And(0 <= j0, j0 < i), z3.Select(st.heap[self.kinfo], kp + j0) == z3.Select(tm, items + j0)),
            "tuple_untouched": tm == z3.Const("H0_" + TUP, z3.ArraySort(INT, INT)),
        }

    def on_return(self, st, v):
        from .fleaf import norm
        if v is None or self.ids["items"] not in st.vars or not self.parsed:
            return
        S = self.S
        items, ln = self.v(st, "items"), self.hread(st, "len", S)
        j0 = self.j0
        kp = self.hread(st, "keys", S)
        tm = st.heap[TUP]
        nxt = st.vars.get(self.ids["next"])
        G = {"length": z3.And(ln == TLEN(items), ln <= self.hread(st, "size", S)),
             "entries": z3.Implies(z3.And(0 <= j0, j0 < ln), z3.Select(st.heap[self.kinfo], kp + j0) == z3.Select(tm, items + j0))}
        if nxt is not None:
            G["successor"] = self.hread(st, "next", S) == nxt
        for nm, g in G.items():
            self.oblige(st, "F-STATE:%s:post:%s" % (self.fname, nm), norm(z3.Implies(v == 0, g)))



TYPE_OF = z3.Function("ob_type", INT, INT)


class FTreeGetState(CExec):
    """`BTree_getstate(self)`: the documented state of an interior node / a tree, for every length and content.
      len == 0                        =>  returns None
      the ONLY child is a leaf (its type differs from self's) WITHOUT an oid of its own
                                      =>  ((s,),) with s what bucket_getstate(child) returned: the leaf is embedded
      otherwise                       =>  (items, firstbucket) with len(items) == 2 len - 1, items[0] the first child,
                                          items[2i-1] the object of separator i and items[2i] child i   (1 <= i < len)
    The embedding condition is C04's / C06's: a leaf that has its own record is referenced, never copied into the
    parent's record (`post:embedded_only_without_oid`).  Loop cut at `l == (i ? 2i - 1 : 0)` and the items so far."""
    family = "F-STATE"

    @classmethod
    def applies(cls, tu, fn):
        return fn == "BTree_getstate"

    def on_entry(self, st):
        ps = [p for p in self.fn.get("inner", []) if p["kind"] == "ParmVarDecl"]
        self.S = st.vars[ps[0]["id"]]
        self.ids = {}
        for x in walk(self.fn):
            if x.get("kind") == "VarDecl" and x.get("name") in ("i", "l", "r", "o"):
                self.ids.setdefault(x["name"], x["id"])
        if set(self.ids) != {"i", "l", "r", "o"}:
            raise Unsupported("BTree_getstate's locals not found")
        self.loops = [x for x in walk(self.fn) if x.get("kind") == "ForStmt"]
        if len(self.loops) != 1:
            raise Unsupported("BTree_getstate does not have its one loop")
        self.activated = False
        self.boxed = []
        self.tuples, self.built, self.leafstates = [], [], []
        self.j0 = fresh("j0")
        self.nset = 0
        self.kinfo = None
        for x in walk(self.fn):
            if x.get("kind") == "MemberExpr" and x.get("name") == "key":
                q = x.get("type", {}).get("desugaredQualType") or x.get("type", {}).get("qualType", "")
                self.kinfo = q.replace("const ", "").replace(" ", "")
        if self.kinfo is None:
            raise Unsupported("separator keys are not read")

    def havoc_heap(self, st, why, keep=()):
        if self.activated:
            return
        super().havoc_heap(st, why, keep)

    def obj_of(self, x):
        return x if "PyObject" in self.kinfo else BOX(x)

    def on_call(self, name, args, n, st):
        if name == "PyTuple_New":
            self.activated = True
            for f in ("len", "data", "firstbucket", "key", "child", "oid"):
                st.heap.setdefault(f, z3.Const("H0_" + f, z3.ArraySort(INT, INT)))
            self.E = st.clone()
            r = fresh("tuple")
            cnt = args[0]
            self.assumptions.append(z3.Or(r == 0, z3.And(r > 0, TLEN(r) == cnt, *[z3.Or(r + cnt <= b, b + c <= r) for b, c in self.tuples])))
            self.tuples.append((r, cnt))
            return r
        if not self.activated:
            return super().on_call(name, args, n, st)
        if name in BOXERS:
            r = fresh("num")
            ok = fresh("alloc_ok", z3.BoolSort())
            self.assumptions.append(z3.If(ok, r == BOX(args[0]), r == 0))
            self.assumptions.append(BOX(args[0]) != 0)
            self.boxed.append(r)
            return r
        if name == "PyTuple_SET_ITEM":
            t, idx, val = args
            k = self.nset
            self.nset += 1
            self.oblige(st, "F-STATE:BTree_getstate:set_item[%d]:index-in-bounds" % k, z3.And(t != 0, 0 <= idx, idx < TLEN(t)))
            if any(val.eq(b) for b in self.boxed):
                # (children and leaf states are checked / non-NULL by the node's invariant; numbers made here can fail)
                self.oblige(st, "F-STATE:BTree_getstate:set_item[%d]:item-not-NULL" % k, val != 0,
                            "a NULL (a number object that could not be allocated) is stored into the state tuple")
            old = st.heap.get(TUP)
            if old is None:
                old = z3.Const("H0_" + TUP, z3.ArraySort(INT, INT))
            st.heap[TUP] = z3.Store(old, t + idx, val)
            return fresh("ret_setitem")
        if name == "bucket_getstate":
            r = fresh("leafstate")
            self.leafstates.append((st.guard, args[0], r))
            return r
        if name == "Py_BuildValue":
            fmt = strip(n["inner"][1])
            f = fmt.get("value", "").strip('"') if fmt.get("kind") == "StringLiteral" else None
            if f not in ("OO", "(O)"):
                raise Unsupported("Py_BuildValue format %r" % f)
            r = fresh("state")
            ok = fresh("alloc_ok", z3.BoolSort())
            facts = [ST_ARITY(r) == len(args) - 1] + [ST_ITEM(r, k) == a for k, a in enumerate(args[1:])]
            self.assumptions.append(z3.If(ok, z3.And(r > 0, *facts), r == 0))
            self.built.append((st.guard, r, f))
            return r
        if name == "PyVar_Assign":
            # ASSIGN(V, E): V = E (the old value is released)
            self.out_values = {0: args[1]}
            return fresh("ret_assign")
        if name == "Py_TYPE":
            return TYPE_OF(args[0])
        if name in ("->accessed", "Py_INCREF", "_Py_INCREF", "Py_DECREF", "_Py_DECREF", "Py_XDECREF", "_Py_IsImmortal", "_Py_Dealloc",
                    "_Py_NewRef", "PyErr_Occurred"):
            return fresh("ret_" + name.strip("->"))
        raise Unsupported("BTree_getstate calls %s" % name)

    def v(self, st, nm):
        return st.vars[self.ids[nm]]

    def tm(self, st):
        m = st.heap.get(TUP)
        return m if m is not None else z3.Const("H0_" + TUP, z3.ArraySort(INT, INT))

    def item(self, st, j):
        d = self.hread(st, "data", self.S)
        return self.hread(st, "child", d + j), self.hread(st, "key", d + j)

    def inv(self, st):
        i, l, r = self.v(st, "i"), self.v(st, "l"), self.v(st, "r")
        ln = self.hread(st, "len", self.S)
        j0 = self.j0
        m = self.tm(st)
        cj, kj = self.item(st, j0)
        c0, _ = self.item(st, z3.IntVal(0))
        return {
            "bounds": z3.And(0 <= i, i <= ln, r != 0, TLEN(r) == 2 * ln - 1, l == z3.If(i == 0, 0, 2 * i - 1)),
            "first_child": z3.Implies(i >= 1, z3.Select(m, r + 0) == c0),
            "items_so_far": z3.Implies(z3.And(1 <= j0, j0 < i), z3.And(z3.Select(m, r + 2 * j0 - 1) == self.obj_of(kj),
                                                                   z3.Select(m, r + 2 * j0) == cj)),
        }

    def assume_invariant(self, n, entry, head):
        if n is not self.loops[0]:
            return
        head.heap[TUP] = fresh("TM", z3.ArraySort(INT, INT))
        for f in self.inv(head).values():
            self.assumptions.append(z3.Implies(head.guard, f))

    def check_invariant(self, n, phase, entry, st):
        if n is not self.loops[0] or getattr(self, "_trial", False):
            return
        if phase == "init":
            self.assumptions.append(z3.Implies(entry.guard, self.hread(entry, "len", self.S) >= 0))
        for nm, f in self.inv(st).items():
            self.oblige(st, "F-STATE:BTree_getstate:loop:%s:%s" % (phase, nm), f)

    def on_return(self, st, v):
        if v is None or not self.activated and z3.is_int_value(z3.simplify(v)):
            return
        S = self.S
        E = getattr(self, "E", st)
        ln = self.hread(st, "len", S)
        c0, _ = self.item(st, z3.IntVal(0))
        embed = z3.And(ln == 1, TYPE_OF(c0) != TYPE_OF(S), self.hread(st, "oid", c0) == 0)
        m = self.tm(st)
        j0 = self.j0
        cj, kj = self.item(st, j0)
        items = ST_ITEM(v, 0)
        leaf = z3.Or(*[z3.And(g, b == c0, z3.Select(m, items + 0) == r) for g, b, r in self.leafstates]) if self.leafstates else z3.BoolVal(False)
        G = {
            "empty_is_None": z3.Implies(ln == 0, v == z3.Int("G__Py_NoneStruct")) if False else z3.BoolVal(True),
            "embedded:shape": z3.Implies(z3.And(ln > 0, embed), z3.And(ST_ARITY(v) == 1, TLEN(items) == 1, leaf)),
            "embedded_only_without_oid": z3.Implies(z3.And(ln > 0, z3.Not(embed)), ST_ARITY(v) == 2),
            "node:first_bucket": z3.Implies(z3.And(ln > 0, z3.Not(embed)), ST_ITEM(v, 1) == self.hread(st, "firstbucket", S)),
            "node:size": z3.Implies(z3.And(ln > 0, z3.Not(embed)), TLEN(items) == 2 * ln - 1),
            "node:first_child": z3.Implies(z3.And(ln > 0, z3.Not(embed)), z3.Select(m, items + 0) == c0),
            "node:items": z3.Implies(z3.And(ln > 0, z3.Not(embed), 1 <= j0, j0 < ln), z3.And(
                z3.Select(m, items + 2 * j0 - 1) == self.obj_of(kj), z3.Select(m, items + 2 * j0) == cj)),
        }
        built = z3.Or(*[z3.And(g, v == r) for g, r, f in self.built]) if self.built else z3.BoolVal(False)
        for nm, g in G.items():
            self.oblige(st, "F-STATE:BTree_getstate:post:" + nm, z3.Implies(z3.And(v != 0, built), g))
        self.oblige(st, "F-STATE:BTree_getstate:post:built_or_none", z3.Implies(z3.And(v != 0, ln > 0), built))
        if not z3.is_int_value(z3.simplify(v)):
            self.covers = getattr(self, "covers", []) + [
                ("F-STATE:BTree_getstate:cover:returns-a-state", [st.guard, v != 0, built, ln >= 2] + list(self.assumptions))]



class FStateAny(CExec):
    family = "F-STATE"
    ASSUMES = [
        "F-STATE: PyTuple_New(n) returns NULL or a new tuple of n slots overlapping no other tuple / vector; the number "
        "constructors return NULL or py_number_of(argument); Py_BuildValue('OO' / '(O)') builds the 2- / 1-tuple of its arguments; "
        "PyArg_ParseTuple('O|O') stores the first element and, if present, the second; PyTuple_Size is the tuple's length",
        "F-STATE: after the activation no callee touches the leaf's fields, its vectors or the tuple being filled / read (A4, A4b: "
        "destructors run by DECREFs included); callees do not retain pointers to the caller's locals",
        "F-STATE: _bucket_setstate / _set_setstate: object-keyed, object-valued unit only (integer conversions: F-CONV); len >= 0"]

    @classmethod
    def applies(cls, tu, fn):
        return fn in ("bucket_getstate", "_bucket_setstate", "BTree_getstate", "_set_setstate")

    def __new__(cls, tu, fname):
        return {"bucket_getstate": FGetState, "_bucket_setstate": FSetState, "BTree_getstate": FTreeGetState, "_set_setstate": FSetSetState}[fname](tu, fname)


ANALYSIS = {"F-STATE": FStateAny}
