"""C05 - evicting nodes from the object cache never changes behaviour."""
QUICK = ["II", "OO", "LF", "fs"]
ALL = "IO II IF IU UO UU UF UI LO LL LF LQ QO QQ QF QL OO OI OU OL OQ fs".split()


def run(ctx):
    fams = QUICK if ctx.tier == "quick" else ALL
    ctx.cvc(fams, ["T-PIN"])
    ctx.standin("evict_rt", families=("OO", "II") if ctx.tier == "quick" else ("OO", "II", "LF", "QQ", "fs"))
    return "proof", (
        "T-PIN: for every function definition of the translation units (%s), on every exit, "
        "normal or error: forall o: state'[o]==STICKY ==> state[o]==STICKY over the real ->state "
        "field written by the PER_USE/PER_UNUSE expansions (clang AST of the preprocessed TU, "
        "state merging at joins, loops cut at an inferred invariant, callees by the same contract). "
        "This is the third sentence of the property (nothing stays pinned, also on failing calls). "
        "Transparent reload and protection during comparisons are exercised by the bounded stand-in "
        "evict_rt (cache sweeps between operations and inside key comparisons)." % ", ".join(fams))
