"""Shared result model, evidence writer, known-findings matching and the
per-check driver.  See DESIGN.md section 6.

Exit codes of a check:  0 held / 1 violation (VIOLATION line printed) /
2 undecided (an obligation neither proved nor refuted) / 3 checker error.
`unknown`, time-outs and tracebacks are never mapped to a violation.
"""
import dataclasses
import fnmatch
import json
import os
import subprocess
import sys
import time
import traceback

VERIF = os.path.dirname(os.path.dirname(os.path.abspath(__file__)))
REPO = os.environ.get("VERIF_REPO", "/repo")
PY = os.path.join(VERIF, ".venv", "bin", "python")


# --------------------------------------------------------------------------
# result model

@dataclasses.dataclass
class Obligation:
    """One verification condition generated from the real source."""
    engine: str            # 'pyvc' | 'cvc'
    function: str          # qualified name of the function under contract
    name: str              # stable obligation name (function + clause [+ path])
    status: str            # 'proved' | 'refuted' | 'unknown' | 'error'
    solver: str = ""
    time_s: float = 0.0
    model: dict = None     # counter-model (refuted) – input to the replayer
    detail: str = ""       # solver output / reason
    key: str = ""          # key used for known-finding matching (default name)
    smt2: str = ""         # optional: the query, kept for evidence samples
    replay: dict = None    # filled by the replayer: {'script':..,'outcome':..,'reproduced':bool}

    def k(self):
        return self.key or self.name


@dataclasses.dataclass
class Failure:
    """A contract that fired in a bounded stand-in (run-time contract)."""
    key: str               # classification used for known-finding matching
    desc: str              # one line: what failed
    repro: dict = None     # concrete input / history, replayable natively
    script: str = ""       # python source that reproduces it on the build


@dataclasses.dataclass
class Standin:
    """Result of a bounded stand-in: never counted as proved."""
    name: str
    bound: str
    evaluations: int = 0
    distinct_nontrivial: int = 0
    rule: str = ""
    samples: list = dataclasses.field(default_factory=list)
    failures: list = dataclasses.field(default_factory=list)
    exhaustive: bool = False
    functions: list = dataclasses.field(default_factory=list)
    wall_s: float = 0.0
    error: str = ""        # checker error inside the stand-in (not a violation)


class CheckerError(Exception):
    pass


# --------------------------------------------------------------------------
# known findings

def load_known():
    p = os.path.join(VERIF, "known_findings.json")
    if not os.path.exists(p):
        return []
    with open(p) as f:
        return json.load(f)["entries"]


def load_baseline(prop):
    """Names of the obligations that were DISCHARGED on the unchanged tree
    (committed file baseline/proved.json, written by tools/mkbaseline.py from a
    clean run).  An obligation of this list that the solver can no longer
    discharge is reported as a violation (without a failing input if the
    refuter finds none); an undischarged obligation that never was proved
    stays `undecided`."""
    p = os.path.join(VERIF, "baseline", "proved.json")
    if not os.path.exists(p):
        return set()
    with open(p) as f:
        return set(json.load(f).get(prop, []))


def match_known(entries, prop, key):
    """Only entries of kind 'finding' suppress; 'fixed' entries never do."""
    for e in entries:
        if e.get("kind") != "finding" or e.get("property") != prop:
            continue
        pats = e.get("keys") or [e.get("key")]
        for pat in pats:
            if pat and (pat == key or fnmatch.fnmatchcase(key, pat)):
                return e
    return None


# --------------------------------------------------------------------------
# context handed to props/Cxx.py

class Ctx:
    def __init__(self, prop, tier, seed):
        self.prop = prop
        self.tier = tier
        self.seed = seed
        self.obligations = []
        self.standins = []
        self.functions_under_contract = []   # verified by an engine
        self.assumptions = []
        self.trusted = []
        self.notes = []
        self.solver_time = {}
        self.t0 = time.time()

    # -- engines ----------------------------------------------------------
    def pyvc(self, targets, mode="normal", tags=None):
        from pyvc import run as pyrun
        res = pyrun.verify(targets, tier=self.tier, mode=mode, tags=tags)
        self._absorb(res)
        return res

    def cvc(self, families, kinds, functions=None, **kw):
        from cvc import run as crun
        res = crun.verify(families, kinds, functions=functions,
                          tier=self.tier, **kw)
        self._absorb(res)
        return res

    def _absorb(self, res):
        self.obligations.extend(res.obligations)
        for f in res.functions:
            if f not in self.functions_under_contract:
                self.functions_under_contract.append(f)
        for a in res.assumptions:
            if a not in self.assumptions:
                self.assumptions.append(a)
        for a in res.trusted:
            if a not in self.trusted:
                self.trusted.append(a)
        for k, v in res.solver_time.items():
            self.solver_time[k] = self.solver_time.get(k, 0.0) + v
        for n in getattr(res, "notes", None) or []:
            if n not in self.notes:
                self.notes.append(n)

    # -- stand-ins ---------------------------------------------------------
    def standin(self, module, families=("OO",), flavor="plain", args=(),
                timeout=3000, env=None):
        """Run /verif/rtc/<module>.py in a subprocess against a fresh build of
        /repo's working tree.  The module writes a Standin as JSON."""
        from lib import build
        t = time.time()
        try:
            bdir = build.build(families, flavor)
        except build.BuildError as e:
            raise CheckerError(str(e))
        out = os.path.join(build.scratch("verif-rtc-"), "out.json")
        e = dict(os.environ)
        e["PYTHONPATH"] = bdir + os.pathsep + VERIF
        e["VERIF_TIER"] = self.tier
        e["VERIF_SEED"] = str(self.seed)
        e["VERIF_FAMILIES"] = ",".join(families)
        e["PYTHONHASHSEED"] = "0"
        e.update(env or {})
        cmd = [PY, "-m", "rtc." + module, "--out", out] + list(args)
        try:
            p = subprocess.run(cmd, cwd=VERIF, env=e, capture_output=True,
                               text=True, timeout=timeout)
        except subprocess.TimeoutExpired:
            s = Standin(name=module, bound="?", error="stand-in timed out")
            self.standins.append(s)
            return s
        if not os.path.exists(out):
            s = Standin(name=module, bound="?",
                        error="stand-in crashed rc=%s: %s" %
                        (p.returncode, (p.stderr or p.stdout)[-3000:]))
            self.standins.append(s)
            return s
        with open(out) as f:
            d = json.load(f)
        fails = [Failure(**x) for x in d.pop("failures", [])]
        s = Standin(**d)
        s.failures = fails
        s.wall_s = time.time() - t
        self.standins.append(s)
        return s


# --------------------------------------------------------------------------
# helper used by rtc modules to emit their result

def write_standin(path, s):
    d = dataclasses.asdict(s)
    with open(path, "w") as f:
        json.dump(d, f, default=repr)


# --------------------------------------------------------------------------
# driver

def _replay_path(prop, key):
    safe = "".join(c if c.isalnum() or c in "._-" else "_" for c in key)[:150]
    d = os.path.join(VERIF, "replays", prop)
    os.makedirs(d, exist_ok=True)
    return os.path.join(d, safe + ".json")


def finish(ctx, level, explanation, checker_cmd):
    """Classify, print, write evidence, return the exit code."""
    known = load_known()
    prop = ctx.prop
    baseline = load_baseline(prop)
    violations = []      # (key, desc, replay_path, reproduced)
    known_hits = {}
    undecided = []
    errors = []

    for o in ctx.obligations:
        if o.status == "proved":
            continue
        if o.status == "refuted":
            e = match_known(known, prop, o.k())
            if e is not None:
                known_hits.setdefault(e["key"] if e.get("key") else e["keys"][0], e)
                continue
            rp = _replay_path(prop, o.k())
            with open(rp, "w") as f:
                json.dump({"property": prop, "obligation": o.name,
                           "function": o.function, "engine": o.engine,
                           "solver": o.solver, "solver_output": o.detail,
                           "model": o.model, "replay": o.replay}, f, indent=1,
                          default=repr)
            reproduced = bool(o.replay and o.replay.get("reproduced"))
            violations.append((o.k(), "obligation refuted: " + o.name, rp,
                               reproduced))
        elif o.status == "unknown":
            if o.name in baseline and not match_known(known, prop, o.k()):
                # discharged on the unchanged tree, not dischargeable now, and the
                # refuter found no counter-model: reported, without a failing input
                rp = _replay_path(prop, o.k())
                with open(rp, "w") as f:
                    json.dump({"property": prop, "obligation": o.name, "function": o.function,
                               "engine": o.engine, "solver": o.solver,
                               "verdict": "obligation was discharged on the unchanged tree (baseline/proved.json) "
                                          "and is not discharged on this tree; no counter-model found",
                               "solver_output": o.detail, "model": None, "replay": None}, f, indent=1, default=repr)
                violations.append((o.k(), "obligation no longer discharged: %s (%s)" % (o.name, (o.detail or "")[:160]),
                                   rp, False))
            else:
                undecided.append(o)
        else:
            errors.append(o)

    for s in ctx.standins:
        if s.error:
            errors.append(s)
        for fl in s.failures:
            e = match_known(known, prop, fl.key)
            if e is not None:
                known_hits.setdefault(e["key"] if e.get("key") else e["keys"][0], e)
                continue
            rp = _replay_path(prop, fl.key)
            with open(rp, "w") as f:
                json.dump({"property": prop, "standin": s.name,
                           "contract": fl.key, "what": fl.desc,
                           "repro": fl.repro, "script": fl.script}, f,
                          indent=1, default=repr)
            violations.append((fl.key, fl.desc, rp, True))

    for k, e in known_hits.items():
        print("KNOWN-FINDING: property=%s %s" % (prop, e["what"]))

    # obligations refuted by a recorded finding are reported as such, never as
    # discharged; they are not part of the proof claim (counted separately)
    n_known = sum(1 for o in ctx.obligations if o.status == "refuted"
                  and match_known(known, prop, o.k()) is not None)
    n_obl = len(ctx.obligations) - n_known
    n_proved = sum(1 for o in ctx.obligations if o.status == "proved")
    wall = time.time() - ctx.t0

    # ---- evidence
    samples = []
    for o in ctx.obligations[:3]:
        samples.append({"obligation": o.name, "status": o.status,
                        "solver": o.solver, "time_s": round(o.time_s, 4),
                        "smt2": (o.smt2 or "")[:1500]})
    for s in ctx.standins:
        for x in s.samples[:2]:
            samples.append({"standin": s.name, "case": x})
    evals = sum(s.evaluations for s in ctx.standins)
    distinct = sum(s.distinct_nontrivial for s in ctx.standins)
    cov = {
        "obligations": n_obl,
        "discharged": n_proved,
        "refuted_known_findings": sum(
            1 for o in ctx.obligations if o.status == "refuted"
            and match_known(known, prop, o.k()) is not None),
        "checker_cmd": checker_cmd,
        "trusted_base": ctx.trusted,
        "explanation": explanation,
        "functions_under_contract": ctx.functions_under_contract,
        "obligations_by_function": _by_function(ctx.obligations),
        "solver_time_s": {k: round(v, 3) for k, v in ctx.solver_time.items()},
        "bounded_standins": [
            {"name": s.name, "bound": s.bound, "evaluations": s.evaluations,
             "distinct_nontrivial": s.distinct_nontrivial, "rule": s.rule,
             "exhaustive": s.exhaustive, "functions": s.functions,
             "failures": len(s.failures), "wall_s": round(s.wall_s, 2),
             "label": "bounded - never counted as proved"}
            for s in ctx.standins],
        "evaluations": evals,
        "distinct_nontrivial": distinct,
        "rule": "; ".join(s.name + ": " + s.rule for s in ctx.standins if s.rule),
        "samples": samples or [{"note": "no case generated"}],
        "known_findings_reported": sorted(known_hits),
        "undecided": [o.name for o in undecided],
        "notes": ctx.notes,
    }
    ev = {
        "property_id": prop, "tier": ctx.tier, "seed": ctx.seed,
        "level": level, "coverage": cov,
        "assumptions": ctx.assumptions, "wall_s": round(wall, 2),
        "violations": len(violations),
    }
    # names of what this run discharged (input of tools/mkbaseline.py; replays/ is not committed)
    try:
        os.makedirs(os.path.join(VERIF, "replays", prop), exist_ok=True)
        with open(os.path.join(VERIF, "replays", prop, "_proved_%s.json" % ctx.tier), "w") as f:
            json.dump(sorted({o.name for o in ctx.obligations if o.status == "proved"}), f)
    except OSError:
        pass
    os.makedirs(os.path.join(VERIF, "evidence"), exist_ok=True)
    with open(os.path.join(VERIF, "evidence", prop + ".json"), "w") as f:
        json.dump(ev, f, indent=1, default=repr)

    # ---- verdict
    if n_obl == 0 and not ctx.standins:
        print("CHECKER ERROR: property=%s zero obligations generated" % prop)
        return 3
    if violations:
        for key, desc, rp, reproduced in violations:
            tail = "" if reproduced else " no-failing-input-found"
            print("  violated: %s -- %s" % (key, desc))
            print("VIOLATION property=%s replay=%s%s" % (prop, rp, tail))
        return 1
    if errors:
        for x in errors:
            nm = getattr(x, "name", "?")
            msg = getattr(x, "detail", "") or getattr(x, "error", "")
            print("CHECKER ERROR: property=%s %s: %s" % (prop, nm, msg[:2000]))
        return 3
    if undecided:
        for o in undecided:
            print("UNDECIDED: property=%s obligation=%s (%s)" %
                  (prop, o.name, o.detail[:200]))
        return 2
    print("OK property=%s obligations=%d discharged=%d standins=%d "
          "evaluations=%d known_findings=%d wall=%.1fs" %
          (prop, n_obl, n_proved, len(ctx.standins), evals, len(known_hits),
           wall))
    return 0


def _by_function(obls):
    d = {}
    for o in obls:
        e = d.setdefault(o.function, {"engine": o.engine, "obligations": 0,
                                      "proved": 0})
        e["obligations"] += 1
        if o.status == "proved":
            e["proved"] += 1
    return d


def main(argv=None):
    import argparse
    import importlib
    ap = argparse.ArgumentParser()
    ap.add_argument("prop")
    ap.add_argument("--tier", default=os.environ.get("VERIF_TIER") or "quick")
    ap.add_argument("--replay", default=None)
    a = ap.parse_args(argv)
    seed = int(os.environ.get("VERIF_SEED") or 0)
    tier = a.tier if a.tier in ("quick", "thorough") else "quick"
    sys.path.insert(0, VERIF)
    if a.replay:
        from lib import replay
        return replay.main(a.prop, a.replay)
    ctx = Ctx(a.prop, tier, seed)
    try:
        mod = importlib.import_module("props." + a.prop)
        level, explanation = mod.run(ctx)
        # the claimed level lives in MANIFEST.json (generated by tools/mkmanifest.py)
        try:
            with open(os.path.join(VERIF, "MANIFEST.json")) as f:
                for c in json.load(f).get("checks", []):
                    if c["property_id"] == a.prop:
                        level = c["level_claimed"]["category"]
        except (OSError, ValueError, KeyError):
            pass
        cmd = "./check %s --tier %s" % (a.prop, tier)
        return finish(ctx, level, explanation, cmd)
    except Exception:
        traceback.print_exc()
        print("CHECKER ERROR: property=%s internal error (no verdict)" % a.prop)
        return 3


if __name__ == "__main__":
    sys.exit(main())
