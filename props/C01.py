"""C01 - containers behave as a sorted map / sorted set."""
from props import _generic as g


def run(ctx):
    g.run_pyvc(ctx, "C01")
    return "proof", "under construction"
