"""Bounded stand-in for C13: the boundary grid of the statement offered as key
and as value through every writing entry point, all families given in
VERIF_FAMILIES, C and Python.

Oracle (properties.jsonl, C13, quoted): "A key or value is stored only if it is
representable in the family's declared type (32/64-bit signed or unsigned
integer, 32-bit float, 2- or 6-byte string, orderable object): representable
data reads back equal to what was written (floats as their single-precision
rounding), and anything else is rejected with TypeError before the container
is modified - never truncated, wrapped around or replaced by a different
value.  Looking up an unrepresentable key simply reports absence."

`expect()` below is that sentence per declared type code (I U L Q F f s O);
`f32()` is IEEE-754 round-to-nearest-even to binary32 done in exact integer
arithmetic (not with `struct`, which the code under test uses).  Nothing is
taken from the code under test.  Reading of the statement used here: a number
(int, bool, float) is representable as a 32-bit float iff its single-precision
rounding is finite, or it is inf / nan itself; nan is left out of the
object-key grid (no total order, the statement does not say what it means).
"""
import argparse
import functools
import math
import random

from lib.common import Standin, Failure, write_standin
from rtc import harness as H
from rtc.hist_rt import state_sig


class Plain:                      # an object with default comparison
    pass


@functools.total_ordering
class Ord:                        # an orderable object (comparable with ints)
    def __init__(self, v):
        self.v = v

    def __lt__(self, o):
        return self.v < (o.v if isinstance(o, Ord) else o)

    def __eq__(self, o):
        return self.v == (o.v if isinstance(o, Ord) else o)

    def __hash__(self):
        return hash(self.v)

    def __repr__(self):
        return "Ord(%r)" % self.v


ENV = {"Plain": Plain, "Ord": Ord, "float": float}
INT_RANGE = {"I": (-2**31, 2**31 - 1), "U": (0, 2**32 - 1), "L": (-2**63, 2**63 - 1), "Q": (0, 2**64 - 1)}


def f32(x):
    """Single-precision rounding of an int or float, exactly; None = overflows."""
    if isinstance(x, float) and (math.isinf(x) or math.isnan(x)):
        return x
    n, d = (x, 1) if isinstance(x, int) else x.as_integer_ratio()
    if n == 0:
        return 0.0
    sign, n = (-1, -n) if n < 0 else (1, n)
    e = n.bit_length() - d.bit_length()            # 2**e <= n/d < 2**(e+1) after the correction
    if (n < (d << e)) if e >= 0 else ((n << -e) < d):
        e -= 1
    q = max(e - 23, -149)                           # exponent of the last kept bit (-149: subnormals)
    num, den = (n, d << q) if q >= 0 else (n << -q, d)
    m, r = divmod(num, den)
    if 2 * r > den or (2 * r == den and m & 1):     # round half to even
        m += 1
    if m.bit_length() + q > 128:                    # >= 2**128: beyond FLT_MAX
        return None
    return sign * math.ldexp(m, q)


def expect(T, x, role):
    """-> ('store' | 'either', value read back) | ('reject',) for declared type code T."""
    if T in INT_RANGE:
        lo, hi = INT_RANGE[T]
        return ("store", int(x)) if isinstance(x, int) and lo <= x <= hi else ("reject",)
    if T == "F":
        if isinstance(x, (int, float)) and f32(x) is not None:
            # grey zone: an int that needs more than a C long but still rounds to a finite binary32 may be
            # stored (rounded) or refused with TypeError - the statement's "only if" does not force acceptance
            return ("either" if isinstance(x, int) and not -2**63 <= x < 2**63 else "store", f32(x))
        return ("reject",)
    if T in "fs":
        return ("store", x) if type(x) is bytes and len(x) == (2 if T == "f" else 6) else ("reject",)
    if role == "key" and x is not None and type(x).__lt__ is object.__lt__:
        return ("reject",)                          # object with default comparison
    return ("store", x)


def klass(T, x):
    """Input class of the datum relative to T (part of the failure key)."""
    if T == "O":
        return "none" if x is None else "defaultcmp" if type(x).__lt__ is object.__lt__ else "orderable"
    if T in "fs":
        return "wrong-type" if type(x) is not bytes else "bytes-len-ok" if len(x) == (2 if T == "f" else 6) else "bytes-len-wrong"
    if isinstance(x, bool):
        return "bool"
    if isinstance(x, int):
        beyond = not -2**63 <= x < (2**64 if T == "Q" else 2**63)   # does not fit the C (unsigned) long long
        if T == "F":
            return "int-beyond-long" if beyond else "int"
        lo, hi = INT_RANGE[T]
        return ("int-inrange" if lo <= x <= hi else "int-beyond-long" if beyond else
                "int-negative" if x < 0 and lo == 0 else "int-out-of-range")
    if isinstance(x, float):
        if T != "F":
            return "float"
        if math.isnan(x) or math.isinf(x):
            return "float-nan" if math.isnan(x) else "float-inf"
        return "float-over-f32" if f32(x) is None else "float-exact" if f32(x) == x else "float-inexact"
    return "wrong-type"


def grid(rng, thorough):
    """The grid of the statement as python expressions (replayable)."""
    g = ["0", "1", "-1", "7", "True", "False", "2**24+1", "2**53+1", "2**70", "-2**70", "10**30", "-10**30",
         "2**127", "2**128", "-2**128", "2**200", "10**400", "-10**400"]
    for e in (31, 32, 63, 64):
        for sg in ("", "-"):
            g += ["%s2**%d%+d" % (sg, e, d) for d in (range(-3, 4) if thorough else (-1, 0, 1))]
    g += ["0.0", "-0.0", "1.0", "1.5", "-2.5", "0.1", "16777217.0", "2147483648.0", "1e-45", "1e-50", "5e-324",
          "3.4028234663852886e38", "2.0**128", "1e40", "-1e40", "1.7976931348623157e308",
          "float('inf')", "-float('inf')", "float('nan')"]
    g += ["''", "'a'", "'ab'", "'abcdef'"] + ["b'x'*%d" % n for n in range(9)]
    g += ["None", "object()", "Plain()", "Ord(25)", "(25,)"]
    for _ in range(200 if thorough else 6):         # seeded extras around no particular boundary
        g.append("%s%d" % (rng.choice(("", "-")), rng.getrandbits(rng.randint(1, 70))))
    for _ in range(100 if thorough else 3):
        g.append(repr(rng.uniform(-1, 1) * 10.0 ** rng.randint(-50, 45)))
    return [(x, eval(x, ENV)) for x in g]


def prefill(fam, offered):
    """Five good items of the family (keys comparable with an offered object key)."""
    K, V = fam[0], fam[1]
    if K == "f" or (K == "O" and isinstance(offered, bytes)):
        keys = [b"p%d" % i for i in range(5)]
    elif K == "O" and isinstance(offered, str):
        keys = ["p%d" % i for i in range(5)]
    elif K == "O" and isinstance(offered, tuple):
        keys = [(10 * i + 10,) for i in range(5)]
    else:
        keys = [10, 20, 30, 40, 50]
    vals = {"O": ["p%d" % i for i in range(5)], "F": [0.5 * (i + 1) for i in range(5)],
            "s": [b"ppppp%d" % i for i in range(5)]}.get(V, [100 + i for i in range(5)])
    return list(zip(keys, vals))


GOODV = {"O": "v", "F": 1.5, "s": b"vvvvvv", "I": 7, "U": 7, "L": 7, "Q": 7}


def eq(a, b):
    if isinstance(a, float) and isinstance(b, float) and math.isnan(a) and math.isnan(b):
        return True
    try:
        return bool(a == b)
    except Exception:
        return False


class Run:
    def __init__(self, s):
        self.s, self.nontrivial, self.per_key, self.samples = s, set(), {}, {}

    def fail(self, cfg, clause, role, T, x, expr, entry, desc, state, script):
        fam, kind, impl = cfg
        key = "conv:%s:%s:%s:%s-%s:%s:%s" % (impl, kind, clause, role, T, klass(T, x), entry)
        n = self.per_key[key] = self.per_key.get(key, 0) + 1
        if n <= 2:                                   # narrow keys: two witnesses per key are enough
            self.s.failures.append(Failure(
                key=key, desc="%s%s%s %s %s=%s (%s container): %s" % (fam, kind, "Py" if impl == "py" else "", entry,
                                                                     role, expr, state, desc),
                repro={"family": fam, "kind": kind, "impl": impl, "entry": entry, "role": role, "datum": expr,
                       "prefill": state, "sizes": [2, 3]}, script=script()))


def snapshot(t, is_set):
    try:
        return (H.contents(t, is_set), len(t), state_sig(t))
    except Exception as e:                           # a container that cannot be inspected counts as modified
        return ("uninspectable", type(e).__name__)


def run_config(R, fam, kind, impl, G):
    s = R.s
    is_set, is_tree = kind in ("Set", "TreeSet"), kind in ("BTree", "TreeSet")
    K, V = fam[0], fam[1]
    cls = H.get_class(fam, kind, impl, 2, 3)
    leafcls = H.get_class(fam, "Set" if is_set else "Bucket", impl)
    cfg = (fam, kind, impl)
    cname = cls.__name__
    head = "from BTrees.%sBTree import %s, %s\n%s.max_leaf_size, %s.max_internal_size = 2, 3\n" % (
        fam, cname, leafcls.__name__, cname, cname) if is_tree else "from BTrees.%sBTree import %s\n" % (fam, cname)
    head += "from rtc.conv_rt import Plain, Ord\n"

    def build(items):
        t = cls()
        for k, v in items:
            t.add(k) if is_set else t.__setitem__(k, v)
        return t

    def leaf(k, v, nxt=None):
        b = leafcls()
        b.__setstate__((((k,) if is_set else (k, v)),) + ((nxt,) if nxt is not None else ()))
        return b

    def call(t, entry, k, v):
        """The writing entry points of the statement; returns the container to inspect."""
        if entry == "setitem":
            t[k] = v
        elif entry == "insert":
            t.insert(k) if is_set else t.insert(k, v)
        elif entry == "add":
            t.add(k)
        elif entry == "setdefault":
            t.setdefault(k, v)
        elif entry == "update":
            t.update([k] if is_set else {k: v})
        elif entry == "ctor":
            return cls([k] if is_set else [(k, v)])
        elif entry == "setstate":                    # one-leaf state
            st = ((k,) if is_set else (k, v),)
            t.__setstate__(((st,),) if is_tree else st)
        elif entry == "setstate-sep":                # interior state, the datum is the separator
            its = prefill(fam, None)
            b2 = leaf(*its[3])
            b1 = leaf(its[0][0], its[0][1], b2)
            t.__setstate__(((b1, k, b2), b1))
        return t

    SRC = {"setitem": "t[k] = v", "insert": "t.insert(k)" if is_set else "t.insert(k, v)", "add": "t.add(k)",
           "setdefault": "t.setdefault(k, v)", "update": "t.update([k])" if is_set else "t.update({k: v})",
           "ctor": "t = %s([k])" % cname if is_set else "t = %s([(k, v)])" % cname,
           "setstate": "t.__setstate__(%s)" % (("((((k,),),),)" if is_tree else "((k,),)") if is_set else
                                               ("((((k, v),),),)" if is_tree else "((k, v),)")),
           "setstate-sep": "L = %s\nb2 = L(); b2.__setstate__((%r,))\nb1 = L(); b1.__setstate__((%r, b2))\n"
                           "t.__setstate__(((b1, k, b2), b1))\nprint('separator:', t.__getstate__()[0][1])" % (
                               (leafcls.__name__,) + tuple(it[:1] if is_set else it for it in (
                                   prefill(fam, None)[3], prefill(fam, None)[0])))}

    def one_write(entry, role, T, expr, x, k, v, items, state):
        """One case: the call, then the contract of the statement."""
        s.evaluations += 1
        exp = expect(T, x, role)
        if klass(T, x) != "int-inrange" or abs(x) > 7:
            R.nontrivial.add((role, T, expr, entry, kind, state))
        fresh = entry in ("ctor", "setstate", "setstate-sep")
        t = cls() if fresh else build(items)
        before = snapshot(t, is_set)
        script = lambda: head + "k = %s\nv = %s\nt = %s()\n%s%s\nprint(list(t%s))\n" % (
            expr if role == "key" else repr(k), repr(v) if role == "key" else expr, cname,
            "" if fresh else "for a, b in %r: t%s\n" % (items, ".add(a)" if is_set else "[a] = b"),
            SRC[entry], "" if is_set else ".items()")
        try:
            t = call(t, entry, k, v)
            out = None
        except Exception as e:
            out = type(e).__name__
        after = snapshot(t, is_set)
        changed = after != before
        R.samples.setdefault(exp[0], {"container": cname, "entry": entry, "role": role, "datum": expr, "expected": exp[0],
                                      "outcome": out or "returned", "contents_after": repr(after[0])})
        f = lambda clause, desc: R.fail(cfg, clause, role, T, x, expr, entry, desc, state, script)
        if exp[0] == "reject" or (exp[0] == "either" and out is not None):
            # "anything else is rejected with TypeError before the container is modified"
            if out is None:
                f("stored-unrepresentable" if changed else "accepted-unrepresentable",
                  "accepted without TypeError; contents now %r" % (after[0],))
            elif out != "TypeError":
                f("wrong-exception-%s%s" % (out, "-modified" if changed else ""),
                  "raised %s, not TypeError; contents %r -> %r" % (out, before[0], after[0]))
            elif changed:
                f("modified-on-reject", "TypeError, but contents %r -> %r" % (before[0], after[0]))
            return
        # "representable data reads back equal to what was written (floats as their single-precision rounding)"
        if out is not None:
            f("refused-representable-%s%s" % (out, "-modified" if changed else ""),
              "raised %s; contents %r -> %r" % (out, before[0], after[0]))
            return
        if entry == "setstate-sep":
            got = t.__getstate__()[0][1]
            if not eq(got, exp[1]):
                f("readback-differs", "separator reads back %r, expected %r" % (got, exp[1]))
            return
        ek, ev = (exp[1], v) if role == "key" else (k, exp[1])
        want = [] if fresh else [it for it in items if not eq(it[0], ek)]
        want.append((ek, ev))
        got = after[0] if isinstance(after[0], list) else []
        if is_set:
            want = [a for a, b in want]
        pair = (lambda a, b: eq(a, b)) if is_set else (lambda a, b: eq(a[0], b[0]) and eq(a[1], b[1]))
        ok = len(got) == len(want) and all(any(pair(w, g) for g in got) for w in want)
        try:
            ok = ok and k in t and (is_set or eq(t[k], ev)) and len(t) == len(want)
            if K != "O":
                ks = got if is_set else [a for a, b in got]
                ok = ok and all(a < b for a, b in zip(ks, ks[1:]))
        except Exception as e:
            ok = False
        if not ok:
            f("readback-differs", "contents %r, expected %r" % (after[0], want))

    def one_lookup(op, expr, x, items, state):
        """"Looking up an unrepresentable key simply reports absence." """
        s.evaluations += 1
        R.nontrivial.add(("lookup", K, expr, op, kind, state))
        t = build(items)
        try:
            if op == "contains":
                found = x in t
            elif op == "has_key":
                found = bool(t.has_key(x))
            elif op == "get":
                found = t.get(x, H.MARK) is not H.MARK
            else:
                try:
                    t[x]
                    found = True
                except KeyError:
                    found = False
            clause = "lookup-found" if found else None
        except Exception as e:
            clause = "lookup-raises-%s" % type(e).__name__
        R.samples.setdefault("lookup", {"container": cname, "entry": op, "datum": expr, "prefill": state,
                                        "expected": "absence", "outcome": clause or "absent"})
        if clause:
            script = lambda: head + "t = %s()\nfor a, b in %r: t%s\nk = %s\nprint(%s)\n" % (
                cname, items, ".add(a)" if is_set else "[a] = b", expr,
                {"contains": "k in t", "has_key": "t.has_key(k)", "get": "t.get(k, 'absent')", "getitem": "t[k]"}[op])
            R.fail(cfg, clause, "key", K, x, expr, "%s-%s" % (op, state), "expected absence", state, script)

    for expr, x in G:
        if K == "O" and isinstance(x, float) and math.isnan(x):
            continue                                 # see module docstring
        items = prefill(fam, x)
        newk, oldk = (b"n0" if K == "f" else 25), prefill(fam, None)[1][0]
        kentries = (["add", "insert", "update"] if is_set else
                    ["setitem", "setdefault", "update"] + (["insert"] if is_tree else []))
        for state, its in (("empty", []), ("filled", items)):
            for entry in kentries:
                one_write(entry, "key", K, expr, x, x, GOODV[V], its, state)
            if expect(K, x, "key")[0] == "reject":
                if its and K in INT_RANGE:           # keys a truncated / wrapped-around datum would land on
                    lo, hi = INT_RANGE[K]
                    its = its + [(w, GOODV[V]) for w in (lo, -1, 0, 1, hi) if lo <= w <= hi]
                for op in ("contains", "has_key") + (() if is_set else ("get", "getitem")):
                    one_lookup(op, expr, x, its, state)
        for entry in ["ctor", "setstate"] + (["setstate-sep"] if is_tree else []):
            one_write(entry, "key", K, expr, x, x, GOODV[V], [], "fresh")
        if is_set:
            continue
        items = prefill(fam, None)
        for state, its, k in (("empty", [], newk), ("filled", items, newk), ("overwrite", items, oldk)):
            for entry in ["setitem", "update"] + (["setdefault"] + (["insert"] if is_tree else [])
                                                 if state != "overwrite" else []):
                one_write(entry, "value", V, expr, x, k, x, its, state)
        for entry in ("ctor", "setstate"):
            one_write(entry, "value", V, expr, x, newk, x, [], "fresh")


def main():
    ap = argparse.ArgumentParser()
    ap.add_argument("--out")
    a = ap.parse_args()
    thorough = H.tier() != "quick"
    G = grid(random.Random(H.seed()), thorough)
    s = Standin(name="conv_rt",
                bound="%d data (every integer within %d of +-2^31, +-2^32, +-2^63, +-2^64; 2^24+1, 2^53+1, +-2^70, +-10^30, "
                      "2^127, +-2^128, 2^200, +-10^400; bools; floats 0.1, +-0.0, binary32 subnormal and below, FLT_MAX, 2^128, "
                      "+-1e40, DBL_MAX, +-inf, nan; str of 4 lengths; bytes of length 0..8; None; object(), a plain instance, an "
                      "orderable instance, a tuple; %d seeded random ints/floats) as key and as value x {item assignment, insert, "
                      "setdefault, update, constructor, add, __setstate__ (leaf data and interior separator)} x {empty, 5 items "
                      "(trees: 3 leaves under node sizes 2/3), overwrite of an existing key} x BTree/Bucket/TreeSet/Set x C and Python, families %s; "
                      "lookups (in, has_key, get, []) of every unrepresentable key on the empty and the filled container "
                      "(integer keys: filled also holds min, -1, 0, 1, max, where a wrapped-around key would land)"
                      % (len(G), 3 if thorough else 1, 300 if thorough else 9, ",".join(H.fams())),
                rule="case = one call with one datum of the grid as key or value on one freshly built container + the "
                     "contract of the statement (stored and reads back exactly | TypeError and unchanged contents, length and "
                     "__getstate__ | absence); distinct non-trivial = distinct (role, declared type, datum, entry point, "
                     "container kind, prefill) with the datum not a small in-range integer",
                exhaustive=True,
                functions=["COPY_KEY_FROM_ARG / COPY_VALUE_FROM_ARG (all expansions)", "longlong_convert", "ulonglong_convert",
                           "check_argument_cmp", "_bucket_setstate", "_set_setstate", "_BTree_setstate",
                           "_datatypes.*.__call__", "Bucket/Set/Tree.__setstate__", "Tree.insert (run-time)"])
    R = Run(s)
    for fam in H.fams():
        for kind in ("BTree", "Bucket", "TreeSet", "Set"):
            for impl in ("c", "py"):
                run_config(R, fam, kind, impl, G)
    s.distinct_nontrivial = len(R.nontrivial)
    s.samples = [R.samples[k] for k in ("store", "reject", "lookup", "either") if k in R.samples]
    write_standin(a.out, s)


if __name__ == "__main__":
    main()
