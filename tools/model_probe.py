"""model_probe.py <function> <obligation-name> <path-substring> <spec-expr>... : find a counter-model of one
VC and print the value of spec expressions (evaluated in the pre state with old(...), else the post state)."""
import sys
sys.path.insert(0, '/verif')
import z3
from pyvc.run import load_sources, all_contracts, add_lemma_programs, _solve
from pyvc.verify import Verifier
from pyvc.spec import SpecCtx
sources, classes = load_sources(); contracts = all_contracts(); add_lemma_programs(sources, contracts)
con = contracts[sys.argv[1]]
eng = Verifier(sources, classes, contracts, ground=None, mode="normal"); eng.covers = []
# keep the final state of every path
finals = []
orig = eng.oblige
def oblige(st, name, goal, detail=""):
    orig(st, name, goal, detail)
    eng.obls[-1].state = st
eng.oblige = oblige
eng.verify_function(con)
for o in eng.obls:
    if o.name != sys.argv[2] or sys.argv[3] not in o.detail:
        continue
    r, dt, model, sv = _solve(eng, o, 30000, want_model=True)
    print(r, "%.1fs" % dt, o.detail[-300:])
    if model is None:
        continue
    st = o.state
    ctx = SpecCtx(o.pre, st)
    for txt in sys.argv[4:]:
        try:
            v = eng.sp(eng.spec_expr(txt), st, dict(st.env), ctx)
            print("   ", txt, "=", model.eval(v.z, model_completion=True) if v.z is not None else v.kind)
        except Exception as e:
            print("   ", txt, "!!", e)
    break
