"""C17 - running out of memory inside an operation is reported, not corrupting."""
QUICK = ["OO", "II", "fs"]
ALL = "IO II IF IU UO UU UF UI LO LL LF LQ QO QQ QF QL OO OI OU OL OQ fs".split()


def run(ctx):
    fams = QUICK if ctx.tier == "quick" else ALL
    ctx.cvc(fams, ["M-ALLOC"])
    ctx.cvc(["II", "OO"] if ctx.tier == "quick" else ["II", "OO", "LF", "QQ", "fs"], ["F-SPLIT"], functions=["bucket_split", "BTree_split_root"])
    res3 = ctx.cvc(["II"], ["F-STATE"], functions=["BTree_getstate", "bucket_getstate"])
    from lib import replay
    replay.replay_fstate(ctx, res3)
    res4 = ctx.cvc(["II", "OO"], ["M-NULL"])
    replay.replay_mnull(ctx, res4)
    ctx.standin("alloc_rt", families=("OO", "II") if ctx.tier == "quick" else ("OO", "II", "fs", "LF", "QQ"))
    return "proof", (
        "M-ALLOC on every function of the translation units (%s) that allocates, reallocates or frees directly, "
        "each allocation free to fail: (no-dangling-field) on every exit the keys/values/data fields of the "
        "containers passed in are NULL or live blocks, where a successful realloc kills the old block and free "
        "kills its argument; (failure-reported) a path on which an allocation returned NULL ends with an error "
        "result. F-SPLIT: bucket_split - the leaf split, with two allocations - from its real (loop-free) body: when it returns -1 "
        "after a failed allocation the leaf is exactly as it was (len, next, vectors and their contents) and the new sibling "
        "holds no pointer to a released block; when it returns 0 the halves are the exact halves (see C03); BTree_split_root: a failure "
        "before the hand-over leaves the root as it was and the child released on that path owns nothing of the root's. "
        "F-STATE (see C06), run here for its clause `item-not-NULL`: a number object that could not be allocated is never stored into "
        "a state tuple (found and fixed in BTree_getstate: 5b9672e; replayed natively with _testcapi.set_nomemory). "
        "M-NULL: results of fallible CPython constructors (memory the guarded hook does not reach) are checked before use "
        "in every function. Soundness of the container after the failure, contents previous-or-completed and the follow-up "
        "workload are the bounded fault enumeration alloc_rt through the guarded hook (every n, every scenario)."
        % ", ".join(fams))
