"""Contracts for the set algebra of _base.py (C10, C12; C11 uses Set.update).

Cursor abstraction.  A `_SetIteration` i walks the ascending key sequence
seq(i) := i._iter.$it_seq (ghost field of the abstract list iterator created
by iter()/__iter__()).  While active, i.key == seq[position-1] and the keys
already *consumed* are seq[0 : position-1]; once exhausted, all of them:
    seen(i) := prefix_elems(seq(i), position-1 if active else len(seq(i)))
`advance` is verified against this abstraction from its real body (next() on
the abstract iterator).  `__init__` is ASSUMED (its body uses sorted(),
getattr-by-name and a try/except AttributeError dispatch that Engine P does not
interpret): it yields a cursor over keyseq(operand), positioned on the first
key.  The operands' key sequences are required to be strictly ascending, which
is what BTrees containers and duplicate-free sorted iterables give; plain
iterables WITH duplicates are outside this contract (recorded finding C10:
duplicates survive union/intersection).
"""
from pyvc.spec import Contract

CONTRACTS = []


def C(*a, **k):
    c = Contract(*a, **k)
    CONTRACTS.append(c)
    return c


def cur(i):
    """Cursor invariant of _SetIteration `i` (text macro)."""
    return ("(%(i)s._iter is not None and it_pos(%(i)s._iter) >= 0 and "
            "sorted_strict(it_seq(%(i)s._iter)) and "
            "len(it_vals(%(i)s._iter)) == len(it_seq(%(i)s._iter)) and "
            "it_pairs(%(i)s._iter) == %(i)s.useValues and "
            "implies(%(i)s.active, 1 <= %(i)s.position and %(i)s.position <= len(it_seq(%(i)s._iter)) and "
            "it_pos(%(i)s._iter) == %(i)s.position and %(i)s.key == it_seq(%(i)s._iter)[%(i)s.position - 1] and "
            "implies(%(i)s.useValues, %(i)s.value == it_vals(%(i)s._iter)[%(i)s.position - 1])) and "
            "implies(not %(i)s.active, %(i)s.position == -1))") % {"i": i}


def seen(i):
    return ("prefix_elems(it_seq(%(i)s._iter), (%(i)s.position - 1) if %(i)s.active else len(it_seq(%(i)s._iter)))"
            % {"i": i})


def allkeys(i):
    return "prefix_elems(it_seq(%(i)s._iter), len(it_seq(%(i)s._iter)))" % {"i": i}


ADV_MOD = ["self.key", "self.value", "self.position", "self.active", "self._iter.$it_pos"]
C("_SetIteration.advance", cls="_SetIteration", params={}, returns="ref:_SetIteration",
  requires={"cursor": cur("self"), "active": "self.active"},
  ensures={
      "returns_self": "result is self",
      "cursor": cur("self"),
      "same_sequence": "self._iter is old(self._iter) and it_seq(self._iter) is old(it_seq(self._iter)) and "
                       "it_vals(self._iter) is old(it_vals(self._iter)) and self.useValues == old(self.useValues)",
      "steps": "(self.active and self.position == old(self.position) + 1) if old(self.position) < len(it_seq(self._iter)) "
               "else (not self.active)",
      "consumed_one_more": "set_eq(" + seen("self") + ", sadd(old(" + seen("self") + "), old(self.key)))",
      "default_value_kept": "implies(not self.useValues, self.value == old(self.value))",
  },
  modifies=ADV_MOD, props=["C10", "C12"], ghost={"no_compare": True, "pe_full": True})

# ASSUMED (trusted) contract of the constructor, see the module docstring.
# The operand is either an abstract iterable (`any`: iterates as the ghost
# sequences keyseq/valseq) or a leaf object of this module (Bucket: its own
# _keys/_values lists, with values; Set: its _keys, no values).
OP_KEYS = "(to_iterate._keys if kind_of(to_iterate) == 'ref' else keyseq(to_iterate))"
OP_VALS_LINK = ("(implies(is_cls(to_iterate, 'Bucket'), it_vals(self._iter) is to_iterate._values) "
                "if kind_of(to_iterate) == 'ref' else it_vals(self._iter) is valseq(to_iterate))")
OP_HASV = "(is_cls(to_iterate, 'Bucket') if kind_of(to_iterate) == 'ref' else has_values(to_iterate))"
C("_SetIteration.__init__", cls="_SetIteration",
  params={"to_iterate": ["any", "ref:Bucket", "ref:Set"], "useValues": "bool", "default": ["int", "none", "V"], "sort": "bool"},
  returns="none", trusted=True,
  requires={"ascending_duplicate_free": "sorted_strict(" + OP_KEYS + ")"},
  ensures={
      "cursor": cur("self"),
      "fresh_iterator": "fresh(self._iter)",
      "sequences_exist": "allocated(it_seq(self._iter)) and allocated(it_vals(self._iter))",
      "over_operand": "it_seq(self._iter) is " + OP_KEYS + " and " + OP_VALS_LINK,
      "values_used": "self.useValues == (useValues and " + OP_HASV + ")",
      "positioned": "self.active == (len(" + OP_KEYS + ") > 0)",
      "nothing_consumed": "implies(self.active, set_eq(" + seen("self") + ", sempty()))",
      "default_value": "implies(not self.useValues and default is not None, self.value == default)",
  },
  modifies=["self.key", "self.value", "self.position", "self.active", "self.useValues", "self._iter"],
  ghost={"allocates": True, "no_compare": True})

OPERAND = ["none", "any"]
SORTED_IN = {"o1_ascending": "implies(o1 is not None, sorted_strict(keyseq(o1)) and len(valseq(o1)) == len(keyseq(o1)) and allocated(keyseq(o1)) and allocated(valseq(o1)))",
             "o2_ascending": "implies(o2 is not None, sorted_strict(keyseq(o2)) and len(valseq(o2)) == len(keyseq(o2)) and allocated(keyseq(o2)) and allocated(valseq(o2)))"}
K1 = "prefix_elems(keyseq(o1), len(keyseq(o1)))"
K2 = "prefix_elems(keyseq(o2), len(keyseq(o2)))"


def merge_loops(which):
    """Loop invariants shared by union / intersection / difference: `which`
    gives the set expression the result must equal in terms of the consumed
    keys of both cursors."""
    base = {
        "cursors": cur("i1") + " and " + cur("i2"),
        "distinct": "i1 is not i2 and i1._iter is not i2._iter and result is not None and "
                    "fresh(result._keys) and fresh(i1) and fresh(i2) and fresh(i1._iter) and fresh(i2._iter)",
        "sources": "it_seq(i1._iter) is keyseq(o1) and it_seq(i2._iter) is keyseq(o2)",
        "sorted": "sorted_strict(result._keys)",
        "below1": "implies(i1.active, forall(0, len(result._keys), lambda r: result._keys[r] < i1.key))",
        "below2": "implies(i2.active, forall(0, len(result._keys), lambda r: result._keys[r] < i2.key))",
        "frontier1": "implies(i1.active and not i2.active, forall(0, len(keyseq(o2)), lambda j: keyseq(o2)[j] < i1.key))"
        if False else "True",
        "content": "set_eq(elems(result._keys), " + which + ")",
    }
    return base


CUR_MOD = ["i1.key", "i1.value", "i1.position", "i1.active", "i1._iter.$it_pos",
           "i2.key", "i2.value", "i2.position", "i2.active", "i2._iter.$it_pos"]
BOTH = "o1 is not None and o2 is not None"


def loop(content, extra=None, values=False):
    inv = {
        "cursors": cur("i1") + " and " + cur("i2"),
        "distinct": "i1 is not i2 and i1._iter is not i2._iter and fresh(result) and fresh(result._keys) and "
                    "fresh(i1) and fresh(i2) and fresh(i1._iter) and fresh(i2._iter) and "
                    "result._keys is not it_seq(i1._iter) and result._keys is not it_seq(i2._iter)",
        "sources": "it_seq(i1._iter) is keyseq(o1) and it_seq(i2._iter) is keyseq(o2)",
        "sorted": "sorted_strict(result._keys)",
        "below1": "implies(i1.active, forall(0, len(result._keys), lambda r: result._keys[r] < i1.key))",
        "below2": "implies(i2.active, forall(0, len(result._keys), lambda r: result._keys[r] < i2.key))",
        "content": "set_eq(elems(result._keys), " + content + ")",
    }
    if extra:
        inv.update(extra)
    return {"inv": inv, "modifies": CUR_MOD + ["list:result._keys"] + (["freshlist:result._values"] if values else []),
            "dec": "(len(it_seq(i1._iter)) - i1.position if i1.active else 0) + "
                   "(len(it_seq(i2._iter)) - i2.position if i2.active else 0) + "
                   "(1 if i1.active else 0) + (1 if i2.active else 0)"}


RESULT_SET = {
    "none_rule_1": "implies(o1 is None, result is o2)",
    "none_rule_2": "implies(o1 is not None and o2 is None, result is o1)",
    "new_set": "implies(" + BOTH + ", fresh(result) and is_cls(result, 'Set') and fresh(result._keys))",
    "sorted_duplicate_free": "implies(" + BOTH + ", sorted_strict(result._keys))",
}
SETOP_PARAMS = {"set_type": "cls:Set", "o1": OPERAND, "o2": OPERAND}

C("union", params=SETOP_PARAMS, requires=dict(SORTED_IN), returns=["none", "any", "ref"],
  ensures=dict(RESULT_SET, mathematical="implies(" + BOTH + ", set_eq(elems(result._keys), sunion(" + K1 + ", " + K2 + ")))"),
  modifies=[], ghost={"allocates": True},
  loops=[loop("sunion(" + seen("i1") + ", " + seen("i2") + ")"),
         loop("sunion(" + seen("i1") + ", " + seen("i2") + ")", {"other_done": "implies(i1.active, not i2.active)"}),
         loop("sunion(" + seen("i1") + ", " + seen("i2") + ")", {"other_done": "not i1.active"})],
  props=["C10"])

C("intersection", params=SETOP_PARAMS, requires=dict(SORTED_IN), returns=["none", "any", "ref"],
  ensures=dict(RESULT_SET, mathematical="implies(" + BOTH + ", set_eq(elems(result._keys), sinter(" + K1 + ", " + K2 + ")))"),
  modifies=[], ghost={"allocates": True},
  loops=[loop("sinter(" + seen("i1") + ", " + seen("i2") + ")",
              {"ahead1": "implies(i1.active, forall(0, len(keyseq(o2)), lambda j: implies(" + "mem(" + seen("i2") + ", keyseq(o2)[j]), keyseq(o2)[j] < i1.key)))" if False else "True"})],
  props=["C10"])


# --------------------------------------------------------------------------
# Lemma L2 about prefix_elems, proved by induction on p (downwards from n-1):
# two solver queries over the defining axioms of prefix_elems.
def _pe_remaining_lemma():
    import z3
    from pyvc.spec import PE, KARR, pe_axioms
    c = z3.Const("c", KARR)
    n, p = z3.Int("n"), z3.Int("p")
    k = z3.Real("k")
    i, j = z3.Int("i"), z3.Int("j")
    srt = z3.ForAll([i, j], z3.Implies(z3.And(0 <= i, i < j, j < n), z3.Select(c, i) < z3.Select(c, j)))

    def Q(pp, kk):
        return z3.Implies(z3.And(z3.Select(PE(c, n), kk), z3.Not(z3.Select(PE(c, pp), kk))), z3.Select(c, pp) <= kk)
    k2 = z3.Real("k2")
    ax = pe_axioms(full=True)
    base = ("base", ax + [srt, n >= 1, p == n - 1], Q(p, k))
    step = ("step", ax + [srt, 0 <= p, p + 1 < n, z3.ForAll([k2], Q(p + 1, k2))], Q(p, k))
    return [base, step]


_l = C("lemma:pe_remaining", props=["C10", "C12"])
_l.lemma = _pe_remaining_lemma


# Lemma L3, by induction on n: every key of c[0:n] belongs to prefix_elems(c, n).
def _pe_member_lemma():
    import z3
    from pyvc.spec import PE, KARR, pe_axioms
    c = z3.Const("c", KARR)
    n, j, j2 = z3.Int("n"), z3.Int("j"), z3.Int("j2")
    ax = pe_axioms(full=True)

    def M(nn, jj):
        return z3.Implies(z3.And(0 <= jj, jj < nn), z3.Select(PE(c, nn), z3.Select(c, jj)))
    return [("base", ax + [n == 0], M(n, j)),
            ("step", ax + [n >= 0, z3.ForAll([j2], M(n, j2))], M(n + 1, j))]


_l3 = C("lemma:pe_member", props=["C10", "C12"])
_l3.lemma = _pe_member_lemma

LEMMA_INST = {"L2_o1": "implies(o1 is not None, pe_remaining(keyseq(o1)))",
              "L2_o2": "implies(o2 is not None, pe_remaining(keyseq(o2)))",
              "L3_o1": "implies(o1 is not None, pe_member(keyseq(o1)))",
              "L3_o2": "implies(o2 is not None, pe_member(keyseq(o2)))"}
INTER = "sinter(" + seen("i1") + ", " + seen("i2") + ")"
FRONTIER = {
    "frontier12": "implies(i2.active, all_below(" + seen("i1") + ", i2.key))",
    "frontier21": "implies(i1.active, all_below(" + seen("i2") + ", i1.key))",
    # what a cursor has consumed are keys of its sequence
    "sub1": "subset(" + seen("i1") + ", " + allkeys("i1") + ")",
    "sub2": "subset(" + seen("i2") + ", " + allkeys("i2") + ")",
    # L2 instantiated at the cursor: what a cursor has not consumed yet is not below its current key
    "rest1": "implies(i1.active, forall_key(lambda k: implies(mem(" + allkeys("i1") + ", k) and not mem(" + seen("i1") + ", k), i1.key <= k)))",
    "rest2": "implies(i2.active, forall_key(lambda k: implies(mem(" + allkeys("i2") + ", k) and not mem(" + seen("i2") + ", k), i2.key <= k)))",
}
# redefine intersection with the frontier invariant (replaces the placeholder above)
CONTRACTS[:] = [c for c in CONTRACTS if c.name != "intersection"]
C("intersection", params=SETOP_PARAMS, requires=dict(SORTED_IN), returns=["none", "any", "ref"],
  ensures=dict(RESULT_SET, mathematical="implies(" + BOTH + ", set_eq(elems(result._keys), sinter(" + K1 + ", " + K2 + ")))"),
  modifies=[], ghost={"allocates": True, "lemma_instances": LEMMA_INST},
  loops=[loop(INTER, FRONTIER)], props=["C10"])

DIFF_PARAMS = {"set_type": "cls:Set", "o1": OPERAND, "o2": OPERAND}
DIFF_RESULT = {
    "none_rule": "implies(o1 is None or o2 is None, result is o1)",
    "new_container": "implies(" + BOTH + ", fresh(result) and fresh(result._keys))",
    "sorted_duplicate_free": "implies(" + BOTH + ", sorted_strict(result._keys))",
    "mathematical": "implies(" + BOTH + ", set_eq(elems(result._keys), sdiff(" + K1 + ", " + K2 + ")))",
}
C("difference", params=DIFF_PARAMS, requires=dict(SORTED_IN), returns=["none", "any", "ref"],
  ensures=DIFF_RESULT, modifies=[], ghost={"allocates": True, "lemma_instances": LEMMA_INST},
  loops=[loop("sdiff(" + seen("i1") + ", " + K2 + ")", dict(FRONTIER), values=True),
         loop("sdiff(" + seen("i1") + ", " + K2 + ")", dict(FRONTIER, other_done="implies(i1.active, not i2.active)"), values=True)],
  props=["C10"])
