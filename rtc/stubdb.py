"""A minimal in-memory stand-in for a ZODB storage + connection, written for the
bounded stand-ins of C04 / C05 / C08 because ZODB is not installed.  It is a
*model of the environment*, stated as such in the evidence; it follows

  * the IPersistentDataManager contract of persistent/interfaces.py
    (register, readCurrent, setstate, oldstate; a per-connection
    persistent.PickleCache that owns the ghosts), and
  * ZODB's documented optimistic commit (ZODB/Connection.py, ConflictResolution.py):
    one record per oid = class + pickle of __getstate__() written with
    persistent_id; objects first reached while pickling a registered object get
    a new oid and are written too; every record carries the serial (tid) of
    the transaction that wrote it; a registered object whose serial is not the
    current one is a write conflict, handed to klass.__new__(klass).
    _p_resolveConflict(old, committed, new) with the three states un-pickled so
    that every sub-object is a reference placeholder (equal iff same oid), and
    the commit is refused if that raises; objects declared with readCurrent and
    not written themselves must still be current; connections read a snapshot
    (MVCC) that moves forward at transaction boundaries, when the objects other
    transactions wrote meanwhile are invalidated; abort invalidates the
    registered objects and forgets objects added / given an oid meanwhile.

Nothing here knows anything about BTrees.
"""
import io
import pickle

from persistent import Persistent, PickleCache

Z64 = b"\0" * 8


def p64(n):
    return n.to_bytes(8, "big")


def u64(b):
    return int.from_bytes(b, "big")


class ConflictError(Exception):
    """The commit was refused.  kind: 'write' (unresolved write conflict) or
    'read' (a readCurrent object was changed meanwhile); cause: the exception
    _p_resolveConflict raised, if any."""

    def __init__(self, msg, oid=None, kind="write", cause=None):
        Exception.__init__(self, msg)
        self.oid, self.kind, self.cause = oid, kind, cause


class Ref:
    """Placeholder for a persistent sub-object inside conflict resolution
    (ZODB's PersistentReference): compares equal iff same oid, unhashable."""
    __slots__ = ("oid",)
    __hash__ = None

    def __init__(self, oid):
        self.oid = oid

    def __eq__(self, other):
        return isinstance(other, Ref) and other.oid == self.oid

    def __ne__(self, other):
        return not self.__eq__(other)

    def __repr__(self):
        return "Ref(%d)" % u64(self.oid)


class Storage:
    def __init__(self):
        self.revs = {}      # oid -> [(tid, pickle)] in commit order
        self.cls = {}       # oid -> class (fixed for the life of an oid)
        self.log = {}       # tid -> [oid] written by that transaction
        self.tid = 0
        self.noid = 0

    def fork(self):
        """An independent copy (records are immutable, so this is shallow)."""
        s = Storage()
        s.revs = {k: list(v) for k, v in self.revs.items()}
        s.cls, s.log, s.tid, s.noid = dict(self.cls), dict(self.log), self.tid, self.noid
        return s

    def new_oid(self):
        self.noid += 1
        return p64(self.noid)

    def load_before(self, oid, tid):
        """Newest revision written at or before tid -> (serial, pickle)."""
        for t, data in reversed(self.revs[oid]):
            if t <= tid:
                return t, data
        raise KeyError((oid, tid))

    def load_serial(self, oid, tid):
        for t, data in self.revs[oid]:
            if t == tid:
                return data
        raise KeyError((oid, tid))

    def current_tid(self, oid):
        r = self.revs.get(oid)
        return r[-1][0] if r else None

    def open(self):
        return Connection(self)


class Connection:
    """The data manager (`_p_jar`) of the objects of one connection."""

    def __init__(self, storage):
        self.storage = storage
        self.snapshot = storage.tid
        self.cache = self._cache = PickleCache(self, 10 ** 6)
        self.registered = []        # objects that announced a change (in order)
        self.added = {}             # oid -> object added by add() in this transaction
        self.creating = []          # objects given an oid by the running commit
        self.read_current = {}      # oid -> serial declared in this transaction
        self.read_log = []          # every readCurrent call (never cleared by commit)
        self.loads = 0              # setstate calls (ghosts made whole)
        self.written = []           # oids written by the last successful commit

    # ---- IPersistentDataManager
    def setstate(self, obj):
        tid, data = self.storage.load_before(obj._p_oid, self.snapshot)
        obj.__setstate__(self._loads(data))
        obj._p_serial = p64(tid)
        self.loads += 1

    def oldstate(self, obj, tid):
        return self._loads(self.storage.load_serial(obj._p_oid, u64(tid)))

    def register(self, obj):
        self.registered.append(obj)

    def readCurrent(self, obj):
        assert obj._p_jar is self and obj._p_oid is not None
        self.read_log.append(obj._p_oid)
        if obj._p_serial != Z64:        # as ZODB: a never-stored object has nothing to be current with
            self.read_current[obj._p_oid] = obj._p_serial

    # ---- objects
    def add(self, obj):
        oid = self.storage.new_oid()
        obj._p_jar, obj._p_oid = self, oid     # enters the cache when it is first written (as in ZODB):
        self.added[oid] = obj                  # until then it has no record and must not become a ghost
        self.registered.append(obj)
        return oid

    def get(self, oid):
        obj = self.cache.get(oid)
        if obj is None:
            cls = self.storage.cls[oid]
            obj = cls.__new__(cls)
            self.cache.new_ghost(oid, obj)
        return obj

    def nodes(self):
        """Every object this connection knows by oid (ghost or not)."""
        return [o for _, o in self.cache.items()]

    def sweep(self, how="minimize", only=None):
        """Evict whatever may be evicted: cache.minimize(), or _p_deactivate()
        on every cached object [that satisfies `only`] (both refuse changed
        and pinned objects)."""
        if how == "minimize" and only is None:
            self.cache.minimize()
        else:
            for o in self.nodes():
                if only is None or only(o):
                    o._p_deactivate()

    # ---- pickling with persistent references
    def _loads(self, data, resolver=None):
        up = pickle.Unpickler(io.BytesIO(data))
        up.persistent_load = resolver or self.get
        return up.load()

    def _dumps(self, state, found):
        def persistent_id(o):
            if isinstance(o, Ref):
                return o.oid
            if isinstance(o, Persistent):
                if o._p_oid is None:            # first reached now: becomes part of this commit
                    o._p_jar, o._p_oid = self, self.storage.new_oid()
                    self.cache[o._p_oid] = o
                    self.creating.append(o)
                    found.append(o)
                elif o._p_jar is not self:
                    raise ValueError("reference to an object of another connection")
                return o._p_oid
            return None
        f = io.BytesIO()
        p = pickle.Pickler(f, 3)
        p.persistent_id = persistent_id
        p.dump(state)
        return f.getvalue()

    def _resolve(self, obj, newdata):
        st, oid, cls = self.storage, obj._p_oid, type(obj)
        refs = {}

        def ref(o):
            return refs.setdefault(o, Ref(o))
        old = self._loads(st.load_serial(oid, u64(obj._p_serial)), ref)
        com = self._loads(st.revs[oid][-1][1], ref)
        new = self._loads(newdata, ref)
        try:
            res = cls.__new__(cls)._p_resolveConflict(old, com, new)
        except Exception as e:    # ZODB: ConflictError -> refused; anything else is logged and refused too
            raise ConflictError("unresolved write conflict on %s %d: %s %s" %
                                (cls.__name__, u64(oid), type(e).__name__, e.args), oid, "write", e)
        return self._dumps(res, [])

    # ---- transaction boundaries
    def commit(self):
        """Write exactly the registered objects that are changed (or added) and
        the objects newly reachable from them.  Raises ConflictError (after
        aborting) when the transaction cannot be committed."""
        st = self.storage
        todo, seen, records, resolved = list(self.registered), set(), [], []
        try:
            i = 0
            while i < len(todo):
                obj = todo[i]
                i += 1
                oid = obj._p_oid
                if oid is None or oid in seen:
                    continue
                if not (oid in self.added or obj._p_changed or any(o is obj for o in self.creating)):
                    continue        # registered but not changed any more: legal, nothing to write
                seen.add(oid)
                if oid in self.added and self.cache.get(oid) is None:
                    self.cache[oid] = obj
                data = self._dumps(obj.__getstate__(), todo)
                cur = st.current_tid(oid)
                if cur is not None and cur != u64(obj._p_serial):
                    data = self._resolve(obj, data)
                    resolved.append(obj)
                records.append((obj, data))
            for oid, serial in self.read_current.items():
                if oid not in seen and st.current_tid(oid) != u64(serial):
                    raise ConflictError("object %d declared readCurrent was changed" % u64(oid), oid, "read")
        except BaseException:
            self.abort()
            raise
        st.tid += 1
        st.log[st.tid] = [o._p_oid for o, _ in records]
        for obj, data in records:
            st.revs.setdefault(obj._p_oid, []).append((st.tid, data))
            st.cls[obj._p_oid] = type(obj)
            obj._p_changed = False
            obj._p_serial = p64(st.tid)
        for obj in resolved:        # what was stored is the merge, not what is in memory
            obj._p_invalidate()
        self.written = st.log[st.tid]
        self._new_transaction(set(self.written))
        return st.tid

    def abort(self):
        for obj in self.registered:
            oid = obj._p_oid
            if oid is None:
                continue
            if oid in self.added:
                self._forget(obj)
            else:
                self.cache.invalidate(oid)
        for obj in self.creating:
            if obj._p_oid is not None:
                self._forget(obj)
        self._new_transaction(())

    def _forget(self, obj):
        if self.cache.get(obj._p_oid) is not None:
            del self.cache[obj._p_oid]
        del obj._p_jar
        del obj._p_oid

    def _new_transaction(self, mine):
        st = self.storage
        for tid in range(self.snapshot + 1, st.tid + 1):
            for oid in st.log.get(tid, ()):
                if oid not in mine and self.cache.get(oid) is not None:
                    self.cache.invalidate(oid)
        self.snapshot = st.tid
        self.registered, self.added, self.creating, self.read_current = [], {}, [], {}
