"""Engine C front end: run an analysis class over functions of one or more
translation units, discharge the obligations with z3 (one process per chunk
of functions; the TU is parsed once per family and shared by fork)."""
import concurrent.futures as cf
import dataclasses
import multiprocessing
import os
import sys
import time
import traceback

ASSUMPTIONS = [
    "A4 the CPython / persistent C API table cvc/capi.py (which calls cannot run Python code; reference semantics)",
    "A5 clang 14's AST of the translation unit and the gcc-built extension agree on the C semantics of the constructs modelled",
    "A6 C memory model of cvc/cexec.py: integers are mathematical unless an analysis says bit-precise; "
    "one heap array per struct field / pointee type, address = pointer + index",
    "A7 soundness of z3 and of this VC generator (mitigated by the canary mutants of the selftest)",
]

_TU = {}


@dataclasses.dataclass
class Result:
    obligations: list
    functions: list
    assumptions: list
    trusted: list
    solver_time: dict
    errors: list
    havocs: dict = None


def analyses():
    from . import tpin
    d = {"T-PIN": tpin.TPin}
    for modname, names in (("fconv", ["F-CONV"]), ("tref", ["T-REF"]), ("trc", ["T-RC"]),
                           ("tdirty", ["T-DIRTY"]), ("malloc", ["M-ALLOC"]), ("fsort", ["F-SORT"]),
                           ("tuse", ["T-USE"]), ("midx", ["M-IDX"]), ("fsearch", ["F-SEARCH"]), ("funiq", ["F-UNIQ"]), ("fsplit", ["F-SPLIT"]), ("funlink", ["F-UNLINK"]), ("fleaf", ["F-LEAF"]), ("fstate", ["F-STATE"]), ("mnull", ["M-NULL"])):
        try:
            mod = __import__("cvc." + modname, fromlist=["x"])
        except ImportError:
            continue
        for nm in names:
            d[nm] = mod.ANALYSIS[nm]
    return d


def _all_proved(ex, timeout):
    import z3
    for o in ex.obls:
        s = z3.Solver()
        s.set("timeout", min(timeout, 5000))
        s.add(*o.hyps)
        s.add(z3.Not(o.goal))
        if s.check() != z3.unsat:
            return False
    return True


def _n_open(ex, timeout, stop_at=None):
    """(open loop-invariant obligations, open other obligations): a candidate
    whose invariant is not even inductive is worse than one that is."""
    import z3
    bad = set()
    for o in ex.obls:
        if o.name in bad:
            continue
        s = z3.Solver()
        s.set("timeout", 1500)
        s.add(*o.hyps)
        s.add(z3.Not(o.goal))
        if s.check() != z3.unsat:
            bad.add(o.name)
    return (sum(1 for b in bad if ":loop-" in b), sum(1 for b in bad if ":loop-" not in b))


def _work(args):
    family, kind, fname, timeout = args
    import z3
    from .cexec import Unsupported
    t0 = time.time()
    try:
        tu = _TU[family]
        cls = analyses()[kind]
        if kind == "T-USE":
            from . import tuse
            ex = tuse.houdini(tu, fname, timeout)
        elif kind == "M-IDX":
            from . import midx
            ex = midx.houdini(tu, fname)
        else:
            ex = cls(tu, fname)
            ex.run()
        if kind not in ("T-USE", "M-IDX") and hasattr(ex, "pointer_locals") and any(":loop-" in o.name for o in ex.obls) and not _all_proved(ex, timeout):
            # Houdini-style choice of the loop invariant: which pointer locals
            # may be pinned at a loop head (hand-over-hand descent).  The
            # strongest candidate under which every obligation discharges wins.
            import itertools as _it
            ptrs = ex.pointer_locals()
            flags = ex.flag_locals()
            # candidate disjuncts: "o == p" and "o == p and flag != 0"
            cands = [((p, None), pn) for p, pn in ptrs] + \
                    [((p, g), "%s if %s" % (pn, gn)) for p, pn in ptrs for g, gn in flags]
            best = (_n_open(ex, timeout), 0, ex)
            ZERO = (0, 0)
            for k in (1, 2):
                if best[0] == ZERO:
                    break
                for combo in _it.combinations(cands, k):
                    if k == 2 and combo[0][0][0] == combo[1][0][0]:
                        continue
                    cand = cls(tu, fname)
                    cand.allowed = tuple(c[0] for c in combo)
                    cand.run()
                    cand.invariant_choice = [c[1] for c in combo]
                    nopen = _n_open(cand, timeout, best[0])
                    if nopen < best[0]:
                        best = (nopen, k, cand)
                    if nopen == ZERO:
                        break
            ex = best[2]
        groups = {}
        for o in ex.obls:
            groups.setdefault(o.name, []).append(o)
        out = []
        stime = 0.0
        for nm, obls in groups.items():
            status, detail, model = "proved", "", None
            tt = 0.0
            for o in obls:
                s = z3.Solver()
                s.set("timeout", timeout)
                s.add(*o.hyps)
                s.add(z3.Not(o.goal))
                t = time.time()
                r = s.check()
                tt += time.time() - t
                if r == z3.sat:
                    status = "refuted"
                    detail = o.detail
                    model = ex.describe_model(s.model(), o) if hasattr(ex, "describe_model") else None
                    break
                if r != z3.unsat:
                    status = "unknown"
                    detail = "z3: %s %s" % (r, o.detail)
                    break
            stime += tt
            out.append({"name": nm, "status": status, "time_s": tt, "n_vcs": len(obls),
                        "detail": detail, "model": model})
        for cname, hyps in getattr(ex, "covers", []):
            s = z3.Solver()
            s.set("timeout", timeout)
            s.add(*hyps)
            r = s.check()
            out.append({"name": cname, "status": "proved" if r == z3.sat else "error", "time_s": 0.0,
                        "n_vcs": 1, "detail": "" if r == z3.sat else "cover query is %s: vacuous obligation" % r,
                        "model": None})
        return {"family": family, "kind": kind, "function": fname, "obls": out, "error": None,
                "havocs": sorted(set(ex.havocs))[:30], "solver_time": stime, "wall": time.time() - t0,
                "skipped": getattr(ex, "skipped", None)}
    except Unsupported as e:
        return {"family": family, "kind": kind, "function": fname, "obls": [],
                "error": "unsupported: %s" % e, "unsupported": True}
    except Exception as e:
        return {"family": family, "kind": kind, "function": fname, "obls": [],
                "error": "%s: %s\n%s" % (type(e).__name__, e, traceback.format_exc()[-1200:])}


def verify(families, kinds, functions=None, tier="quick", jobs=16, skip=(), match=None):
    """families: list of 'II', 'OO', ...; kinds: analysis ids; functions: None
    = every function definition of BTrees' own sources in the TU that the
    analysis selects (cls.applies)."""
    from lib.common import Obligation
    from . import cast
    timeout = 10000 if tier == "quick" else 60000
    work = []
    an = analyses()
    import concurrent.futures as _cf
    need = [f for f in families if f not in _TU]
    if need:
        with _cf.ThreadPoolExecutor(max_workers=min(8, len(need))) as tp:
            for fam, tu in zip(need, tp.map(cast.load_tu, need)):
                _TU[fam] = tu
    if "T-USE" in kinds:
        from . import tuse
        for fam in families:
            tuse._TUS[fam] = _TU[fam]
            tuse.prepare(fam, jobs)
    for fam in families:
        tu = _TU[fam]
        for kind in kinds:
            cls = an[kind]
            names = functions if functions is not None else sorted(tu.functions)
            if match is not None and functions is None:
                import re as _re
                names = [x for x in names if _re.search(match, x)]
            for fn in names:
                if fn not in tu.functions:
                    work.append((fam, kind, fn, timeout, "missing"))
                    continue
                if fn in skip:
                    continue
                if hasattr(cls, "applies") and not cls.applies(tu, fn):
                    if functions is not None:
                        # explicitly requested and nothing to check: never a silent pass
                        work.append((fam, kind, fn, timeout, "inapplicable"))
                    continue
                work.append((fam, kind, fn, timeout))
    obligations, functions_ok, errors, havocs = [], [], [], {}
    stime = 0.0
    real = [w for w in work if len(w) == 4]
    for w in work:
        if len(w) == 5:
            why = ("function %s not found in _%sBTree.c (renamed or deleted?)" % (w[2], w[0])) if w[4] == "missing" \
                else ("%s found nothing to check in %s of _%sBTree.c (shape of the code changed?)" % (w[1], w[2], w[0]))
            obligations.append(Obligation("cvc", w[2], "%s:%s:engine" % (w[1], w[2]), "error", detail=why))
    ctx = multiprocessing.get_context("fork")
    with cf.ProcessPoolExecutor(max_workers=min(jobs, max(1, len(real))), mp_context=ctx) as ex:
        results = list(ex.map(_work, real, chunksize=4))
    for r in results:
        fq = "%s[%s]" % (r["function"], r["family"])
        if r["error"]:
            obligations.append(Obligation("cvc", r["function"], "%s:%s:engine" % (r["kind"], r["function"]),
                                          "error", detail="[%s] %s" % (r["family"], r["error"])))
            errors.append(r["error"])
            continue
        ok = True
        for o in r["obls"]:
            obligations.append(Obligation("cvc", r["function"], o["name"], o["status"], solver="z3",
                                          time_s=o["time_s"], model=o["model"],
                                          detail="[%s] %s" % (r["family"], o["detail"]),
                                          key=o["name"]))
            ok = ok and o["status"] == "proved"
        if ok and r["obls"]:
            functions_ok.append("%s:%s" % (r["kind"], fq))
        if r.get("havocs"):
            havocs[fq] = r["havocs"]
        stime += r.get("solver_time", 0.0)
    assumes = list(ASSUMPTIONS)
    for kind in kinds:
        for a in getattr(an[kind], "ASSUMES", []):
            if a not in assumes:
                assumes.append(a)
    return Result(obligations, functions_ok, assumes,
                  ["CPython/persistent C API table (cvc/capi.py)"], {"z3": stime}, errors, havocs)


if __name__ == "__main__":
    sys.path.insert(0, os.path.dirname(os.path.dirname(os.path.abspath(__file__))))
    fam, kind = sys.argv[1], sys.argv[2]
    fns = sys.argv[3:] or None
    t = time.time()
    r = verify([fam], [kind], fns)
    bad = 0
    for o in r.obligations:
        if o.status != "proved":
            bad += 1
            print(o.status.upper(), o.name, "|", (o.detail or "")[:300], "|", o.model)
    print("%d obligations, %d not proved, %d functions ok, solver %.1fs wall %.1fs" %
          (len(r.obligations), bad, len(r.functions), r.solver_time["z3"], time.time() - t))
