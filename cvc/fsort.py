"""F-SORT (C11): the byte order used by the most significant pass of
radixsort_int agrees with the order of the translation unit's KEY_TYPE.

An LSD radix sort with stable passes orders elements by
    (rank(most significant byte), remaining bytes as an unsigned number)
where `rank` is the position of a byte value in the order in which the last
pass lays out its 256 piles.  That order is read off the real code: the
`for (i = A; i < B; ++i) index[i] = ...` loops of the branch that the last
pass takes, in program order.  The obligation is a bit-vector validity over
the declared element type (width and signedness from the AST):

    for all x, y :   x <_T y   <==>   key(x) <_unsigned key(y)
    key(v) = rank(msb(v)) . low_bytes(v)

Stability and correctness of the distribution passes themselves, quicksort and
uniq are NOT proved (bounded stand-in multiunion_rt).
"""
import z3

from .cexec import CExec, Oblig, Unsupported

WIDTHS = {"int": (32, True), "unsigned int": (32, False), "long long": (64, True),
          "unsigned long long": (64, False), "long": (64, True), "unsigned long": (64, False)}


def unwrap(n):
    while n.get("kind") in ("ParenExpr", "ImplicitCastExpr", "CStyleCastExpr", "ConstantExpr"):
        n = n["inner"][0]
    return n


def const(n):
    n = unwrap(n)
    if n.get("kind") == "IntegerLiteral":
        return int(n["value"])
    return None


def find(n, pred, out):
    if pred(n):
        out.append(n)
    for c in n.get("inner", []):
        if isinstance(c, dict):
            find(c, pred, out)
    return out


def index_loops(branch):
    """[(A, B)] of the `for (i = A; i < B; ..)` loops in `branch` that assign index[..]."""
    res = []
    for f in find(branch, lambda x: x.get("kind") == "ForStmt", []):
        init, _, cond, inc, body = f["inner"]
        writes = find(body, lambda x: x.get("kind") == "BinaryOperator" and x.get("opcode") == "=" and
                      unwrap(x["inner"][0]).get("kind") == "ArraySubscriptExpr" and
                      unwrap(unwrap(x["inner"][0])["inner"][0]).get("referencedDecl", {}).get("name") == "index", [])
        if not writes:
            continue
        a = const(unwrap(init)["inner"][1]) if unwrap(init).get("kind") == "BinaryOperator" else None
        c = unwrap(cond)
        b = const(c["inner"][1]) if c.get("kind") == "BinaryOperator" and c.get("opcode") == "<" else None
        if a is None or b is None:
            raise Unsupported("index loop with non-constant bounds")
        res.append((a, b))
    return res


class FSort(CExec):
    family = "F-SORT"

    @classmethod
    def applies(cls, tu, fname):
        return fname == "radixsort_int"

    def run(self):
        fn = self.fn
        params = [p for p in fn["inner"] if p["kind"] == "ParmVarDecl"]
        et = None
        for x in find(fn, lambda x: "element_type" in x.get("type", {}).get("qualType", "") and
                      "desugaredQualType" in x.get("type", {}), []):
            t = x["type"]["desugaredQualType"].replace("const", "").strip()
            if "*" not in t and "[" not in t and "(" not in t:
                et = t
                break
        if et is None:
            raise Unsupported("cannot determine element_type")
        if et not in WIDTHS:
            raise Unsupported("element type " + et)
        width, signed = WIDTHS[et]
        # the if-statement of the distribution loop whose branches compute index[]
        cands = [i for i in find(fn, lambda x: x.get("kind") == "IfStmt" and len(x["inner"]) == 3, [])
                 if index_loops(i["inner"][1]) and index_loops(i["inner"][2])]
        if len(cands) != 1:
            raise Unsupported("expected one index-computing if/else in radixsort_int, found %d" % len(cands))
        node = cands[0]
        cond = unwrap(node["inner"][0])
        lit = const(cond)
        if lit is not None:
            last = node["inner"][1] if lit else node["inner"][2]
            how = "condition is the literal %d" % lit
        elif cond.get("kind") == "BinaryOperator" and cond.get("opcode") == "<":
            # bytenum < sizeof(element_type) - 1 : false in the last pass
            last = node["inner"][2]
            how = "condition `bytenum < sizeof(element_type) - 1` is false in the last pass"
        else:
            raise Unsupported("unrecognised pass selector")
        order = index_loops(last)
        covered = sorted(v for a, b in order for v in range(a, b))
        if covered != list(range(256)):
            self.obls.append(Oblig("F-SORT:radixsort_int:msb-piles-cover-all-bytes", [], z3.BoolVal(False),
                                   "the last pass lays out piles %r" % (order,)))
            return
        x, y = z3.BitVecs("x y", width)

        def rank(b):      # position of byte value b in the pile order
            r, pos = None, 0
            for a, e in order:
                piece = (b - a + pos)
                r = piece if r is None else z3.If(z3.And(z3.UGE(b, a), z3.ULT(b, e)), piece, r)
                pos += e - a
            # first range is the default of the ite chain: rebuild properly
            res = z3.BitVecVal(0, 16)
            pos = 0
            for a, e in order:
                res = z3.If(z3.And(z3.UGE(b, a), z3.ULT(b, e)), b - a + pos, res)
                pos += e - a
            return res

        def key(v):
            msb = z3.ZeroExt(8, z3.Extract(width - 1, width - 8, v))          # 16 bits
            low = z3.Extract(width - 9, 0, v)
            return z3.Concat(z3.Extract(7, 0, rank(msb)), low)

        lt = (x < y) if signed else z3.ULT(x, y)
        self.obls.append(Oblig("F-SORT:radixsort_int:msb-order-agrees-with-KEY_TYPE[%s]" % et.replace(" ", "_"), [],
                               lt == z3.ULT(key(x), key(y)),
                               "last pass: %s; pile order %r; element type %s" % (how, order, et)))
        self.order = order

    def describe_model(self, model, obl):
        d = {}
        for v in model.decls():
            d[v.name()] = str(model[v])
        return d


ANALYSIS = {"F-SORT": FSort}
