"""Contracts for the three-way leaf merges of _base.py (C07, C08):
Set._p_resolveConflict and Bucket._p_resolveConflict.

Oracle, from the property statement.  O, C, N = the original, committed and
new leaf (decoded from the three states).  For a key k:
    changedC(k) := k's presence differs between C and O, or (mapping) its value does
    changedN(k) likewise;   conflict(k) := changedC(k) and changedN(k)
    merged(k)   := C's entry for k if changedC(k) else N's entry for k
The merge is returned exactly when: the successor link is the same in all
three, neither C nor N is empty, no key is in conflict, neither side removed
what was then the smallest key (min(O) < min(side)), and the merge is not
empty; then the returned state holds exactly merged(), in key order, with O's
link.  Otherwise BTreesConflictError.

Proof structure: one frontier invariant shared by all loops.  Every consumed
key of every cursor is below every current key (the loops always consume the
minimum); below the frontier the result equals merged() and no key is in
conflict.  `at_raise` clauses state, at each raise site, that the refusal is
justified (a conflict key exists, or the smallest-key / empty rules apply).
"""
from pyvc.spec import Contract
from contracts.py_setop import cur, seen, allkeys

CONTRACTS = []


def C(*a, **k):
    c = Contract(*a, **k)
    CONTRACTS.append(c)
    return c


MERGE_PROPS = ["C07"]
CUR = ("i_old", "i_com", "i_new")
BKT = {"i_old": "b_old", "i_com": "b_com", "i_new": "b_new"}


def K(b):
    return "prefix_elems(%s._keys, len(%s._keys))" % (b, b)


def inn(b, k):
    return "mem(%s, %s)" % (K(b), k)


def val(b, k):
    return "vlookup(%s._keys, %s._values, %s)" % (b, b, k)


def spec_macros(mapping):
    def ch(side, k):
        base = "(%s != %s)" % (inn(side, k), inn("b_old", k))
        if mapping:
            return "(%s or (%s and %s != %s))" % (base, inn(side, k), val(side, k), val("b_old", k))
        return base

    def conflict(k):
        return "(%s and %s)" % (ch("b_com", k), ch("b_new", k))

    def m_in(k):
        return "(%s if %s else %s)" % (inn("b_com", k), ch("b_com", k), inn("b_new", k))

    def m_val(k):
        return "(%s if %s else %s)" % (val("b_com", k), ch("b_com", k), val("b_new", k))
    return ch, conflict, m_in, m_val


def below_frontier(k):
    return " and ".join("implies(%s.active, %s < %s.key)" % (i, k, i) for i in CUR)


def invariant(mapping, extra=None):
    ch, conflict, m_in, m_val = spec_macros(mapping)
    inv = {
        "cursor_old": cur("i_old"), "cursor_com": cur("i_com"), "cursor_new": cur("i_new"),
        "distinct": ("i_old is not i_com and i_old is not i_new and i_com is not i_new and "
                     "i_old._iter is not i_com._iter and i_old._iter is not i_new._iter and i_com._iter is not i_new._iter and " +
                     " and ".join("fresh(%s) and fresh(%s._iter) and fresh(%s) and fresh(%s._keys)" % (i, i, BKT[i], BKT[i]) for i in CUR) +
                     " and fresh(result) and fresh(result._keys) and " +
                     " and ".join("result._keys is not %s._keys and result._keys is not it_vals(%s._iter)" % (BKT[i], i) for i in CUR) +
                     " and b_old._keys is not b_com._keys and b_old._keys is not b_new._keys and b_com._keys is not b_new._keys"),
        "sources": " and ".join("it_seq(%s._iter) is %s._keys and sorted_strict(%s._keys)" % (i, BKT[i], BKT[i]) for i in CUR),
        "sorted": "sorted_strict(result._keys)",
        "link": "b_com._next is b_old._next and b_new._next is b_old._next",
        "nonempty_sides": "len(b_com._keys) > 0 and len(b_new._keys) > 0",
        "result_kind": "is_cls(result, '%s')" % ("Bucket" if mapping else "Set"),
    }
    for i in CUR:
        inv["below_" + i] = "implies(%s.active, forall(0, len(result._keys), lambda r: result._keys[r] < %s.key))" % (i, i)
    for a in CUR:
        inv["sub_" + a] = "subset(%s, %s)" % (seen(a), allkeys(a))
    for a in CUR:
        for b in CUR:
            if True:
                inv["front_%s_%s" % (a, b)] = "implies(%s.active, all_below(%s, %s.key))" % (b, seen(a), b)
    # L2 instantiated at each cursor: what it has not consumed yet is not below its current key
    for i in CUR:
        inv["rest_" + i] = ("implies(%s.active, forall_key(lambda k: implies(mem(%s, k) and not mem(%s, k), %s.key <= k)))"
                            % (i, allkeys(i), seen(i), i))
    # the result is the merge of what has been CONSUMED so far (the consumed prefixes are aligned
    # by the frontier), and no consumed key is in conflict - set equations without a frontier guard
    def sn(i, k):
        return "mem(%s, %s)" % (seen(i), k)

    def chs(i, k):
        base = "(%s != %s)" % (sn(i, k), sn("i_old", k))
        if mapping:
            return "(%s or (%s and %s != %s))" % (base, sn(i, k), val(BKT[i], k), val("b_old", k))
        return base
    inv["content"] = ("forall_key(lambda k: mem(elems(result._keys), k) == (" + sn("i_com", "k") + " if " + chs("i_com", "k") +
                      " else " + sn("i_new", "k") + "))")
    inv["no_conflict_so_far"] = "forall_key(lambda k: not (" + chs("i_com", "k") + " and " + chs("i_new", "k") + "))"
    inv["result_from_inputs"] = "forall_key(lambda k: implies(mem(elems(result._keys), k), " + below_frontier("k") + "))"
    # the smallest-key rule has not been violated by what was consumed so far:
    # a consumed key of O that a side dropped is above that side's first key
    inv["first_key_rule_com"] = ("forall_key(lambda k: implies(mem(" + seen("i_old") + ", k) and not " + inn("b_com", "k") +
                                 ", b_com._keys[0] < k))")
    inv["first_key_rule_new"] = ("forall_key(lambda k: implies(mem(" + seen("i_old") + ", k) and not " + inn("b_new", "k") +
                                 ", b_new._keys[0] < k))")
    if mapping:
        inv["paired"] = "len(result._values) == len(result._keys) and result._values is not result._keys"
        inv["values"] = ("forall(0, len(result._keys), lambda r: result._values[r] == (" + val("b_com", "result._keys[r]") + " if " +
                         chs("i_com", "result._keys[r]") + " else " + val("b_new", "result._keys[r]") + "))")
        inv["value_sources"] = " and ".join("it_vals(%s._iter) is %s._values and len(%s._values) == len(%s._keys) and %s.useValues"
                                            % (i, BKT[i], BKT[i], BKT[i], i) for i in CUR)
    if extra:
        inv.update(extra)
    return inv


def loop(mapping, extra=None):
    mods = []
    for i in CUR:
        mods += ["%s.key" % i, "%s.value" % i, "%s.position" % i, "%s.active" % i, "%s._iter.$it_pos" % i]
    mods += ["list:result._keys"] + (["list:result._values", "result._p_changed"] if mapping else [])
    return {"inv": invariant(mapping, extra), "modifies": mods, "chain": True,
            "dec": " + ".join("((len(it_seq(%s._iter)) - %s.position + 1) if %s.active else 0)" % (i, i, i) for i in CUR)}


# facts the cursor-shape clauses depend on (hypothesis slicing, pyvc/engine.py `sliced`)
CURSOR_FACTS = ["inv:cursor_*", "inv:distinct", "inv:sources", "inv:value_sources", "inv:result_kind", "inv:paired",
                "post:_SetIteration.*", "post:*__setstate__:*", "post:*clear:*", "req:*"]


# facts the frontier clauses depend on
FRONT_FACTS = CURSOR_FACTS + ["inv:phase", "inv:front_*", "inv:sub_*", "inv:rest_*", "new:cursor_*", "new:sources", "new:distinct",
                              "new:front_*", "new:sub_*", "lemma:*"]


SIMPLE_FACTS = CURSOR_FACTS + ["inv:link", "inv:nonempty_sides", "inv:phase", "post:*", "new:cursor_*", "new:distinct", "new:sources"]
ORDER_FACTS = FRONT_FACTS + ["inv:sorted", "inv:below_*", "post:*"]
CONTENT_FACTS = FRONT_FACTS + ["inv:content", "inv:result_from_inputs", "inv:below_*", "inv:sorted", "new:rest_*", "new:below_*",
                               "new:sorted", "post:Bucket.__setitem__:*"]


def contract(cls):
    mapping = cls == "Bucket"
    ch, conflict, m_in, m_val = spec_macros(mapping)
    state = [("tuple", ["list:U"]), ("tuple", ["list:U", "ref"])] if mapping else \
            [("tuple", ["list:K"]), ("tuple", ["list:K", "ref"])]
    typed = ("len(%(s)s[0]) == 2 * (len(%(s)s[0]) // 2) and forall(0, len(%(s)s[0]) // 2, lambda j: "
             "is_key(%(s)s[0][2 * j]) and is_val(%(s)s[0][2 * j + 1])) and "
             "forall(0, len(%(s)s[0]) // 2, lambda i, j: implies(i < j, key_of(%(s)s[0][2 * i]) < key_of(%(s)s[0][2 * j])))") \
        if mapping else "sorted_strict(%(s)s[0])"
    req = {}
    for s_ in ("s_old", "s_com", "s_new"):
        req["wellformed_" + s_] = "implies(%(s)s is not None, is_tuple(%(s)s[0]) and allocated(%(s)s[0]) and %(t)s)" % {
            "s": s_, "t": typed % {"s": s_}}
    # --- justification of each refusal (evaluated at the raise site) ---------
    ANYC = "exists_key(lambda k: " + conflict("k") + ")"
    FIRST = ("(len(b_old._keys) > 0 and (b_old._keys[0] < b_com._keys[0] or b_old._keys[0] < b_new._keys[0]))")
    just = {
        "reason_0_link": "implies(exc_args[3] == 0, b_com._next is not b_old._next or b_new._next is not b_old._next)",
        "reason_12_empty": "implies(exc_args[3] == 12, len(b_com._keys) == 0 or len(b_new._keys) == 0)",
        "reason_13_first_key": "implies(exc_args[3] == 13, " + FIRST + ")",
        "reason_10_empty_merge": "implies(exc_args[3] == 10, len(result._keys) == 0)",
        "reason_conflict": "implies(exc_args[3] != 0 and exc_args[3] != 12 and exc_args[3] != 13 and exc_args[3] != 10, " + ANYC + ")",
    }
    # --- the successful merge (locals as ghost out-parameters) ---------------
    dec = {}
    for b, s_ in (("b_old", "s_old"), ("b_com", "s_com"), ("b_new", "s_new")):
        if mapping:
            dec["decoded_" + s_] = ("(len(%(b)s._keys) == 0 and %(b)s._next is None) if %(s)s is None else ("
                                    "len(%(b)s._keys) == len(%(s)s[0]) // 2 and len(%(b)s._values) == len(%(b)s._keys) and "
                                    "forall(0, len(%(b)s._keys), lambda j: %(b)s._keys[j] == key_of(%(s)s[0][2 * j]) and "
                                    "%(b)s._values[j] == val_of(%(s)s[0][2 * j + 1])) and "
                                    "%(b)s._next is (None if kind_of(%(s)s) == 'tuple1' else %(s)s[1]))") % {"b": b, "s": s_}
        else:
            dec["decoded_" + s_] = ("(len(%(b)s._keys) == 0 and %(b)s._next is None) if %(s)s is None else ("
                                    "len(%(b)s._keys) == len(%(s)s[0]) and "
                                    "forall(0, len(%(b)s._keys), lambda j: %(b)s._keys[j] == %(s)s[0][j]) and "
                                    "%(b)s._next is (None if kind_of(%(s)s) == 'tuple1' else %(s)s[1]))") % {"b": b, "s": s_}
    ens = dict(dec)
    ens.update({
        "merged_keys": "forall_key(lambda k: mem(elems(R._keys), k) == " + m_in("k") + ")",
        "no_key_in_conflict": "forall_key(lambda k: not " + conflict("k") + ")",
        "first_keys_kept": "not " + FIRST,
        "same_link": "b_com._next is b_old._next and b_new._next is b_old._next",
        "sides_not_empty": "len(b_com._keys) > 0 and len(b_new._keys) > 0",
        "merge_not_empty": "len(R._keys) > 0",
        "in_key_order": "sorted_strict(R._keys)",
        "link_out": "iff(b_old._next is None, kind_of(result) == 'tuple1') and (kind_of(result) == 'tuple1' or result[1] is b_old._next)",
    })
    if mapping:
        ens["merged_values"] = "len(R._values) == len(R._keys) and forall(0, len(R._keys), lambda r: R._values[r] == " + m_val("R._keys[r]") + ")"
        ens["encoded"] = ("is_tuple(result[0]) and len(result[0]) == 2 * len(R._keys) and forall(0, len(R._keys), lambda j: "
                          "is_key(result[0][2 * j]) and key_of(result[0][2 * j]) == R._keys[j] and "
                          "is_val(result[0][2 * j + 1]) and val_of(result[0][2 * j + 1]) == R._values[j])")
    else:
        ens["encoded"] = ("is_tuple(result[0]) and len(result[0]) == len(R._keys) and "
                          "forall(0, len(R._keys), lambda j: result[0][j] == R._keys[j])")
    lem = {}
    for b in ("b_old", "b_com", "b_new"):
        pass
    return C("%s._p_resolveConflict" % cls, cls=cls,
             params={"s_old": ["none"] + state, "s_com": ["none"] + state, "s_new": ["none"] + state},
             requires=req, returns=state, ensures=ens,
             raises={"BTreesConflictError": {}},
             modifies=[],
             ghost={"allocates": True, "no_compare": True, "split_cases": 1, "single_exit": True, "heavy": True,
                    # quick tier: all three states with a successor link (and, for sets, all without)
                    "quick_cases": [26] if mapping else [26, 13],
                    # thorough tier: sets - all 27 shape combinations; mappings - every shape of the original state
                    # with the committed and new states of one shape each (9 of 27; the decoding of a state does
                    # not depend on the shapes of the other two)
                    **({"thorough_cases": [0, 4, 8, 9, 13, 17, 18, 22, 26]} if mapping else {}),
                    "uses": {"*:cursor_*": CURSOR_FACTS, "call:_SetIteration.advance:requires:*": CURSOR_FACTS,
                             "*:distinct": CURSOR_FACTS, "*:sources": CURSOR_FACTS, "*:value_sources": CURSOR_FACTS,
                             "*:preserve:front_*": FRONT_FACTS, "*:preserve:sub_*": FRONT_FACTS, "*:preserve:rest_*": FRONT_FACTS,
                             "*:preserve:link": SIMPLE_FACTS, "*:preserve:nonempty_sides": SIMPLE_FACTS,
                             "*:preserve:result_kind": SIMPLE_FACTS, "*:preserve:phase": SIMPLE_FACTS,
                             "*:preserve:paired": SIMPLE_FACTS,
                             "*:preserve:sorted": ORDER_FACTS, "*:preserve:below_*": ORDER_FACTS,
                             "*:frame:*": SIMPLE_FACTS,
                             },
                    "witness": {"R": "result", "b_old": "b_old", "b_com": "b_com", "b_new": "b_new"},
                    "at_raise": {"BTreesConflictError": just},
                    "loop_lemmas": ["pe_remaining(b_old._keys)", "pe_remaining(b_com._keys)", "pe_remaining(b_new._keys)",
                                    "pe_member(b_old._keys)", "pe_member(b_com._keys)", "pe_member(b_new._keys)"] +
                    (["vlookup_def(b_old._keys, b_old._values)", "vlookup_def(b_com._keys, b_com._values)",
                      "vlookup_def(b_new._keys, b_new._values)"] if mapping else [])},
             loops=[loop(mapping),                                                    # all three active
                    loop(mapping, {"phase": "not i_old.active or not i_com.active or not i_new.active"}),   # com & new
                    loop(mapping, {"phase": "not (i_old.active and i_com.active and i_new.active) and not (i_com.active and i_new.active)"}),   # old & com
                    loop(mapping, {"phase": "not (i_com.active and i_new.active) and not (i_old.active and i_com.active)"}),   # old & new
                    loop(mapping, {"phase": "not i_old.active and not (i_com.active and i_new.active)"}),   # com only
                    loop(mapping, {"phase": "not i_old.active and not i_com.active"})],      # new only
             props=MERGE_PROPS)


contract("Set")
contract("Bucket")
