"""Bounded stand-in for C14 (faulty key comparison), object-keyed families.

Oracle (properties.jsonl, C14): "If comparing two keys raises at any point
during an operation on an object-keyed container, the exception reaches the
caller and the container stays sound with either its previous contents or the
completed change - never a partial one; later operations behave normally and
no stored key or value is leaked or released twice."

A key class K counts its rich comparisons and raises on the n-th one.  For
every container shape x operation x n (until the operation needs fewer than n
comparisons) x exception class the call is made on a fresh container and the
clauses are evaluated one by one:
  reaches    the exception object that K raised is what the caller catches
  sound      H.walk + _check() (trees) / strictly increasing keys (leaves)
  contents   == previous, or == the reference result of the completed call
             (a call that stores/removes several keys may stop between keys)
  followup   lookups of all keys, insert + delete of a fresh key, len
  refcount   (C) sys.getrefcount change of every key/value == change of the
             number of slots holding it (H.slot_counts); reported as arg-leak
             when the object is a probe that never was stored
  leak-after-destroy  after dropping the containers the counts are those from
             before anything was stored and weak references to all keys/values
             are dead (both implementations, after a gc.collect())
"""
import argparse
import gc
import sys
import weakref

from lib.common import Standin, Failure, write_standin
from rtc import harness as H


class Boom(Exception):
    pass


class Ctl:
    count = 0
    fail_at = None          # 1-based index of the comparison that raises
    exc = Boom
    raised = None           # the exception object K raised


class K:
    """Totally ordered key; every rich comparison ticks the fault counter."""
    __slots__ = ("v", "__weakref__")

    def __init__(self, v):
        self.v = v

    def _tick(self):
        if Ctl.fail_at is not None:
            Ctl.count += 1
            if Ctl.count == Ctl.fail_at:
                Ctl.raised = Ctl.exc("comparison #%d" % Ctl.count)
                raise Ctl.raised

    def __lt__(self, o): self._tick(); return self.v < o.v
    def __le__(self, o): self._tick(); return self.v <= o.v
    def __gt__(self, o): self._tick(); return self.v > o.v
    def __ge__(self, o): self._tick(); return self.v >= o.v
    def __eq__(self, o): self._tick(); return self.v == o.v
    def __ne__(self, o): self._tick(); return self.v != o.v
    def __hash__(self): return hash(self.v)
    def __repr__(self): return "K(%r)" % (self.v,)


class V:
    """A value that is a real heap object (labelled, compared by identity)."""
    __slots__ = ("v", "__weakref__")

    def __init__(self, v):
        self.v = v

    def __repr__(self): return "V(%r)" % (self.v,)


def lab(x):
    return x.v if isinstance(x, (K, V)) else x


# A shape is a build recipe: +v stores key v (values are even), -v-1 removes it.
def recipes(quick):
    asc = lambda n: [2 * i for i in range(n)]
    r = [("asc%d" % n, asc(n)) for n in ((0, 1, 2, 3, 5, 8) if quick else (0, 1, 2, 3, 4, 5, 6, 8, 11, 14))]
    r.append(("desc6", asc(6)[::-1]))
    r.append(("asc9-front", asc(9) + [-1, -3]))           # empties the first leaf
    r.append(("asc9-mid", asc(9) + [-9, -11, -7]))        # thins the middle
    if not quick:
        r.append(("asc14-thin", asc(14) + [-(v + 1) for v in (0, 2, 4, 12, 14, 20)]))
    return r


class World:
    """Fresh objects of one case: stored keys sk, operand keys uk, probes pk, values."""

    def __init__(self, cls, is_set, recipe, obj_values):
        self.is_set = is_set
        universe = list(range(-2, 18 if H.tier() == "quick" else 30)) + [51, 71, 73, 99, 1001]
        self.sk = {v: K(v) for v in universe}
        self.uk = {v: K(v) for v in universe}
        self.pk = {v: K(v) for v in universe}
        self.vals = [V(i) for i in range(3)] if obj_values else [10, 11, 12]
        self.tracked = list(self.sk.values()) + list(self.uk.values()) + list(self.pk.values())
        if obj_values:
            self.tracked += self.vals
        self.base0 = [sys.getrefcount(o) for o in self.tracked]
        self.t = self.make(cls, recipe, self.sk)
        self.u = None
        self.held = []          # states held for the conflict merge

    def make(self, cls, steps, pool):
        t = cls()
        for s in steps:
            if s >= 0:
                t.add(pool[s]) if self.is_set else t.__setitem__(pool[s], self.vals[0])
            else:
                t.remove(pool[-s - 1]) if self.is_set else t.__delitem__(pool[-s - 1])
        return t

    def refs(self):
        return [sys.getrefcount(o) for o in self.tracked]

    def slots(self):
        return H.slot_counts([self.t, self.u, self.held], self.tracked)

    def contents(self):
        t = self.t
        return [lab(k) for k in t.keys()] if self.is_set else [(lab(k), lab(v)) for k, v in t.items()]


def operations(is_set, is_tree, d):
    """(kind, name, args) for a container whose reference contents are d."""
    ks = sorted(d)
    pres = [ks[0], ks[len(ks) // 2], ks[-1]] if ks else []
    pres = sorted(set(pres))
    mid = (ks[len(ks) // 2] + 1) if ks else 1        # absent, inside the range
    absent = [-1, mid, 99]
    ops = []
    for k in pres[1:2] + [mid]:
        ops += [("lookup", "contains", k), ("lookup", "has_key", k)]
        if not is_set:
            ops += [("lookup", "get", k), ("lookup", "getitem", k)]
    for k in absent:
        ops.append(("insert", "add", k) if is_set else ("insert", "setitem", k, 1))
    if not is_set:
        ops += [("insert", "setdefault", mid, 1)] + ([("insert", "insert", mid, 1)] if is_tree else [])
        for k in pres[1:2]:
            ops += [("replace", "setitem", k, 1), ("replace", "setdefault", k, 1)]
            ops += [("replace", "insert", k, 1)] if is_tree else []
            ops += [("delete", "pop", k), ("delete", "pop", mid, 2)]
        ops.append(("insert", "update", tuple((k, 1) for k in pres[1:2] + [mid, 99])))
    for k in pres:
        ops.append(("delete", "remove", k) if is_set else ("delete", "delitem", k))
    if is_set:
        ops += [("delete", "discard", k) for k in pres[1:2] + [mid]]
        arg = tuple(pres[1:] + [mid, 99])
        ops += [("algebra", n, arg) for n in ("supdate", "ior", "iand", "isub", "ixor", "isdisjoint")]
    lo, hi = (ks[0] + 1, ks[-1] - 1) if len(ks) > 1 else (-1, 99)
    for name in ("keys",) if is_set else ("keys", "values", "items", "iteritems"):
        ops += [("range", name, lo, hi), ("range", name, -1, 99)]
    ops += [("range", "keys_excl", lo - 1, hi + 1), ("range", "minKey", mid), ("range", "maxKey", mid)]
    ops += [("algebra", n) for n in ("union", "intersection", "difference", "op_or", "op_and", "op_sub")]
    if not is_tree or len(ks) <= 1:
        ops += [("merge", "resolve", 0), ("merge", "resolve", 1)]
    return ops


def prepare(w, op, cls):
    """No faults yet: build the second operand / the three states of a merge."""
    name = op[1]
    if op[0] == "algebra" and len(op) == 2:
        base = sorted(lab(k) for k in w.t.keys())
        w.u = w.make(cls, base[1::2] + [v + 1 for v in base[:2]] + [51], w.uk)
    elif name == "resolve":
        base = sorted(lab(k) for k in w.t.keys())
        if op[2] == 0 or not base:
            c1, c2 = base + [71], base + [51, 73]
        else:
            c1, c2 = base + [-base[0] - 1], base + [base[0] + 1]
        w.held = [w.t.__getstate__(), w.make(cls, c1, w.sk).__getstate__(), w.make(cls, c2, w.sk).__getstate__()]


def run_op(w, op, mod, py):
    t, name, a = w.t, op[1], op[2:]
    P = w.pk
    val = lambda i: w.vals[i]
    if name in ("contains",): return P[a[0]] in t
    if name == "has_key": return t.has_key(P[a[0]])
    if name == "get": return t.get(P[a[0]])
    if name == "getitem": return t[P[a[0]]]
    if name == "add": return t.add(P[a[0]])
    if name == "setitem": t[P[a[0]]] = val(a[1]); return None
    if name == "setdefault": return t.setdefault(P[a[0]], val(a[1]))
    if name == "insert": return t.insert(P[a[0]], val(a[1]))
    if name == "pop": return t.pop(P[a[0]], *[val(i) for i in a[1:]])
    if name == "update": return t.update([(P[k], val(i)) for k, i in a[0]])
    if name == "remove": return t.remove(P[a[0]])
    if name == "delitem": del t[P[a[0]]]; return None
    if name == "discard": return t.discard(P[a[0]])
    if name == "supdate": return t.update([P[k] for k in a[0]])
    if name == "ior": t |= [P[k] for k in a[0]]; return None
    if name == "iand": t &= [P[k] for k in a[0]]; return None
    if name == "isub": t -= [P[k] for k in a[0]]; return None
    if name == "ixor": t ^= [P[k] for k in a[0]]; return None
    if name == "isdisjoint": return t.isdisjoint([P[k] for k in a[0]])
    # materialised by iteration only: list(x) asks for len(x) first and CPython
    # itself discards a TypeError raised by __len__ (length hint)
    if name in ("keys", "values", "items"): return [x for x in getattr(t, name)(P[a[0]], P[a[1]])]
    if name == "iteritems": return [x for x in t.iteritems(P[a[0]], P[a[1]])]
    if name == "keys_excl": return [x for x in t.keys(P[a[0]], P[a[1]], True, True)]
    if name in ("minKey", "maxKey"): return getattr(t, name)(P[a[0]])
    if name in ("union", "intersection", "difference"):
        return getattr(mod, name + ("Py" if py else ""))(t, w.u)
    if name == "op_or": return t | w.u
    if name == "op_and": return t & w.u
    if name == "op_sub": return t - w.u
    if name == "resolve": return t._p_resolveConflict(*w.held)
    raise ValueError(name)


SET_MUTATORS = ("add", "remove", "discard", "supdate", "ior", "iand", "isub", "ixor")
MAP_MUTATORS = ("setitem", "setdefault", "insert", "pop", "update", "delitem")


def completed(op, before, is_set):
    """Reference contents after the completed call: H.apply_ref on plain int
    keys; a value is the label ('V', i) of the i-th value object."""
    ref = H.RefMap(is_set)
    ref.d = dict(before)
    name, a = op[1], op[2:]
    if is_set and name in SET_MUTATORS:
        H.apply_ref(ref, (name,) + tuple(a))
    elif not is_set and name == "update":
        H.apply_ref(ref, (name, tuple((k, ("V", i)) for k, i in a[0])))
    elif not is_set and name in MAP_MUTATORS:
        H.apply_ref(ref, (name, a[0]) + tuple(("V", i) for i in a[1:]))
    return ref.d


def followup(w, got, is_set, is_tree):
    """No faults: every stored key is found, a fresh largest key can be stored
    and removed again, the contents are as before.  -> error text or None."""
    try:
        for x in got:
            k = x if is_set else x[0]
            if w.pk[k] not in w.t or (not is_set and lab(w.t[w.pk[k]]) != x[1]):
                return "stored key %r not found" % (k,)
        nk = w.pk[1001]
        if nk in w.t:
            return "absent key found"
        w.t.add(nk) if is_set else w.t.__setitem__(nk, w.vals[2])
        if len(w.t) != len(got) + 1 or w.contents()[-1] != (1001 if is_set else (1001, lab(w.vals[2]))):
            return "after storing a fresh largest key: contents %r" % (w.contents(),)
        w.t.remove(nk) if is_set else w.t.__delitem__(nk)
        if w.contents() != got:
            return "after insert+delete contents %r, expected %r" % (w.contents(), got)
        if is_tree:
            w.t._check()
    except Exception as e:
        return "%s: %s" % (type(e).__name__, e)
    return None


def run_config(s, fam, kind, impl, sizes, seen_cases, samples):
    is_set = kind in ("Set", "TreeSet")
    is_tree = kind in ("BTree", "TreeSet")
    py = impl == "py"
    leaf, internal = sizes if is_tree else (None, None)
    cls = H.get_class(fam, kind, impl, leaf, internal)
    mod = H.family_module(fam)
    obj_values = (not is_set) and fam[1] == "O"
    tag = "%s%s%s" % (fam, kind, "Py" if py else "")
    quick = H.tier() == "quick"
    reported = {}

    def fail(clause, op, desc, repro):
        key = "cmpfault:%s:%s:%s:%s" % (impl, kind, clause, op[1])
        reported[key] = reported.get(key, 0) + 1
        if reported[key] > 2:               # two witnesses per contract and configuration
            return
        s.failures.append(Failure(key=key, desc="%s sizes=%s shape=%s %s, %s raised by comparison #%d: %s" % (
            tag, sizes, repro["shape"], op[1:], repro["exc"], repro["n"], desc), repro=repro))

    for rname, recipe in recipes(quick):
        if not is_tree and len(recipe) > 6:
            continue
        probe = World(cls, is_set, recipe, obj_values)
        d0 = {lab(k): (None if is_set else ("V", 0)) for k in probe.t.keys()}
        shape = H.shape(probe.t, is_set) if is_tree else len(d0)
        for op in operations(is_set, is_tree, d0):
            for exc in (Boom, TypeError):
                n = 0
                while True:
                    n += 1
                    gc.freeze()        # what exists now is not garbage of this case: keeps gc.collect() cheap
                    w = World(cls, is_set, recipe, obj_values)
                    prepare(w, op, cls)
                    valmap = {("V", i): lab(w.vals[i]) for i in range(3)}
                    norm = lambda d: sorted(d) if is_set else sorted((k, valmap[v]) for k, v in d.items())
                    before = norm(d0)
                    after = norm(completed(op, d0, is_set))
                    rc1, sl1 = w.refs(), w.slots()
                    Ctl.count, Ctl.fail_at, Ctl.exc, Ctl.raised = 0, n, exc, None
                    caught = None
                    try:
                        res = run_op(w, op, mod, py)
                        del res
                    except BaseException as e:
                        caught = e
                    finally:
                        Ctl.fail_at = None
                    injected, raised = Ctl.count >= n, Ctl.raised
                    Ctl.raised = None
                    s.evaluations += 1
                    repro = {"family": fam, "kind": kind, "impl": impl, "sizes": list(sizes), "shape": rname,
                             "build": recipe, "op": list(map(repr, op)), "n": n, "exc": exc.__name__}
                    if not injected:       # fewer than n comparisons: this operation is done
                        break
                    seen_cases.add((tag, sizes, repr(shape), op, n, exc.__name__))
                    if len(samples) < 2 and n == 2:
                        samples.append(repro)
                    # -- the exception reaches the caller
                    if caught is None:
                        fail("swallowed-" + exc.__name__, op, "the call returned normally", repro)
                    elif caught is not raised:
                        fail("replaced-" + exc.__name__, op, "the caller saw %r" % (caught,), repro)
                    caught = raised = None            # drops the traceback (frames hold keys)
                    # -- sound, contents previous or completed
                    ok = True
                    try:
                        if is_tree:
                            got, _, _ = H.walk(w.t, is_set, leaf, internal)
                            got = [lab(k) for k in got] if is_set else [(lab(k), lab(v)) for k, v in got]
                            w.t._check()
                        else:
                            got = w.contents()
                            ks = [x if is_set else x[0] for x in got]
                            if any(not a < b for a, b in zip(ks, ks[1:])):
                                raise H.Damage("leaf keys not strictly increasing: %r" % (ks,))
                        if got != w.contents():
                            raise H.Damage("iteration yields %r, the structure holds %r" % (w.contents(), got))
                    except H.Damage as e:
                        ok = False
                        fail("damage", op, str(e), repro)
                    except AssertionError as e:
                        ok = False
                        fail("checker", op, "_check() rejected the container: %s" % (e,), repro)
                    except Exception as e:
                        ok = False
                        fail("inspect-error", op, "inspecting the container raised %s: %s" % (type(e).__name__, e), repro)
                    if ok and got != before and got != after:
                        multi = op[1] in ("update", "supdate", "ior", "iand", "isub", "ixor")
                        sb, sa, sg = set(before), set(after), set(got)
                        if not (multi and sb & sa <= sg <= sb | sa):
                            ok = False
                            fail("contents", op, "contents %r, previous %r, completed %r" % (got, before, after), repro)
                    # -- slot ownership right after the failed call.  C only: in pure Python the
                    #    interpreter does the counting (and e.g. _data[0].key is a harmless extra holder)
                    if ok and not py:
                        sl2 = w.slots()
                        gc.collect()       # the walker's closures are cyclic garbage, not a leak
                        for clause, sel in (("refcount", lambda a, b: a or b), ("arg-leak", lambda a, b: not (a or b))):
                            bad = [(repr(o), x - (r + b - a)) for o, x, r, a, b in zip(w.tracked, w.refs(), rc1, sl1, sl2)
                                   if x != r + b - a and sel(a, b)]
                            if bad:
                                ok = False
                                fail(clause, op, "reference count differs from slots held, (%s, surplus): %r" % (
                                    "stored object" if clause == "refcount" else "never stored argument", bad[:4]), repro)
                    # -- later operations behave normally
                    if ok:
                        msg = followup(w, got, is_set, is_tree)
                        if msg:
                            ok = False
                            fail("followup", op, "follow-up workload: " + msg, repro)
                    # -- nothing leaked or released twice: destroy everything
                    if ok:
                        w.t = w.u = None
                        w.held = []
                        gc.collect()
                        bad = [(repr(o), x - e) for o, x, e in zip(w.tracked, w.refs(), w.base0) if x != e]
                        wr = [weakref.ref(o) for o in w.tracked]
                        w.tracked, w.sk, w.uk, w.pk, w.vals = [], {}, {}, {}, []
                        alive = [repr(r()) for r in wr if r() is not None]
                        if bad or alive:
                            fail("leak-after-destroy", op, "after destroying the containers: surplus references %r, "
                                 "objects still alive %r" % (bad[:4], alive[:4]), repro)
                    if n > 400:
                        break


def main():
    ap = argparse.ArgumentParser()
    ap.add_argument("--out")
    a = ap.parse_args()
    quick = H.tier() == "quick"
    sizes = [(2, 2), (3, 2)] if quick else [(2, 2), (3, 2), (2, 3), (4, 3)]
    s = Standin(name="cmpfault_rt",
                bound="object-keyed families; per (family, kind in BTree/TreeSet/Bucket/Set, implementation C/Python, node sizes "
                      "%s): %d build recipes (ascending 0..%d keys, descending, front-/middle-thinned), every operation of the "
                      "kinds lookup, insert, replace, delete, range search, set algebra (functions, operators, in-place), "
                      "conflict merge on present/absent/extreme probe keys, every n = 1.. until the call needs < n comparisons, "
                      "exception class in {private Exception, TypeError}" % (sizes, len(recipes(quick)), 8 if quick else 14),
                rule="case = (container shape, operation, n, exception class) on a fresh container with all five clauses "
                     "evaluated; distinct non-trivial = distinct such tuples in which the n-th comparison really was reached and raised",
                exhaustive=True,
                functions=["_BTree_get", "_BTree_set", "_bucket_set", "_bucket_get", "BTree_rangeSearch", "BTree_findRangeEnd",
                           "Bucket_findRangeEnd", "bucket_merge", "set_operation", "_Set_update", "set_i*/TreeSet_i*",
                           "_Tree._set/_del/_search", "_BucketBase._search/_range", "_set_operation", "_p_resolveConflict"])
    seen, samples = set(), []
    gc.disable()               # collections are made explicitly, at fixed points of a case
    for fam in H.fams():
        if fam[0] != "O":
            continue
        for kind in ("BTree", "TreeSet", "Bucket", "Set"):
            for impl in ("c", "py"):
                for sz in (sizes if kind in ("BTree", "TreeSet") else [(None, None)]):
                    run_config(s, fam, kind, impl, sz, seen, samples)
    s.distinct_nontrivial = len(seen)
    s.samples = samples
    write_standin(a.out, s)


if __name__ == "__main__":
    main()
