"""C02 - range searches and lazy key/value/item sequences are exact."""
from props import _generic as g


def run(ctx):
    fns = g.run_pyvc(ctx, "C02")
    g.run_fsearch(ctx)
    ctx.standin("range_rt", families=tuple("OO,II".split(",")))
    return "proof", (
        "Engine P (%d targets): the leaf layer - _BucketBase._range for every combination of present / omitted / None / exclusive "
        "bounds against the interval oracle of the statement, keys() / values() slices (ghost out-parameter for the slice start), "
        "leaf minKey / maxKey (least key >= b / greatest key <= b, ValueError iff none, TypeError only for an unusable bound); "
        "the interior-node layer in the ORDER view - _Tree.maxKey(b) returns the greatest key <= b of the whole subtree, also "
        "through stale separators, and raises ValueError only if no key qualifies (children abstracted by least / greatest key "
        "and key-set summaries; the same contract assumed for the children; _Tree._search against the separators). "
        "Engine C, F-SEARCH: the searches that locate a range end (Bucket_findRangeEnd, BTree_findRangeEnd) return the exact "
        "position / child for all contents of integer-keyed units. "
        "_Tree.minKey, _Tree.keys / _TreeItems (the lazy sequences) and the rest of the C implementation are the bounded stand-in range_rt "
        "(every bound combination on every reached shape, incl. stale-separator states built through __setstate__)." % len(fns))
