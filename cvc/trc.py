"""T-RC (C08, second sentence): every write declares each stored interior node
it descends through as a read dependency; pure reads declare none.

Two obligation kinds per translation unit:

* `_BTree_set` (the only descent of a write): on every path that reaches the
  recursive `_BTree_set(child, ..)` or the leaf `_bucket_set(child, ..)` call,
  `cPersistenceCAPI->readCurrent(self)` has been executed before (ghost
  `rc[o]`, set by the PER_READCURRENT expansion).  Path-sensitive, by symbolic
  execution with state merging.
* every other function that is not (transitively) a caller of `_BTree_set`:
  no call chain from it reaches `->readCurrent` -- decided on the call graph
  of the TU (function pointers resolve to the `next*` iterator functions,
  which are checked like any other function).
"""
import z3

from .cexec import CExec, fresh, INT, Oblig
from . import capi, summary

DESCENT = ("_BTree_set", "_bucket_set")


def callgraph(tu):
    if not hasattr(tu, "_calls"):
        tu._calls = {f: summary.direct(n, tu.fieldmap)[1] for f, n in tu.functions.items()}
    return tu._calls


def reaches(tu, start, target):
    calls = callgraph(tu)
    seen, todo = set(), [start]
    while todo:
        f = todo.pop()
        if f in seen:
            continue
        seen.add(f)
        for c in calls.get(f, ()):
            if c == target:
                return True
            if c in tu.functions:
                todo.append(c)
            elif c in ("?", "->next"):
                # iterator function pointers: the six next* functions
                todo.extend(x for x in tu.functions if x.startswith("next"))
    return False


class TRc(CExec):
    family = "T-RC"

    def run(self):
        if self.fname != "_BTree_set":
            writer = self.fname == "_BTree_set" or reaches(self.tu, self.fname, "_BTree_set")
            st_true = z3.BoolVal(True)
            if writer:
                # writers inherit the clause from _BTree_set; nothing local to prove
                self.obls.append(Oblig("T-RC:%s:writer-delegates-to-_BTree_set" % self.fname, [], st_true))
                return
            bad = reaches(self.tu, self.fname, "->readCurrent")
            self.obls.append(Oblig("T-RC:%s:read-declares-no-dependency" % self.fname, [],
                                   z3.BoolVal(not bad),
                                   "a call chain from this reader reaches cPersistenceCAPI->readCurrent" if bad else ""))
            return
        self.ndescents = 0
        super().run()
        if self.ndescents == 0:
            raise RuntimeError("no descent call found in _BTree_set")

    def on_entry(self, st):
        st.ghost["rc"] = z3.K(INT, z3.BoolVal(False))
        self.self_id = [p["id"] for p in self.fn["inner"] if p["kind"] == "ParmVarDecl"][0]

    def on_call(self, name, args, n, st):
        if name == "->readCurrent":
            r = fresh("ret_readCurrent")
            # the dependency is declared when the call succeeds (>= 0); on failure the
            # macro leaves through its error exit
            st.ghost["rc"] = z3.Store(st.ghost["rc"], args[0], z3.BoolVal(True))
            return r
        if name in DESCENT:
            self.ndescents += 1
            self.oblige(st, "T-RC:_BTree_set:declared-before-descent[%s]" % name,
                        z3.Select(st.ghost["rc"], self.entry.vars[self.self_id]))
        if name in capi.PURE or name == "->accessed":
            return fresh("ret_" + name.strip("->"))
        self.havoc_heap(st, "call " + str(name))
        return fresh("ret_" + str(name).strip("->").replace("?", "fp"))


ANALYSIS = {"T-RC": TRc}
