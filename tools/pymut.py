#!/usr/bin/env python3
"""pymut.py FILE 'old text' 'new text' target [target...]
Canary helper: copy /repo/src to a scratch dir (outside /repo and /verif),
replace one occurrence of `old text` by `new text` in src/BTrees/FILE, run
Engine P on the targets against the copy, print what is not proved, delete the
copy.  Used to check that a new contract actually notices breakage."""
import os
import shutil
import subprocess
import sys
import tempfile

f, old, new = sys.argv[1:4]
targets = sys.argv[4:]
d = tempfile.mkdtemp(prefix="pymut-")
try:
    shutil.copytree("/repo/src", os.path.join(d, "src"))
    p = os.path.join(d, "src", "BTrees", f)
    s = open(p).read()
    old = old.encode().decode("unicode_escape")
    new = new.encode().decode("unicode_escape")
    n = s.count(old)
    if n == 0:
        sys.exit("pattern not found")
    idx = int(os.environ.get("OCC", "0"))
    parts = s.split(old)
    s = old.join(parts[:idx + 1]) + new + old.join(parts[idx + 1:])
    open(p, "w").write(s)
    e = dict(os.environ, VERIF_REPO=d, PYTHONPATH="/verif")
    r = subprocess.run(["/verif/.venv/bin/python", "-m", "pyvc.run"] + targets, env=e, cwd="/verif",
                       capture_output=True, text=True)
    for line in r.stdout.splitlines():
        if line.startswith(("REFUTED", "UNKNOWN", "ERROR", "OPEN")) or "obligations," in line:
            print(line[:300])
finally:
    shutil.rmtree(d)
