"""Symbolic values, heap model and state for Engine P (DESIGN.md 3.2).

Sorts:  int -> Int, bool -> Bool, K (key) -> Real with '<' as the key order,
V (value) -> Int (only ==, and ring terms for C12), ref -> Int (0 is None),
list -> Int (a list object; contents live in the heap arrays $len/$K/$V/$R/$I).
"""
import itertools
import z3

_ctr = itertools.count()


def fresh(prefix, sort):
    return z3.Const("%s!%d" % (prefix, next(_ctr)), sort)


INT = z3.IntSort()
BOOL = z3.BoolSort()
KS = z3.RealSort()

# U: an element of a serialised state tuple -- a key, a value or a reference
# (states interleave them: (k0, v0, k1, v1, ...) / (child0, key1, child1, ...))
_U = z3.Datatype("U")
_U.declare("UK", ("uk", KS))
_U.declare("UV", ("uv", INT))
_U.declare("UR", ("ur", INT))
US = _U.create()

ELEM_SORT = {"K": KS, "V": INT, "R": INT, "I": INT, "A": INT, "U": US}
# element-kind -> SV kind of an element
ELEM_KIND = {"K": "K", "V": "V", "R": "ref", "I": "int", "A": "any", "U": "U"}
KIND_SORT = {"int": INT, "bool": BOOL, "K": KS, "V": INT, "ref": INT,
             "list": INT, "any": INT, "U": US}
ELEM_DEFAULT = {"K": z3.RealVal(0), "V": z3.IntVal(0), "R": z3.IntVal(0), "I": z3.IntVal(0),
                "A": z3.IntVal(0), "U": US.UV(0)}


class SV:
    """A symbolic Python value on one path."""
    __slots__ = ("kind", "z", "x")

    def __init__(self, kind, z=None, x=None):
        self.kind = kind      # int bool K V ref list tuple none marker str cls any bmeth func exc
        self.z = z
        self.x = x            # ref: static class name|None ; list: elem kind ;
        #                       tuple: [SV] ; str: python str ; cls: class name

    def __repr__(self):
        return "SV(%s,%s,%s)" % (self.kind, self.z, self.x)


def mk_int(v):
    return SV("int", z3.IntVal(v) if isinstance(v, int) else v)


def mk_bool(v):
    return SV("bool", z3.BoolVal(v) if isinstance(v, bool) else v)


NONE = SV("none")
MARKER = SV("marker")


class Raise(Exception):
    """Not a Python exception of the checker: a symbolic `raise` outcome."""

    def __init__(self, cls, detail=""):
        self.cls = cls
        self.detail = detail


class Unsupported(Exception):
    pass


class State:
    """One symbolic path: environment, heap (field -> z3 array), path
    condition, allocation counter."""

    def __init__(self):
        self.env = {}
        self.heap = {}
        self.pc = []
        self.alloc = None      # z3 Int: every ref >= alloc is unallocated
        self.trace = []        # branch decisions, for obligation detail
        self.ghost = {}        # name -> z3 value (ghost sets, logs)
        self.tags = {}         # id of a pc conjunct -> where it came from (hypothesis slicing)

    def copy(self):
        s = State()
        s.env = dict(self.env)
        s.heap = dict(self.heap)
        s.pc = list(self.pc)
        s.alloc = self.alloc
        s.trace = list(self.trace)
        s.ghost = dict(self.ghost)
        s.tags = dict(self.tags)
        return s

    def assume(self, f, tag=None):
        # keep conjuncts apart: quantifier-free ones take part in the cheap
        # feasibility checks even when a sibling conjunct is quantified
        if z3.is_and(f):
            for c in f.children():
                self.assume(c, tag)
        else:
            self.pc.append(f)
            if tag is not None:
                self.tags[f.get_id()] = tag


def list_arrays(elem):
    return "$" + elem


def arr_sort(elem):
    return z3.ArraySort(INT, ELEM_SORT[elem])
