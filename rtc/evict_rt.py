"""Bounded stand-in for C05 (evicting nodes from the object cache never changes
behaviour).

Oracle = the statement: "Deactivating (turning into a ghost) any persistent
node of a container at any moment - between operations, or while a key
comparison is running inside one - never changes any result: evicted nodes are
reloaded transparently, the nodes an operation is working on are protected
while it runs, and once an operation has returned, normally or with an
exception, none of the container's nodes remains pinned against eviction."

The container is stored in rtc.stubdb (a stated model of a ZODB connection with
a real persistent.PickleCache); an identical twin that has no data manager -
and therefore can never be evicted - receives the same calls.
  between: before each call the transaction is committed (so that every node is
           clean and evictable) and the cache is swept (cache.minimize() or
           _p_deactivate() on every node), always or at seeded places;
  inside : object-keyed families only; the keys are instances of K, whose
           comparisons sweep the cache at the n-th comparison of every call
           (n = 1, 2, 3, 5) or at every comparison; the sweep evicts every
           node (inside-all), only leaves (inside-leaf) or only interior /
           root nodes (inside-node) - the three are reported under their own keys.
After every call - including calls that fail (bad key / value, missing key,
unusable bound) - (1) no node known to the cache or reachable from the root has
_p_state == 2 / _p_sticky, (2) result or exception class equal the twin's,
(3) after mutators and at the end the contents equal the twin's.
"""
import argparse
import random

from lib.common import Standin, Failure, write_standin
from rtc import harness as H
from rtc import stubdb


class K:
    """Totally ordered key; every comparison may sweep a cache (see Sweeper).
    No __slots__ on purpose: a K that was freed while the C code still holds a
    borrowed pointer to it has lost its __dict__, so that using it raises
    AttributeError (or crashes) instead of silently working on dead memory."""

    def __init__(self, v):
        self.v = v

    def _c(self, o):
        Sweeper.tick()
        if type(o) is not K:
            raise TypeError("K is not comparable with %s" % type(o).__name__)
        return o.v

    def __lt__(self, o): return self.v < self._c(o)
    def __le__(self, o): return self.v <= self._c(o)
    def __gt__(self, o): return self.v > self._c(o)
    def __ge__(self, o): return self.v >= self._c(o)
    def __eq__(self, o): return type(o) is K and self.v == self._c(o)
    def __ne__(self, o): return not self.__eq__(o)
    def __hash__(self): return hash(self.v)
    def __repr__(self): return "K(%r)" % self.v
    def __reduce__(self): return (K, (self.v,))


WHICH = {"inside-all": None,                                         # every node
         "inside-leaf": lambda o: not hasattr(type(o), "_firstbucket"),      # Bucket / Set nodes only
         "inside-node": lambda o: hasattr(type(o), "_firstbucket")}          # BTree / TreeSet nodes only


class Sweeper:
    conn, how, at, count, fired, only = None, "minimize", None, 0, 0, None

    @classmethod
    def arm(cls, conn, at, how, only):
        cls.conn, cls.at, cls.how, cls.count, cls.only = conn, at, how, 0, only

    @classmethod
    def tick(cls):
        if cls.conn is None:
            return
        cls.count += 1
        if cls.at == 0 or cls.count == cls.at:
            cls.fired += 1
            cls.conn.sweep(cls.how, cls.only)


def apply(t, op):
    """harness.apply_impl plus range queries / bounds / by-value (-> lists)."""
    try:
        if op[0] == "range":
            return ("ret", list(getattr(t, op[1])(**dict(op[2]))))
        if op[0] in ("minKey", "maxKey", "byValue"):
            r = getattr(t, op[0])(*op[1:])
            return ("ret", list(r) if op[0] == "byValue" else r)
        if op[0] == "iter":
            return ("ret", list(iter(t)))
    except Exception as e:
        return ("exc", type(e).__name__)
    return H.apply_impl(t, op)


BADOBJ = object()       # refused by the key check of object-keyed containers even when they are empty


def alphabet(fam, is_set, is_tree, keys, vals, badkey, badval):
    """badkey: not convertible (integer / bytes keys) or not comparable with the keys present (object keys: fails
    inside a comparison, while nodes are in use).  Writes of object-keyed families use BADOBJ instead, so that a
    failing write cannot succeed on an empty container and poison the rest of the history."""
    wbad = BADOBJ if fam[0] == "O" else badkey
    ops = H.alphabet(fam, is_set, keys, vals, rich=True, tree=is_tree)
    lo, mid, hi = keys[1], keys[len(keys) // 2], keys[-2]
    for meth in (("keys",) if is_set else ("keys", "values", "items")):
        for kw in ({}, {"min": mid}, {"max": mid}, {"min": lo, "max": hi, "excludemin": True, "excludemax": True},
                   {"min": mid, "max": keys[len(keys) // 2 + 1], "excludemin": True, "excludemax": True},   # empty
                   {"min": hi, "max": lo},                                                                 # empty
                   {"excludemin": True}, {"excludemax": True}, {"min": badkey}, {"max": badkey}):
            ops.append(("range", meth, tuple(sorted(kw.items(), key=lambda x: x[0]))))
    ops += [("minKey",), ("maxKey",), ("minKey", mid), ("maxKey", mid), ("minKey", keys[-1]), ("maxKey", keys[0]),
            ("minKey", badkey), ("maxKey", badkey), ("iter",)]
    if is_set:
        ops += [("add", wbad), ("remove", badkey), ("contains", badkey), ("supdate", (keys[0], wbad))]
    else:
        ops += [("setitem", wbad, vals[0]), ("getitem", badkey), ("delitem", badkey), ("get", badkey), ("has_key", badkey),
                ("pop", badkey), ("setdefault", wbad, vals[0]), ("byValue", vals[0]), ("byValue", badval)]
        if badval is not None:
            ops += [("setitem", mid, badval), ("setdefault", keys[-1], badval)]
        if is_tree and fam[0] != "O":      # (Python's insert() skips the key check: BADOBJ would be stored - C13, not C05)
            ops.append(("insert", badkey, vals[0]))
    return ops


def pinned(conn, root):
    """Nodes still pinned: looks at _p_state BEFORE anything touches the node."""
    bad, seen, todo = [], set(), conn.nodes() + [root]
    while todo:
        o = todo.pop()
        if id(o) in seen:
            continue
        seen.add(id(o))
        state = o._p_state
        if state == 2 or getattr(o, "_p_sticky", False):
            bad.append("%s oid=%s" % (type(o).__name__, o._p_oid and stubdb.u64(o._p_oid)))
        if state == -1:
            continue                # a ghost: cannot be pinned, and its children have oids (are in the cache)

        def rec(st):
            if isinstance(st, tuple):
                for x in st:
                    rec(x)
            elif hasattr(st, "_p_state") and type(st).__module__.startswith("BTrees"):
                todo.append(st)
        rec(o.__getstate__())
    return bad


MUTATORS = ("setitem", "delitem", "insert", "setdefault", "pop", "popitem", "update", "clear", "add", "remove",
            "discard", "spop", "supdate", "ior", "iand", "isub", "ixor")


def run_history(cls, is_set, h, mode, arg, rng, cases):
    """mode 'between': arg = probability of (commit, sweep) before a call (1.0 = always);
    mode 'inside-all' / 'inside-leaf' / 'inside-node' (which nodes the sweep inside a comparison evicts): arg = n
    (0 = every comparison).  -> (evaluations, None | (clause, text, index), cases)"""
    st = stubdb.Storage()
    conn = st.open()
    t, u = cls(), cls()
    conn.add(t)
    n = 0
    for i, op in enumerate(h):
        how = ("minimize", "deactivate")[i % 2]
        if mode != "between" or rng.random() < arg:
            conn.commit()
            if mode == "between":
                conn.sweep(how)
        elif rng.random() < arg:
            conn.sweep(how)             # only the clean nodes go; changed ones stay
        loads, fired = conn.loads, Sweeper.fired
        if mode != "between":
            Sweeper.arm(conn, arg, how, WHICH[mode])
        H.tick()
        try:
            r = apply(t, op)
        finally:
            Sweeper.conn = None
        n += 1
        pins = pinned(conn, t)          # first: reading the container below would un-pin
        if pins:
            return n, ("pinned", "after %r -> %r still pinned: %s" % (op, r, ", ".join(pins[:4])), i), cases
        ru = apply(u, op)
        if not H.same_result(r, ru):
            return n, ("result", "call %r gave %r, unevicted twin %r" % (op, r, ru), i), cases
        if conn.loads > loads or Sweeper.fired > fired:
            cases.add((op[0], r[0], len(u), mode, Sweeper.fired > fired))
        if op[0] in MUTATORS or i == len(h) - 1:
            try:
                a = H.contents(t, is_set)
            except Exception as e:
                a = "iteration raised %s: %s" % (type(e).__name__, e)
            b = H.contents(u, is_set)
            if a != b:
                return n, ("contents", "after %r contents %r, unevicted twin %r" % (op, a, b), i), cases
    return n, None, cases


def job(j):
    fam, kind, impl, sizes, mode = j
    quick = H.tier() == "quick"
    is_set, is_tree = kind in ("Set", "TreeSet"), kind in ("BTree", "TreeSet")
    cls = H.get_class(fam, kind, impl, *(sizes or (None, None)))
    okey = fam[0] == "O"
    keys = [K(i) for i in range(8)] if okey else H.keys_of(fam, 8) if fam != "fs" else [bytes([0, i]) for i in range(8)]
    vals = H.values_of(fam)
    badkey = "x" if fam != "fs" else 5
    badval = None if fam[1] == "O" else "x" if fam != "fs" else 5
    core = H.alphabet(fam, is_set, keys, vals, rich=False, tree=is_tree)
    full = alphabet(fam, is_set, is_tree, keys, vals, badkey, badval)
    rng = random.Random(H.seed() * 7919 + hash((fam, kind, impl, sizes, mode)) % 1000)
    plans = [(1.0, 2, 25 if quick else 300), (0.5, 0, 25 if quick else 300)] if mode == "between" else \
            [(n, 0, 10 if quick else 120) for n in (1, 2, 3, 5, 0)]
    evals, cases, failures = 0, set(), []
    fill = [o for o in core if o[0] in ("setitem", "add")]
    reads = tuple(o for o in full if o[0] not in MUTATORS)
    for arg, exh, nrand in plans:
        # directed: 7 keys (several leaves), then every non-mutating call of the alphabet (also the failing ones)
        directed = [tuple(fill[:7]) + reads, tuple(fill[:7][::-1]) + reads]
        for h in directed + list(H.histories(core, full, rng.randrange(10 ** 6), exh, nrand, 28)):
            hrng = random.Random(rng.randrange(1 << 30))       # the seeded places of this history
            if impl == "c":         # the C code may crash when an eviction goes wrong: observe that too
                res = H.guarded(run_history, cls, is_set, h, mode, arg, hrng, set())
                if res[0] == "crash":
                    n, new = res[2], ()
                    bad = ("hang" if res[1] == 14 else "crash", "the process %s during call %r" %
                           ("did not finish within 10 s" if res[1] == 14 else "died with signal %d" % res[1], h[res[2] - 1]), res[2] - 1)
                else:
                    n, bad, new = res[1]
            else:
                n, bad, new = run_history(cls, is_set, h, mode, arg, hrng, set())
            evals += n
            cases.update(new)
            if not bad:
                continue
            clause, text, i = bad
            key = "evict:%s:%s:%s:%s:%s" % (impl, kind, mode, clause, h[i][0] if h[i][0] != "range" else h[i][1])
            if sum(f.key == key for f in failures) >= 2:
                continue
            failures.append(Failure(
                key=key, desc="%s%s%s sizes=%s %s(%s): %s" % (fam, kind, "Py" if impl == "py" else "", sizes, mode, arg, text[:500]),
                repro={"family": fam, "kind": kind, "impl": impl, "sizes": sizes, "mode": mode,
                       "sweep": ("commit+sweep before a call with probability %s" % arg) if mode == "between" else
                                ("commit before every call; sweep at comparison #%s of every call (0 = all)" % arg),
                       "history": [[repr(x) for x in o] for o in h[:i + 1]]}))
            if len(failures) >= 8:
                return evals, cases, failures
    return evals, cases, failures


def main():
    ap = argparse.ArgumentParser()
    ap.add_argument("--out")
    a = ap.parse_args()
    quick = H.tier() == "quick"
    s = Standin(
        name="evict_rt",
        bound="per (family, kind, implementation, node sizes (2,3),(3,3); leaves as stored roots too): between-calls sweeps: "
              "7 inserts (ascending / descending) followed by every non-mutating call of the alphabet, every history of <=2 add/delete calls over 8 keys and %d seeded histories of 14..28 calls over the public "
              "alphabet + range queries / minKey / maxKey / byValue / iteration + failing calls (bad key, bad value, missing "
              "key, bound beyond the ends), with commit+sweep before every call, and again with commit / sweep at seeded "
              "places; inside-comparison sweeps (families with object keys): %d seeded histories for each n in 1,2,3,5,all, "
              "the sweep running inside the n-th key comparison of every call; sweeps alternate cache.minimize() and "
              "_p_deactivate() on every cached node" % ((25, 10) if quick else (300, 120)),
        rule="case = one call + its three checks; distinct non-trivial = distinct (operation, outcome kind, container size, "
             "mode, swept-inside) among the calls that had to reload an evicted node or were swept inside",
        functions=["PER_USE/PER_UNUSE pairs of every entry point of BucketTemplate.c / BTreeTemplate.c / SetTemplate.c / "
                   "TreeSetTemplate.c / BTreeItemsTemplate.c (run-time)", "bucket__p_deactivate", "BTree__p_deactivate",
                   "_bucket_setstate", "_BTree_setstate", "Bucket._set/_del/_search, _Tree._set/_del (Python, re-reading state)"])
    jobs = []
    for fam in H.fams():
        for kind in ("BTree", "TreeSet", "Bucket", "Set"):
            for impl in ("c", "py"):
                for sizes in ([(2, 3), (3, 3)] if kind in ("BTree", "TreeSet") else [None]):
                    for mode in ("between", "inside-all", "inside-leaf", "inside-node") if fam[0] == "O" else ("between",):
                        jobs.append((fam, kind, impl, sizes, mode))
    cases = set()
    for n, c, fails in H.run_parallel(job, jobs):
        s.evaluations += n
        cases |= c
        s.failures += fails
    s.distinct_nontrivial = len(cases)
    s.samples = [{"family": "OO", "kind": "BTree", "impl": "c", "sizes": [2, 3], "mode": "inside, n=2",
                  "history": "t[K(0)]='a'; t[K(1)]='a'; t[K(2)]='a'; commit; t[K(3)]='a' with cache.minimize() inside the "
                             "2nd comparison; then no node sticky, result and contents equal the twin's"},
                 {"family": "II", "kind": "BTree", "impl": "c", "sizes": [2, 3], "mode": "between",
                  "history": "t[0]=1; commit; sweep; t.minKey('x') -> TypeError; no node sticky afterwards"}]
    write_standin(a.out, s)


if __name__ == "__main__":
    main()
