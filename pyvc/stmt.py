"""Calls, statements, loops and the per-function driver of Engine P."""
import ast
import os
import z3

from .sym import (SV, State, Unsupported, NONE, MARKER, mk_int, mk_bool,
                  fresh, INT, BOOL, KS, ELEM_SORT, ELEM_KIND, KIND_SORT, ELEM_DEFAULT)
from .engine import Engine, Obl, FIELDS, CLASS_IDS, PERSISTENT, field_sort
from .expr import ExprMixin, exc, exc_matches
from .spec import SpecMixin, SpecCtx, Contract, parse_kind, TK, TV, REPK, REPV
from .dtypes import DTypeMixin

CMP = z3.Function("compare", KS, KS, INT)


class Exec(ExprMixin, SpecMixin, DTypeMixin, Engine):

    # ================================================================ calls
    def ev_Call(self, node, st):
        if any(isinstance(a, ast.Starred) for a in node.args) or \
                any(k.arg is None for k in node.keywords):
            # pure forwarding f(*args, **kw) of the enclosing function's own
            # *args/**kw (DESIGN 3.1): bound to the callee's named parameters
            if "$fwd" not in st.env or len(node.args) != 1 or len(node.keywords) != 1:
                raise Unsupported("star call that is not pure forwarding")
            kwd = {n: st.env[n] for n in st.env["$fwd"].x}
            res = []
            for s, f in self.ev(node.func, st):
                res.extend([(s, f)] if f.kind == "exc" else self.apply(s, f, [], kwd))
            return res
        # type(self)() / type(x)
        fn = node.func
        if isinstance(fn, ast.Name):
            return self.call_name(fn.id, node, st)
        if isinstance(fn, ast.Call) and isinstance(fn.func, ast.Name) and \
                fn.func.id == "type" and not node.args:
            # type(x)()  -> fresh instance of x's class
            def f(s, v):
                return self.instantiate(s, SV("cls", None, ("dyn", self.cls_of(s, v))), [])
            return self.bind(self.ev(fn.args[0], st), f)
        res = []
        for s, f in self.ev(fn, st):
            if f.kind == "exc":
                res.append((s, f))
                continue
            for s2, args in self.ev_seq(node.args, s):
                if isinstance(args, SV):
                    res.append((s2, args))
                    continue
                kw = {}
                s3s = [(s2, kw)]
                for k in node.keywords:
                    nxt = []
                    for s3, kwd in s3s:
                        for s4, v in self.ev(k.value, s3):
                            d = dict(kwd)
                            d[k.arg] = v
                            nxt.append((s4, d))
                    s3s = nxt
                for s3, kwd in s3s:
                    bad = [v for v in kwd.values() if v.kind == "exc"]
                    if bad:
                        res.append((s3, bad[0]))
                        continue
                    res.extend(self.apply(s3, f, args, kwd))
        return res

    def apply(self, s, f, args, kw):
        r = self.dt_apply(s, f, args, kw)
        if r is not None:
            return r
        if f.kind == "bmeth":
            obj, name = f.x
            if obj.kind == "list":
                return self.list_method(s, obj, name, args)
            if obj.kind == "ref":
                return self.call_method(s, obj, name, args, kw)
            if obj.kind == "cls":
                # Class.method(self, ...) explicit base call
                q = self.resolve(obj.x, name)
                return self.call_qual(s, q, args[0], args[1:], kw)
            if obj.kind == "any" and name in self.ATTACHED:
                # functions attached to the family's classes by _module_builder
                # (the attachment itself is checked by the obligation family
                # `attached:*`, pyvc/attached.py)
                q, recv_is_operand = self.ATTACHED[name]
                recv = obj if recv_is_operand else SV("any", z3.Int("C_value_datatype"))
                return self.call_qual(s, q, recv, args, kw)
        if f.kind == "cls":
            return self.instantiate(s, f, args)
        if f.kind == "closure":
            return self.inline(s, f.x[0], None, args, kw, closure_env=s.env)
        raise Unsupported("call of " + f.kind + " " + str(f.x)[:40])

    # name -> (qualified source function, receiver is the operand itself)
    ATTACHED = {"MERGE": ("MERGE", True),
                "MERGE_WEIGHT": ("_AbstractNativeDataType.apply_weight", False)}

    def call_name(self, name, node, st):
        res = []
        if name in st.env and st.env[name].kind in ("closure", "bmeth", "cls"):
            for s, args in self.ev_seq(node.args, st):
                if isinstance(args, SV):
                    res.append((s, args))
                else:
                    res.extend(self.apply(s, s.env[name], args, {}))
            return res
        for s, args in self.ev_seq(node.args, st):
            if isinstance(args, SV):
                res.append((s, args))
                continue
            res.extend(self.builtin(s, name, args, node))
        return res

    def builtin(self, s, name, args, node):
        if name == "len":
            a = args[0]
            if a.kind == "list":
                return [(s, mk_int(self.llen(s, a.z)))]
            if a.kind == "tuple":
                return [(s, mk_int(len(a.x)))]
            if a.kind == "ref":
                return self.call_method(s, a, "__len__", [], {})
            if a.kind == "any":
                from .dtypes import PY_ISBYTES, PY_BLEN
                if self.valid(s, PY_ISBYTES(a.z)):
                    return [(s, mk_int(PY_BLEN(a.z)))]
        if name == "compare":
            a, b = args
            if a.kind == "K" and b.kind == "K":
                # contract of BTrees._compat.compare (proved separately)
                r = fresh("cmp", INT)
                s.assume(z3.And((r < 0) == (a.z < b.z), (r == 0) == (a.z == b.z),
                                (r > 0) == (a.z > b.z), r >= -1, r <= 1))
                outs = [(s, mk_int(r))]
                if self.mode == "faulty":
                    outs.insert(0, (s.copy(), exc("CompareError")))
                    s_t = s.copy()
                    s_t.trace.append("comparison raises TypeError")
                    s_t.ghost["cmp_typeerror"] = True
                    outs.insert(0, (s_t, exc("TypeError")))
                return outs
        if name == "getattr" and len(args) in (2, 3) and args[1].kind == "str":
            o, nm = args[0], args[1].x
            dflt = args[2] if len(args) == 3 else None
            if o.kind == "any" and nm in ("MERGE_DEFAULT", "MERGE", "MERGE_WEIGHT"):
                # numeric-valued families (the scope of C12): _module_builder attaches
                # MERGE, MERGE_WEIGHT = apply_weight, MERGE_DEFAULT = multiplication_identity
                from .spec import NUMERIC
                s2 = s.copy()
                s.assume(NUMERIC(o.z))
                s2.assume(z3.Not(NUMERIC(o.z)))
                s2.trace.append("no %s" % nm)
                have = SV("V", z3.Int("C_ONE")) if nm == "MERGE_DEFAULT" else SV("bmeth", None, (o, nm))
                return [(s, have), (s2, dflt if dflt is not None else exc("AttributeError"))]
            raise Unsupported("getattr(%s, %r)" % (o.kind, nm))
        if name == "isinstance" and args[1].kind == "tuple" and all(c.kind == "cls" for c in args[1].x):
            o = args[0]
            if o.kind == "ref":
                return [(s, mk_bool(z3.Or(*[self.isinst(s, o, c) for c in args[1].x])))]
        if name == "isinstance" and len(args) == 2:
            r = self.dt_isinstance(s, args[0], args[1])
            if r is not None:
                return r
        if name == "isinstance":
            o, c = args
            if o.kind == "ref" and c.kind == "cls":
                if c.x == "_Base":
                    return [(s, mk_bool(True))]
                return [(s, mk_bool(self.isinst(s, o, c)))]
            if c.kind == "cls" and c.x == "tuple":
                if o.kind == "list":
                    return [(s, mk_bool(self.hget(s, "$istuple", o.z)))]
                return [(s, mk_bool(o.kind == "tuple"))]
            if c.kind == "cls" and c.x == "slice":
                return [(s, mk_bool(False))]
            if c.kind == "cls" and c.x == "int":
                return [(s, mk_bool(o.kind in ("int", "bool")))]
        if name in ("type", "isinstance") and args and args[0].kind == "U":
            # a state item: Python looks at whatever object is there.  A reference is looked at as
            # such; a key or value has a class that is none of ours (class id -1)
            from .sym import US
            u = args[0].z
            isref = z3.And(US.is_UR(u), US.ur(u) != 0)
            cid = z3.If(isref, self.hget(s, "$cls", US.ur(u)), z3.IntVal(-1))
            if name == "type":
                return [(s, SV("cls", None, ("dyn", cid)))]
            c = args[1]
            if c.kind == "cls":
                if isinstance(c.x, tuple):
                    return [(s, mk_bool(z3.And(isref, cid == c.x[1])))]
                subs = [k for k in CLASS_IDS if c.x in self.mro(k)]
                return [(s, mk_bool(z3.And(isref, z3.Or(*[cid == CLASS_IDS[k] for k in subs]))))]
        if name == "type" and len(args) == 1 and args[0].kind == "any":
            return [(s, SV("typeof", args[0].z))]
        if name == "super" and not args:
            return self.dt_super(s)
        if name == "type" and len(args) == 1 and args[0].kind == "ref":
            return [(s, SV("cls", None, ("dyn", self.cls_of(s, args[0]))))]
        if name == "bool":
            return [(s, mk_bool(self.truth(s, args[0])))]
        if name in ("max", "min") and len(args) == 2 and all(a.kind in ("int", "bool") for a in args):
            a, b = [z3.If(x.z, 1, 0) if x.kind == "bool" else x.z for x in args]
            return [(s, mk_int(z3.If(a >= b, a, b) if name == "max" else z3.If(a <= b, a, b)))]
        if name == "next" and len(args) == 1 and args[0].kind == "ref":
            return self.iter_next(s, args[0])
        if name == "reversed" and len(args) == 1 and args[0].kind == "list":
            return [(s, SV("revview", args[0].z, args[0].x))]
        if name == "list" and len(args) == 1 and args[0].kind == "revview":
            # list(reversed(l)): a new list, item j is l[len - 1 - j]
            a = args[0]
            j = z3.Int("j!rev")
            n = self.llen(s, a.z)
            c = self.lcontent(s, a.z, a.x)
            return [(s, self.new_list(s, a.x, self.mk_array(j, z3.Select(c, n - 1 - j), z3.K(INT, ELEM_DEFAULT[a.x])), n))]
        if name == "iter" and len(args) == 1 and args[0].kind == "list":
            # list iterator: the list plus a position held in a hidden local (havocked by loops that advance it)
            n = sum(1 for k in s.env if k.startswith("$itpos")) + 1
            pos = "$itpos%d" % n
            s.env[pos] = mk_int(0)
            return [(s, SV("listiter", args[0].z, (args[0].x, pos)))]
        if name == "next" and len(args) == 1 and args[0].kind == "listiter":
            it = args[0]
            elem, pos = it.x
            p = s.env[pos].z
            s2 = s.copy()
            s.assume(p < self.llen(s, it.z))
            s2.assume(z3.Not(p < self.llen(s2, it.z)))
            outs = []
            if self.feasible(s):
                v = SV(ELEM_KIND[elem], z3.Select(self.lcontent(s, it.z, elem), p))
                s.env[pos] = mk_int(p + 1)
                outs.append((s, v))
            if self.feasible(s2):
                outs.append((s2, exc("StopIteration")))
            return outs
        if name == "tuple" and args and args[0].kind == "list":
            # tuple(seq): a new immutable sequence object with the same items
            a = args[0]
            return [(s, self.new_list(s, a.x, self.lcontent(s, a.z, a.x), self.llen(s, a.z),
                                      elems=self.hget(s, "$elems", a.z) if a.x == "K" else None,
                                      is_tuple=True))]
        if name in ("KeyError", "ValueError", "TypeError", "IndexError",
                    "AssertionError", "BTreesConflictError"):
            return [(s, SV("excobj", list(args), name))]
        hv = (self.cur.ghost.get("havoc_calls") or {}) if self.cur is not None else {}
        if name in hv and self.inline_depth == 0:
            # a constructor / function taken in the typestate view (e.g. _TreeItems(bucket, itertype, iterargs))
            return self.havoc_call(s, None, name, hv[name], args)
        if name in CLASS_IDS and name not in self.contracts:
            return self.instantiate(s, SV("cls", None, name), args)
        q = name if name in self.contracts or name in self.sources else None
        if q:
            return self.call_qual(s, q, None, args, {})
        raise Unsupported("call of %s(%s)" % (name, ",".join(a.kind for a in args)))

    def iter_next(self, s, it):
        """next(it) on an abstract list iterator (A1): yields seq[pos] (or the
        pair (seq[pos], vals[pos])) and advances, StopIteration at the end."""
        seq = self.hget(s, "$it_seq", it.z)
        vals = self.hget(s, "$it_vals", it.z)
        pos = self.hget(s, "$it_pos", it.z)
        pairs = self.hget(s, "$it_pairs", it.z)
        n = self.llen(s, seq)
        res = []
        for s2, more in self.fork(s, z3.And(pos >= 0, pos < n), "next_more"):
            if not more:
                res.append((s2, exc("StopIteration")))
                continue
            k = SV("K", z3.Select(self.lcontent(s2, seq, "K"), pos))
            v = SV("V", z3.Select(self.lcontent(s2, vals, "V"), pos))
            self.hset(s2, "$it_pos", it.z, pos + 1)
            for s3, pr in self.fork(s2, pairs, "next_pairs"):
                res.append((s3, SV("tuple", None, [k, v]) if pr else k))
        return res

    def isinst(self, s, o, c):
        cid = self.cls_of(s, o)
        if isinstance(c.x, tuple):
            return z3.And(o.z != 0, cid == c.x[1])
        subs = [k for k in CLASS_IDS if c.x in self.mro(k)]
        return z3.And(o.z != 0, z3.Or(*[cid == CLASS_IDS[k] for k in subs]))

    def instantiate(self, s, c, args):
        if isinstance(c.x, str):
            if c.x in ("KeyError", "ValueError", "TypeError", "IndexError",
                       "AssertionError", "BTreesConflictError"):
                return [(s, SV("excobj", list(args), c.x))]
            if c.x.startswith("list:"):
                ek = c.x[5:]
                return [(s, self.new_list(s, ek, z3.K(INT, ELEM_DEFAULT[ek]), z3.IntVal(0)))]
            if c.x == "_SetIteration" and "_SetIteration.__init__" in self.contracts:
                r = self.new_ref(s, "_SetIteration")
                recv = SV("ref", r, "_SetIteration")
                outs = self.call_contract(s, self.contracts["_SetIteration.__init__"], recv, args, {})
                return [(s2, recv if v.kind != "exc" else v) for s2, v in outs]
            if c.x == "_TreeItem":
                r = self.new_ref(s, "_TreeItem")
                o = SV("ref", r, "_TreeItem")
                self.hset(s, "key", r, self.coerce(args[0], "K") if
                          args[0].kind != "none" else fresh("nokey", KS))
                self.hset(s, "child", r, self.coerce(args[1], "ref"))
                return [(s, o)]
            alts = [c.x]
        else:
            alts = ["Bucket", "Set", "Tree", "TreeSet"]
        if args:
            raise Unsupported("constructor with arguments")
        res = []
        for a in alts:
            cid = self.cls_id(c) if not isinstance(c.x, str) else None
            s2 = s.copy()
            if cid is not None:
                if not self.feasible(s2, cid == CLASS_IDS[a]):
                    continue
                s2.assume(cid == CLASS_IDS[a])
            r = self.new_ref(s2, a)
            o = SV("ref", r, a)
            # _Base.__init__ -> self.clear(); _Tree.__new__
            if a in ("Bucket", "Set"):
                self.hset(s2, "_keys", r, self.new_list(s2, "K", z3.K(INT, z3.RealVal(0)), z3.IntVal(0)).z)
                self.hset(s2, "_next", r, z3.IntVal(0))
                if a == "Bucket":
                    self.hset(s2, "_values", r, self.new_list(s2, "V", z3.K(INT, z3.IntVal(0)), z3.IntVal(0)).z)
            else:
                self.hset(s2, "_data", r, self.new_list(s2, "R", z3.K(INT, z3.IntVal(0)), z3.IntVal(0)).z)
                self.hset(s2, "_firstbucket", r, z3.IntVal(0))
            for f in ("_p_oid", "_p_jar", "_p_serial"):
                self.hset(s2, f, r, z3.IntVal(0))
            self.hset(s2, "$changed", r, z3.BoolVal(False))
            res.append((s2, o))
        return res

    # ------------------------------------------------------------- list ops
    def list_method(self, s, lst, name, args):
        n = self.llen(s, lst.z)
        c = self.lcontent(s, lst.z, lst.x)
        j = z3.Int("j!l")
        ek = lst.x
        if name == "append":
            self.u_typed(s, args[0], ELEM_KIND[ek] if ek != "R" else "ref", "list.append")
            x = self.coerce(args[0], ELEM_KIND[ek] if ek != "R" else "ref")
            self.lset(s, lst.z, ek, z3.Store(c, n, x), n + 1)
            if ek == "K":
                self.hset(s, "$elems", lst.z, z3.Store(self.hget(s, "$elems", lst.z), x, True))
            return [(s, NONE)]
        if name == "insert":
            i = args[0].z
            self.u_typed(s, args[1], ELEM_KIND[ek] if ek != "R" else "ref", "list.insert")
            x = self.coerce(args[1], ELEM_KIND[ek] if ek != "R" else "ref")
            # Python clamps; we make "0 <= i <= len" an obligation instead
            self.oblige(s, "list.insert:index-in-range", z3.And(0 <= i, i <= n))
            newc = self.mk_array(j, z3.If(j < i, z3.Select(c, j),
                                        z3.If(j == i, x, z3.Select(c, j - 1))), c)
            self.lset(s, lst.z, ek, newc, n + 1)
            if ek == "K":
                self.hset(s, "$elems", lst.z, z3.Store(self.hget(s, "$elems", lst.z), x, True))
            return [(s, NONE)]
        if name == "pop":
            if not args:
                res = []
                for s2, ok in self.fork(s, n > 0, "pop_nonempty"):
                    if not ok:
                        res.append((s2, exc("IndexError")))
                        continue
                    v = SV(ELEM_KIND[ek], z3.Select(c, n - 1))
                    self.lset(s2, lst.z, ek, None, n - 1)
                    res.append((s2, v))
                return res
            res = []
            for s2, i in self.norm_index(s, n, args[0], "pop"):
                if isinstance(i, SV):
                    res.append((s2, i))
                    continue
                v = SV(ELEM_KIND[ek], z3.Select(c, i))
                newc = self.mk_array(j, z3.If(j < i, z3.Select(c, j), z3.Select(c, j + 1)), c)
                self.lset(s2, lst.z, ek, newc, n - 1)
                res.append((s2, v))
            return res
        if name == "extend":
            o = args[0]
            if o.kind != "list" or o.x != ek:
                raise Unsupported("extend with " + o.kind)
            m = self.llen(s, o.z)
            oc = self.lcontent(s, o.z, ek)
            newc = self.mk_array(j, z3.If(j < n, z3.Select(c, j), z3.Select(oc, j - n)), c)
            self.lset(s, lst.z, ek, newc, n + m)
            return [(s, NONE)]
        raise Unsupported("list." + name)

    def list_delete(self, s, lst, target):
        n = self.llen(s, lst.z)
        c = self.lcontent(s, lst.z, lst.x)
        j = z3.Int("j!l")
        if isinstance(target.slice, ast.Slice):
            res = []
            for s1, lo, hi in self.slice_bounds(s, target.slice, n):
                newc = self.mk_array(j, z3.If(j < lo, z3.Select(c, j), z3.Select(c, j + (hi - lo))), c)
                self.lset(s1, lst.z, lst.x, newc, n - (hi - lo))
                res.append((s1, None))
            return res
        res = []
        for s1, iv in self.ev(target.slice, s):
            for s2, i in self.norm_index(s1, n, iv, "del"):
                if isinstance(i, SV):
                    res.append((s2, i))
                    continue
                newc = self.mk_array(j, z3.If(j < i, z3.Select(c, j), z3.Select(c, j + 1)), c)
                self.lset(s2, lst.z, lst.x, newc, n - 1)
                res.append((s2, None))
        return res

    # -------------------------------------------------------- method calls
    def call_method(self, s, obj, name, args, kw, prop=False):
        """Dynamic dispatch on the class of obj: case split over the classes
        consistent with the path (each against that class's contract)."""
        if name in ("_to_key", "_to_value"):
            return self.convert(s, name, args[0])
        if name == "readCurrent":
            s.ghost["RC"] = z3.Store(s.ghost["RC"], args[0].z, True)
            return [(s, NONE)]
        hv = (self.cur.ghost.get("havoc_calls") or {}) if self.cur is not None else {}
        if name in hv and self.inline_depth == 0:
            return self.havoc_call(s, obj, name, hv[name], args)
        if obj.x is not None:
            classes = [obj.x]
        else:
            classes = [c for c in ("Bucket", "Set", "Tree", "TreeSet")
                       if self.resolve(c, name)]
        res = []
        cid = self.cls_of(s, obj)
        if obj.x is None:
            classes = [c for c in classes if self.feasible(s, cid == CLASS_IDS[c])]
            if len(classes) > 1 and self.cur is not None and self.cur.ghost.get("prune_dispatch"):
                classes = [c for c in classes if not self.refuted_with_quantifiers(s, cid == CLASS_IDS[c])]
        for c in classes:
            if obj.x is None:
                cnd = cid == CLASS_IDS[c]
                s2 = s.copy()
                s2.assume(cnd)
                s2.trace.append("%s is %s" % (name, c))
            else:
                s2 = s
            q = self.resolve(c, name)
            if q is None:
                raise Unsupported("no method %s on %s" % (name, c))
            res.extend(self.call_qual(s2, q, SV("ref", obj.z, c), args, kw))
        if not res and self.refuted_with_quantifiers(s, z3.BoolVal(True)):
            return []          # the path itself is infeasible (its condition is contradictory)
        if not res:
            if os.environ.get("PYVC_DEBUG_CORE"):
                sv = z3.Solver(); sv.set("unsat_core", True); sv.set("timeout", 20000)
                nm = {}
                for i, h in enumerate(s.pc):
                    nm["h%d" % i] = h
                    sv.assert_and_track(h, z3.Bool("h%d" % i))
                print("DEBUG no receiver for", name, "pc is", sv.check())
                try:
                    for cc in sv.unsat_core():
                        h = nm[str(cc)]
                        print("   --", s.tags.get(h.get_id()) or ("UNTAGGED " + " ".join(str(h).split())[:200]))
                except Exception as e:
                    print(e)
                print("   trace:", " / ".join(s.trace[-10:]))
            raise Unsupported("no feasible receiver class for " + name)
        return res

    def evict(self, st, obj):
        """C05, Python side: a key comparison inside the search may run a cache
        sweep that turns the (unchanged) node into a ghost; the next attribute
        access reloads it into NEW list objects with the same contents.  The old
        list objects stay alive but are no longer the node's state."""
        was_changed = self.hget(st, "$changed", obj.z)
        for fld, ek in (("_keys", "K"), ("_values", "V")):
            if fld == "_values" and obj.x == "Set":
                continue
            old = self.hget(st, fld, obj.z)
            new = self.new_list(st, ek, self.lcontent(st, old, ek), self.llen(st, old),
                                elems=self.hget(st, "$elems", old) if ek == "K" else None)
            self.hset(st, fld, obj.z, z3.If(was_changed, old, new.z))
        st.trace.append("evicted+reloaded during search")

    def havoc_call(self, s, obj, name, spec, args=()):
        """Typestate view of a call (DESIGN 4.3 T-RC / P:RC): the callee may
        change any heap cell and raise anything; only the ghost read-current
        log is tracked: it never shrinks, and stays equal when the callee is
        declared rc-neutral (a claim its own contract proves)."""
        for cl_name, txt in (self.cur.ghost.get("at_call", {}).get(name, {})).items():
            ctx = SpecCtx(self.entry_stack[-1], s)
            env = dict(self.entry_stack[-1].env)
            for i, a in enumerate(args):
                env["arg%d" % i] = a
            bad = [a for a in args if a.kind not in ("K", "V", "int", "bool", "ref", "none", "marker", "any")]
            try:
                goal = self.spec(txt, ctx, env=env, state=s)
            except Unsupported:
                goal = z3.BoolVal(False)      # e.g. an unconverted argument of the wrong kind
            self.oblige(s, "%s:at-call[%s]:%s" % (self.cur.name, name, cl_name), goal)
        res = []
        for ret in spec["returns"]:
            s2 = s.copy()
            for fld in list(s2.heap):
                if fld in ("$cls", "_p_oid", "_p_jar", "_p_serial"):
                    continue
                s2.heap[fld] = fresh("hvall_" + fld.strip("$"), s2.heap[fld].sort())
            k = fresh("nalloc", INT)
            s2.assume(k >= 0)
            s2.alloc = s2.alloc + k
            if not spec.get("rc_neutral", False):
                newrc = fresh("RC", z3.ArraySort(INT, BOOL))
                o = z3.Int("o!rc")
                s2.assume(z3.ForAll([o], z3.Implies(z3.Select(s2.ghost["RC"], o), z3.Select(newrc, o))))
                s2.ghost["RC"] = newrc
            r = self.mk_value(s2, ret, "hret") if ret != "none" else NONE
            s2.ghost = dict(s2.ghost)
            s2.ghost["ret:" + name] = r
            s2.trace.append("havoc %s" % name)
            res.append((s2, r))
        if spec.get("raises", True):
            s3 = s.copy()
            for fld in list(s3.heap):
                if fld in ("$cls", "_p_oid", "_p_jar", "_p_serial"):
                    continue
                s3.heap[fld] = fresh("hvall_" + fld.strip("$"), s3.heap[fld].sort())
            if not spec.get("rc_neutral", False):
                newrc = fresh("RC", z3.ArraySort(INT, BOOL))
                o = z3.Int("o!rc")
                s3.assume(z3.ForAll([o], z3.Implies(z3.Select(s3.ghost["RC"], o), z3.Select(newrc, o))))
                s3.ghost["RC"] = newrc
            res.append((s3, exc("*")))
        return res

    def convert(self, s, name, x):
        if name == "_to_key":
            if x.kind == "K":
                return [(s, x)]
            if x.kind == "any":
                s2 = s.copy()
                s2.trace.append("to_key raises")
                s.assume(REPK(x.z))
                s2.assume(z3.Not(REPK(x.z)))
                return [(s, SV("K", TK(x.z))), (s2, exc("TypeError"))]
            if x.kind in ("none", "marker"):
                return [(s, exc("TypeError"))]
        else:
            if x.kind == "V":
                return [(s, x)]
            if x.kind == "any":
                s2 = s.copy()
                s2.trace.append("to_value raises")
                s.assume(REPV(x.z))
                s2.assume(z3.Not(REPV(x.z)))
                return [(s, SV("V", TV(x.z))), (s2, exc("TypeError"))]
            if x.kind == "none":
                return [(s, SV("V", z3.IntVal(0)))]
        raise Unsupported("%s of %s" % (name, x.kind))

    def call_qual(self, s, q, recv, args, kw):
        # a contract "f#view" is another contract on the same function f; inside a view,
        # callees are taken in the same view where they have one
        view = self.cur.name.split("#", 1)[1] if (self.cur is not None and "#" in self.cur.name) else None
        con = (self.contracts.get(q + "#" + view) if view else None) or self.contracts.get(q)
        if con is not None and not con.inline and not \
                (self.cur is not None and con is self.cur and False):
            return self.call_contract(s, con, recv, args, kw)
        if q in self.sources and (con is None or con.inline):
            if con is None and q not in self.inline_ok:
                raise Unsupported("call to %s: no contract and not inlinable" % q)
            return self.inline(s, self.sources[q], recv, args, kw)
        raise Unsupported("call to unknown " + q)

    inline_ok = {"_Tree._assert", "MERGE", "_AbstractNativeDataType.apply_weight", "_prepMergeIterators"}

    def bind_params(self, fdef, recv, args, kw, s):
        """-> dict name -> SV, evaluating defaults."""
        a = fdef.args
        names = [x.arg for x in a.args]
        env = {}
        pos = list(args)
        if recv is not None:
            pos = [recv] + pos
        if len(pos) > len(names):
            raise Unsupported("too many arguments")
        for nm, v in zip(names, pos):
            env[nm] = v
        ndef = len(a.defaults)
        for i, nm in enumerate(names):
            if nm in env:
                continue
            if nm in kw:
                env[nm] = kw[nm]
                continue
            di = i - (len(names) - ndef)
            if di < 0:
                raise Unsupported("missing argument " + nm)
            (s1, v), = self.ev(a.defaults[di], s)
            env[nm] = v
        return env

    def inline(self, s, fdef, recv, args, kw, closure_env=None):
        if self.inline_depth > 6:
            raise Unsupported("inline depth")
        env = self.bind_params(fdef, recv, args, kw, s)
        saved = s.env
        base = dict(closure_env) if closure_env is not None else {}
        base.update(env)
        s.env = base
        self.inline_depth += 1
        try:
            outs = self.block(fdef.body, s)
        finally:
            self.inline_depth -= 1
        res = []
        for s2, o in outs:
            callee_env = s2.env
            s2.env = dict(saved)
            if closure_env is not None:
                # closures share the enclosing variables they do not shadow
                pass
            if o is None:
                res.append((s2, NONE))
            elif o[0] == "return":
                res.append((s2, o[1]))
            elif o[0] == "raise":
                res.append((s2, o[1]))
            else:
                raise Unsupported("break/continue escaping a function")
        return res

    # ------------------------------------------------- calls via contract
    def mod_targets(self, s, con, env):
        """modifies clauses -> list of (field, object z3) evaluated in s."""
        ctx = SpecCtx(s, s)
        out = []
        for m in con.modifies:
            if m.startswith("list:"):
                l = self.sp(self.spec_expr(m[5:]), s, env, ctx)
                out.append(("$len", l.z))
                out.append(("$" + l.x, l.z))
                if l.x == "K":
                    out.append(("$elems", l.z))
            else:
                objtxt, fld = m.rsplit(".", 1)
                o = self.sp(self.spec_expr(objtxt), s, env, ctx)
                out.append((fld, o.z))
        return out

    def call_contract(self, s, con, recv, args, kw):
        # summaries of nodes whose state this body has changed are refreshed before they are handed
        # to a callee (ghost 'refresh_before' of the contract under verification)
        rb = (self.cur.ghost.get("refresh_before") or {}) if self.cur is not None else {}
        short = con.ghost.get("of", con.name).split(".")[-1]
        if short in rb and self.inline_depth == 0:
            ctx_r = SpecCtx(self.entry_stack[-1], s)
            for nm in rb[short]:
                obj = recv if nm == "self" and recv is not None and False else s.env.get(nm)
                if obj is not None and obj.kind == "ref":
                    goals = self.derive_node(self.cur, s, obj, ctx_r)
                    # the summary "well formed" handed to the callee is established clause by clause
                    for k, g_ in goals.items():
                        self.oblige(s, "%s:before-%s:%s[%s]" % (self.cur.name, short, k, nm), g_)
                        s.assume(g_, tag="refresh:" + k)
        fdef = self.sources.get(con.ghost.get("of", con.name))
        if fdef is not None:
            env = self.bind_params(fdef, recv, args, kw, s)
        else:
            names = list(con.params)
            pos = ([recv] if recv is not None else []) + list(args)
            env = dict(zip((["self"] if recv is not None else []) + names, pos))
            env.update(kw)
        # static kinds must match one declared alternative
        for nm, spec in con.params.items():
            if nm not in env:
                continue
            alts = spec if isinstance(spec, list) else [spec]
            kinds = [parse_kind(a)[0] if not isinstance(a, tuple) else "tuple" for a in alts]
            if env[nm].kind == "none" and "none" not in kinds and "V" in kinds:
                env[nm] = SV("V", z3.Int("V_None"))     # the object None used as a value
            if env[nm].kind == "int" and "int" not in kinds and "V" in kinds:
                env[nm] = SV("V", env[nm].z)        # a value read from an int-typed field (cursor.value)
            if env[nm].kind not in kinds:
                raise Unsupported("call %s: argument %s is %s, contract wants %s"
                                  % (con.name, nm, env[nm].kind, kinds))
        pre = s.copy()
        pre.env = env
        ctx0 = SpecCtx(pre, pre)
        for nm, txt in con.requires.items():
            self.oblige(s, "call:%s:requires:%s" % (con.name, nm),
                        self.spec(txt, ctx0, state=pre))
        res = []
        outcomes = [("normal", con.ensures)] + [(e, cl) for e, cl in con.raises.items()]
        ret_alts = con.returns if isinstance(con.returns, list) else [con.returns]
        outcomes = [("normal", con.ensures, ra) for ra in ret_alts] + \
            [(e, cl, None) for e, cl in con.raises.items()]
        if self.mode == "faulty" and "CompareError" not in con.raises and \
                not con.ghost.get("no_compare", False):
            outcomes.append(("CompareError", con.ghost.get("on_compare_error", {}), None))
            outcomes.append(("TypeError#cmp", con.ghost.get("on_compare_error", {}), None))
        for kind, clauses, ret_spec in outcomes:
            post = s.copy()
            post.env = dict(env)
            if kind == "normal" or con.ghost.get("raise_modifies", False):
                for fld, oz in self.mod_targets(pre, con, env):
                    if fld in ("$K", "$V", "$R", "$I", "$A"):
                        self.larr(post, fld[1:])
                        post.heap[fld] = z3.Store(post.heap[fld], oz,
                                                  fresh("hv", z3.ArraySort(INT, ELEM_SORT[fld[1:]])))
                    elif fld == "$len":
                        nl = fresh("hvlen", INT)
                        post.assume(nl >= 0)
                        if self.ground is not None:
                            post.assume(nl <= self.ground)
                        self.llen(post, oz)
                        post.heap["$len"] = z3.Store(post.heap["$len"], oz, nl)
                    else:
                        fs = "$changed" if fld == "_p_changed" else fld
                        self.hget(post, fs, oz)
                        post.heap[fs] = z3.Store(post.heap[fs], oz,
                                                 fresh("hv", field_sort(fs)))
                if con.ghost.get("allocates", False):
                    k = fresh("nalloc", INT)
                    post.assume(k >= 0)
                    post.alloc = post.alloc + k
            ctx = SpecCtx(pre, post)
            if kind == "normal":
                r = self.mk_value(post, ret_spec, "ret") if ret_spec else NONE
                post.env["result"] = r
                for wn in con.ghost.get("witness", {}):
                    post.env[wn] = mk_int(fresh("wit_" + wn, INT))
            for nm, txt in clauses.items():
                post.assume(self.spec(txt, ctx, state=post), tag="post:%s:%s" % (con.name, nm))
            if kind == "normal":
                # facts that are LEARNT from a normal return (not obligations of the body)
                for nm, txt in (con.ghost.get("learn") or {}).items():
                    post.assume(self.spec(txt, ctx, state=post), tag="learn:%s:%s" % (con.name, nm))
            if not self.feasible(post):
                continue
            post.trace.append("%s->%s" % (con.name.split(".")[-1], kind))
            post.env = dict(s.env)
            if kind == "normal":
                if self.mode == "evict" and con.name.endswith("._search") and recv is not None:
                    self.evict(post, recv)
                res.append((post, r))
            elif kind == "TypeError#cmp":
                post.ghost["cmp_typeerror"] = True
                res.append((post, exc("TypeError")))
            else:
                res.append((post, exc(kind, "callee:" + con.name)))
        return res
