"""Sidecar contracts for the interior-node layer of _base.py (_Tree, Tree,
TreeSet).  Two groups:

* functional contracts (search / routing);
* the read-dependency typestate of C08 ("P:RC"): every write declares each
  stored interior node it descends through, pure reads declare none.  These
  use the havoc view of callees (ghost havoc_calls): nothing is assumed about
  what a child call does to the heap, so the clause is proved for all trees.
"""
from pyvc.spec import Contract

CONTRACTS = []
TREE = ["Tree", "TreeSet"]


def C(*a, **k):
    c = Contract(*a, **k)
    CONTRACTS.append(c)
    return c


SEPS_SORTED = "forall(1, len(self._data), lambda i, j: implies(i < j, self._data[i].key < self._data[j].key))"

C("_Tree._search", cls=TREE, params={"key": "K"},
  requires={"separators_sorted": SEPS_SORTED},
  returns="int",
  ensures={
      "empty": "implies(len(self._data) == 0, result == -1)",
      "in_range": "implies(len(self._data) > 0, 0 <= result and result < len(self._data))",
      "left": "implies(len(self._data) > 0 and result > 0, self._data[result].key <= key)",
      "right": "implies(len(self._data) > 0 and result + 1 < len(self._data), key < self._data[result + 1].key)",
  },
  modifies=[],
  loops=[{
      "inv": {
          "alias": "data is self._data",
          "bounds": "0 <= lo and lo < hi and hi <= len(data) and lo <= i and i < hi",
          "mid": "i == (lo + hi) // 2",
          "left": "lo == 0 or data[lo].key <= key",
          "right": "hi == len(data) or key < data[hi].key",
      },
      "dec": "hi - lo",
  }],
  props=["C01", "C02", "C09"])

# ---- C08 second sentence -------------------------------------------------
ANYRET = ["none", "int", "bool", "K", "V", "ref",
          ("tuple", ["none", "V"]), ("tuple", ["int", "V"]), ("tuple", ["bool", "none"]),
          ("tuple", ["int", "int"]), ("tuple", ["bool", "V"])]
SET_RET = [("tuple", ["none", "V"]), ("tuple", ["int", "V"]), ("tuple", ["bool", "none"])]
DEL_RET = [("tuple", ["int", "V"]), ("tuple", ["bool", "V"])]
DECLARED = {"declared_before_descent": "implies(stored(self), rc(self))"}
RC_WRITE = dict(
    ghost={"havoc_calls": {"_set": {"returns": SET_RET}, "_del": {"returns": DEL_RET},
                           "_search": {"returns": ["int"], "rc_neutral": True, "raises": True},
                           "_grow": {"returns": ["none"]},
                           "minKey": {"returns": ["K"], "rc_neutral": True},
                           "_deleteNextBucket": {"returns": ["none"]},
                           "size": {"returns": ["int"], "rc_neutral": True, "raises": False}},
           "at_call": {"_set": DECLARED, "_del": DECLARED},
           "no_frame": True, "rc_mode": True},
    ensures={"declared": "implies(old(stored(self)), rc(self))"},
    raises={"*": {"declared_or_empty": "implies(old(stored(self)), rc(self))"}, "KeyError": {"declared": "implies(old(stored(self)), rc(self))"}},
)
C("_Tree._set", cls=TREE, params={"key": "K", "value": ["none", "V"], "ifunset": "bool"},
  requires={}, returns=SET_RET, props=["C08", "C03"], **RC_WRITE)
C("_Tree._del", cls=TREE, params={"key": "K"},
  requires={}, returns=DEL_RET, props=["C08", "C03"], **RC_WRITE)

# ---- C13 / C09: the tree entry points convert before they descend ---------
# (typestate view: child calls are havocked; the clause is about the
# arguments the real code passes down and about unconvertible arguments)
CONVERTED_KEY = {"key_converted": "key_ok(key) and arg0 == to_key(key)"}
CONVERTED_KV = {"key_converted": "key_ok(key) and arg0 == to_key(key)",
                "value_converted": "value_ok(value) and arg1 == to_value(value)"}
LOOKUP_HAVOC = {"_findbucket": {"returns": ["ref"], "rc_neutral": True},
                "get": {"returns": ["V", "none"], "rc_neutral": True},
                "__getitem__": {"returns": ["V"], "rc_neutral": True},
                "has_key": {"returns": ["bool"], "rc_neutral": True},
                "__contains__": {"returns": ["bool"], "rc_neutral": True},
                "_search": {"returns": ["int"], "rc_neutral": True, "raises": False}}

C("Tree.insert", cls="Tree", params={"key": "any", "value": "any"}, returns="bool",
  ghost={"havoc_calls": {"_set": {"returns": SET_RET}}, "at_call": {"_set": CONVERTED_KV}, "no_frame": True},
  ensures={}, raises={"*": {}, "TypeError": {}}, props=["C13", "C09"])
C("Tree.get", cls="Tree", params={"key": "any", "default": ["none", "V"]}, returns=["V", "none"],
  ghost={"havoc_calls": LOOKUP_HAVOC, "at_call": {"_findbucket": CONVERTED_KEY}, "no_frame": True},
  ensures={"absent_if_unconvertible": "implies(not key_ok(key), result is default)", "no_read_dependency": "rc_unchanged()"},
  raises={"*": {"only_from_below": "key_ok(key)"}}, props=["C13", "C09", "C08"])
C("Tree.__getitem__", cls="Tree", params={"key": "any"}, returns="V",
  ghost={"havoc_calls": LOOKUP_HAVOC, "at_call": {"_findbucket": CONVERTED_KEY}, "no_frame": True},
  ensures={"found_only_if_convertible": "key_ok(key)", "no_read_dependency": "rc_unchanged()"},
  raises={"KeyError": {}, "*": {"only_from_below": "key_ok(key)"}}, props=["C13", "C09", "C08"])
C("_Tree.has_key", cls=TREE, params={"key": "any"}, returns="bool",
  ghost={"havoc_calls": LOOKUP_HAVOC, "at_call": {"_search": CONVERTED_KEY, "has_key": CONVERTED_KEY}, "no_frame": True},
  ensures={"absent_if_unconvertible": "implies(not key_ok(key), not result)", "no_read_dependency": "rc_unchanged()"},
  raises={"*": {"only_from_below": "key_ok(key)"}}, props=["C13", "C09", "C08"])
C("_Tree.__contains__", cls=TREE, params={"key": "any"}, returns="bool",
  ghost={"havoc_calls": LOOKUP_HAVOC, "at_call": {"_findbucket": CONVERTED_KEY}, "no_frame": True},
  ensures={"absent_if_unconvertible": "implies(not key_ok(key), not result)", "no_read_dependency": "rc_unchanged()"},
  raises={"*": {"only_from_below": "key_ok(key)"}}, props=["C13", "C09", "C08"])
MINMAX_HAVOC = dict(LOOKUP_HAVOC, minKey={"returns": ["K"], "rc_neutral": True}, maxKey={"returns": ["K"], "rc_neutral": True})
C("_Tree.minKey", cls=TREE, params={"min": ["marker", "none", "any"]}, returns="K",
  ghost={"havoc_calls": MINMAX_HAVOC, "no_frame": True,
         "at_call": {"_findbucket": {"bound_converted": "key_ok(min) and arg0 == to_key(min)"}}},
  ensures={"no_read_dependency": "rc_unchanged()"},
  raises={"ValueError": {}, "TypeError": {"bound_given": "min is not _marker and min is not None"},
          "*": {"only_from_below": "min is _marker or min is None or key_ok(min)"}}, props=["C13", "C08"])
C("_Tree.maxKey", cls=TREE, params={"max": ["marker", "none", "any"]}, returns="K",
  ghost={"havoc_calls": MINMAX_HAVOC, "no_frame": True,
         "at_call": {"_search": {"bound_converted": "key_ok(max) and arg0 == to_key(max)"}}},
  ensures={"no_read_dependency": "rc_unchanged()"},
  raises={"ValueError": {}, "TypeError": {"bound_given": "max is not _marker and max is not None"},
          "*": {"only_from_below": "max is _marker or max is None or key_ok(max)"}}, props=["C13", "C08"])
C("_Tree.__setitem__", cls=TREE, params={"key": "any", "value": "any"}, returns="none",
  ghost={"havoc_calls": {"_set": {"returns": SET_RET}}, "at_call": {"_set": CONVERTED_KV}, "no_frame": True},
  ensures={}, raises={"*": {}, "TypeError": {}}, props=["C13", "C09"])
C("_Tree.__delitem__", cls=TREE, params={"key": "any"}, returns="none",
  ghost={"havoc_calls": {"_del": {"returns": DEL_RET}}, "at_call": {"_del": CONVERTED_KEY}, "no_frame": True},
  ensures={}, raises={"*": {}, "TypeError": {}}, props=["C13", "C09"])
C("_Tree.pop", cls=TREE, params={"key": "any", "default": ["marker", "none", "V"]}, returns=["V", "none"],
  ghost={"havoc_calls": {"_del": {"returns": DEL_RET}}, "at_call": {"_del": CONVERTED_KEY}, "no_frame": True},
  ensures={}, raises={"*": {}, "TypeError": {}, "KeyError": {}}, props=["C13", "C09"])
C("TreeSet.remove", cls="TreeSet", params={"key": "any"}, returns="none",
  ghost={"havoc_calls": {"_del": {"returns": DEL_RET}}, "at_call": {"_del": CONVERTED_KEY}, "no_frame": True},
  ensures={}, raises={"*": {}, "TypeError": {}, "KeyError": {}}, props=["C13", "C09"])
C("_Tree.setdefault", cls=TREE, params={"key": "any", "value": "any"}, returns=["V", "none"],
  ghost={"havoc_calls": {"_set": {"returns": SET_RET}}, "at_call": {"_set": CONVERTED_KV}, "no_frame": True},
  ensures={}, raises={"*": {}, "TypeError": {}}, props=["C13", "C09"])
C("TreeSet.add", cls="TreeSet", params={"key": "any"}, returns=["bool", "int", "none"],
  ghost={"havoc_calls": {"_set": {"returns": SET_RET}}, "at_call": {"_set": CONVERTED_KEY}, "no_frame": True},
  ensures={}, raises={"*": {}, "TypeError": {}}, props=["C13", "C09"])

# ---- C18 / C03: the structural checker of the Python tree -------------------
C("_Tree.size", cls=TREE, params={}, requires={}, returns="int",
  ensures={"len": "result == len(self._data)"}, modifies=[], props=["C01", "C03", "C18"], ghost={"no_compare": True})

N = "len(self._data)"
KIDS_OK = ("forall(0, " + N + ", lambda i: self._data[i].child is not None and cls_id(self._data[i].child) == cls_id(self._data[0].child) "
           "and nsize(self._data[i].child) != 0)")
KIND_OK = "(cls_id(self._data[0].child) == cls_id(self) or cls_id(self._data[0].child) == bucket_cls_of(self))"
TREE_KIDS = "cls_id(self._data[0].child) == cls_id(self)"
LEAF_KIDS = "(cls_id(self._data[0].child) != cls_id(self) and cls_id(self._data[0].child) == bucket_cls_of(self))"
CHAIN_OK = ("forall(0, " + N + " - 1, lambda i: self._data[i].child._next is self._data[i + 1].child) and "
            "self._data[" + N + " - 1].child._next is nextbucket")
KIDS_CHECKED = ("forall(0, " + N + " - 1, lambda i: checked(self._data[i].child, self._data[i + 1].child._firstbucket)) and "
                "checked(self._data[" + N + " - 1].child, nextbucket)")
LOCAL_OK = ("(" + N + " == 0 and self._firstbucket is None) or (" + N + " > 0 and self._firstbucket is not None and " + KIDS_OK + " and " + KIND_OK +
            " and implies(" + TREE_KIDS + ", self._firstbucket is self._data[0].child._firstbucket)"
            " and implies(" + LEAF_KIDS + ", self._firstbucket is self._data[0].child and " + CHAIN_OK + "))")

C("_Tree._check", cls=TREE, params={"nextbucket": ["none", "ref"]}, returns="none",
  requires={},
  ensures={
      "empty_tree": "implies(" + N + " == 0, self._firstbucket is None)",
      "first_bucket": "implies(" + N + " > 0, self._firstbucket is not None)",
      "children_uniform_nonempty": "implies(" + N + " > 0, " + KIDS_OK + ")",
      "children_kind": "implies(" + N + " > 0, " + KIND_OK + ")",
      "first_bucket_of_trees": "implies(" + N + " > 0 and " + TREE_KIDS + ", self._firstbucket is self._data[0].child._firstbucket)",
      "children_checked_with_their_successor": "implies(" + N + " > 0 and " + TREE_KIDS + ", " + KIDS_CHECKED + ")",
      "first_bucket_of_leaves": "implies(" + N + " > 0 and " + LEAF_KIDS + ", self._firstbucket is self._data[0].child)",
      "leaf_chain": "implies(" + N + " > 0 and " + LEAF_KIDS + ", " + CHAIN_OK + ")",
  },
  raises={"AssertionError": {}, "*": {}},
  modifies=[],
  ghost={"no_compare": True,
         "learn": {"checked": "checked(self, nextbucket)"}, "at_raise_local_only": True,
         "at_raise": {"AssertionError": {"only_if_a_clause_fails": "not (" + LOCAL_OK + ")"}}},
  loops=[
      {"inv": {"alias": "data is self._data and assert_ is not None",
               "counter": "0 <= i__next and i__next <= len(data)",
               "so_far": "forall(0, i__next, lambda j: data[j].child is not None and cls_id(data[j].child) == cls_id(data[0].child) and nsize(data[j].child) != 0)"}},
      {"inv": {"alias": "data is self._data",
               "counter": "0 <= i__next and i__next <= len(data) - 1 and i__hi == len(data) - 1",
               "so_far": "forall(0, i__next, lambda j: checked(data[j].child, data[j + 1].child._firstbucket))"}},
      {"inv": {"alias": "data is self._data",
               "counter": "0 <= i__next and i__next <= len(data) - 1 and i__hi == len(data) - 1",
               "so_far": "forall(0, i__next, lambda j: data[j].child._next is data[j + 1].child)"}},
  ],
  props=["C18", "C03"])

# ---- C02: what _Tree.keys hands to the lazy sequence denotes the requested interval -----------------
# (typestate view: minKey / maxKey / _findbucket / _TreeItems are havocked; the clauses are about the
# ARGUMENTS the real code passes on.  keys / values / items and their iter* forms of Tree and TreeSet
# all go through this function.)  The bounds of the requested interval, per C02's statement:
#   min given                      -> the converted min, flag as given, start leaf = _findbucket(converted min)
#   min omitted (marker / None)    -> stays omitted unless exclusive; start leaf = the first leaf
#   min omitted and excludemin     -> the overall smallest key (what minKey() returned), still exclusive
# and symmetrically for max (which the leaves convert themselves).
BOUND = ["marker", "none", "any"]
KEYS_HAVOC = {"minKey": {"returns": ["K"], "rc_neutral": True}, "maxKey": {"returns": ["K"], "rc_neutral": True},
              "_findbucket": {"returns": ["ref"], "rc_neutral": True},
              "_TreeItems": {"returns": ["ref"], "rc_neutral": True, "raises": False}}
MIN_GIVEN = "(min is not _marker and min is not None)"
MAX_GIVEN = "(max is not _marker and max is not None)"
C("_Tree.keys", cls=TREE,
  params={"min": BOUND, "max": BOUND, "excludemin": "bool", "excludemax": "bool", "itertype": "str:iterkeys"},
  returns=["ref", ("tuple", [])],
  ghost={"havoc_calls": KEYS_HAVOC, "no_frame": True,
         "at_call": {
             "_findbucket": {"bound_converted": "(key_ok(min) and arg0 == to_key(min)) if " + MIN_GIVEN +
                                                " else (excludemin and called('minKey') and arg0 == last_ret('minKey'))"},
             "_TreeItems": {
                 "flags": "arg2[2] == excludemin and arg2[3] == excludemax",
                 "itertype": "arg1 == itertype",
                 "min_given": "implies(" + MIN_GIVEN + ", key_ok(min) and arg2[0] == to_key(min) and arg0 is last_ret('_findbucket'))",
                 "min_omitted": "implies(not " + MIN_GIVEN + " and not excludemin, is_omitted(arg2[0]) and arg0 is self._firstbucket)",
                 "min_omitted_exclusive": "implies(not " + MIN_GIVEN + " and excludemin, called('minKey') and arg2[0] == last_ret('minKey') and "
                                          "arg0 is last_ret('_findbucket'))",
                 "max_given": "implies(" + MAX_GIVEN + ", arg2[1] == max)",
                 "max_omitted": "implies(not " + MAX_GIVEN + " and not excludemax, is_omitted(arg2[1]))",
                 "max_omitted_exclusive": "implies(not " + MAX_GIVEN + " and excludemax, called('maxKey') and arg2[1] == last_ret('maxKey'))",
             }}},
  ensures={"no_read_dependency": "rc_unchanged()"},
  raises={"TypeError": {"bound_given": MIN_GIVEN}, "*": {"only_from_below": "old(len(self._data)) > 0"}},
  props=["C02", "C13"])
