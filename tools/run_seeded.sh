#!/bin/bash
# run_seeded.sh <seeded-id> [tier]: apply the seeded change to a scratch worktree of /repo's HEAD and run the
# check of its property against that tree (VERIF_REPO).  Output: one summary line + log in /tmp/seedrun/.
# The summary lists failed obligations of the engines first (deductive), then stand-in contract keys.
HERE="$(cd "$(dirname "$0")/.." && pwd)"
id=$1
tier=${2:-quick}
prop=${id%%-*}
WT=/tmp/seedrun/wt-$id-$$
mkdir -p /tmp/seedrun
git -C /repo worktree add --detach $WT HEAD >/dev/null 2>&1 || { echo "$id WORKTREE-FAILED"; exit 1; }
cd $WT
if ! git apply $HERE/seeded/$id/patch.diff 2>/dev/null; then
  if ! git apply --3way $HERE/seeded/$id/patch.diff >/dev/null 2>&1; then
     echo "$id PATCH-DOES-NOT-APPLY (source changed by a fix commit)"; cd /; git -C /repo worktree remove --force $WT; exit 0
  fi
fi
cd $HERE
VERIF_REPO=$WT ./check $prop --tier $tier > /tmp/seedrun/$id.log 2>&1
rc=$?
all=$(grep "violated:" /tmp/seedrun/$id.log | sed 's/ -- .*//; s/  violated: //' | sort -u)
ded=$(echo "$all" | grep -E '^(T-|F-|M-|attached:|call:|lemma:|[A-Z_a-z]+[.:][A-Za-z_#]+[:.].*(post|loop|raise|at-|requires|frame|cover|keeps|returns-kind)|Length)' | head -4 | tr '\n' ';')
std=$(echo "$all" | grep -E '^[a-z]+:(c|py|twin):' | head -3 | tr '\n' ';')
echo "$id rc=$rc deductive=[$ded] standin=[$std]"
cd /; git -C /repo worktree remove --force $WT >/dev/null 2>&1
