"""Bounded stand-in for C04 (every change reaches the database), end to end.

Oracle = the statement: "if exactly the objects that registered themselves as
changed (together with objects newly reachable from them) are written, a fresh
reader that loads the stored records sees precisely the contents the writer
saw, in a sound tree.  After an abort the writer's own in-memory container
shows the last committed contents again."

The container lives in rtc.stubdb (a stated model of a ZODB connection: commit
writes exactly the registered + newly reachable objects).  A history of public
calls is cut into transactions: after any call the writer commits or aborts.
  commit: a FRESH connection loads the root from the stored records; the
          independent walker (harness.walk) must accept it and yield exactly
          what the writer's own iteration yields; so must the reader's public
          iteration and len().
  abort : the writer's container must show the contents of the last commit and
          be sound.
Nothing is compared with the code under test's idea of "changed".
"""
import argparse
import itertools
import random
import re

from lib.common import Standin, Failure, write_standin
from rtc import harness as H
from rtc import stubdb

DEFAULTS = {}       # class -> (max_leaf_size, max_internal_size) as shipped


def get_class(fam, kind, impl, sizes):
    cls = H.get_class(fam, kind, impl)
    if kind in ("BTree", "TreeSet"):
        DEFAULTS.setdefault(cls, (cls.max_leaf_size, cls.max_internal_size))
        cls.max_leaf_size, cls.max_internal_size = sizes or DEFAULTS[cls]
    return cls


def slug(msg):
    return "-".join(re.sub(r"[^a-z_ ]", " ", str(msg).lower()).split()[:5])


def inlined_below_root(t):
    """Diagnosis only (narrows the key): does a NON-ROOT interior node carry its
    single leaf inside its own record (a 1-tuple state)?  Then the previous
    leaf's successor link necessarily names another copy of that leaf."""
    st = t.__getstate__()
    if st is None or len(st) == 1:
        return False
    for kid in st[0][0::2]:
        if type(kid) is type(t):
            ks = kid.__getstate__()
            if ks is not None and len(ks) == 1 or inlined_below_root(kid):
                return True
    return False


def run_history(cls, is_set, sizes, h, cuts, evict, shapes):
    """-> (n_checks, None | (clause, description, index of the cut))."""
    is_tree = sizes is not None
    st = stubdb.Storage()
    w = st.open()
    t = cls()
    oid = w.add(t)
    w.commit()                       # the empty container is the first committed state
    committed = []
    n = 0
    last = "none"
    for i, (op, cut) in enumerate(zip(h, cuts)):
        r = H.apply_impl(t, op)
        if r[0] == "ret" and op[0] not in ("get", "getitem", "contains", "has_key", "len", "bool"):
            last = op[0]
        if not cut:
            continue
        n += 1
        if cut == "c":
            try:
                seen = H.contents(t, is_set)        # what the writer sees
                w.commit()
            except Exception as e:
                return n, ("commit-error:" + type(e).__name__, "commit raised %s: %s" % (type(e).__name__, e), i, last)
            committed = seen
            rd = st.open()
            rt = rd.get(oid)
            try:
                if is_tree:
                    c, nleaves, height = H.walk(rt, is_set, *sizes)
                    if nleaves > 1:
                        shapes.add(("c", H.shape(rt, is_set)))
                else:
                    c = H.contents(rt, is_set)
                    shapes.add(("c", len(c)))
                api = H.contents(rt, is_set)
                ln = len(rt)
            except H.Damage as e:
                why = "nonroot-node-inlines-its-only-leaf" if inlined_below_root(rt) else slug(e)
                return n, ("reader-damage:" + why, "fresh reader after commit: %s" % e, i, last)
            except Exception as e:
                return n, ("reader-error:" + type(e).__name__,
                           "fresh reader after commit raised %s: %s" % (type(e).__name__, e), i, last)
            if c != seen or api != seen or ln != len(seen):
                return n, ("reader-contents", "fresh reader sees %r (walk) / %r (iteration) / len %d, writer saw %r" %
                           (c, api, ln, seen), i, last)
            if evict:
                w.sweep()
            last = "none"
        else:
            w.abort()
            try:
                got = H.contents(t, is_set)
                if is_tree:
                    c, nleaves, height = H.walk(t, is_set, *sizes)
                    if nleaves > 1:
                        shapes.add(("a", H.shape(t, is_set)))
                else:
                    c = got
            except H.Damage as e:
                return n, ("abort-damage:" + slug(e), "writer after abort: %s" % e, i, last)
            except Exception as e:
                return n, ("abort-error:" + type(e).__name__,
                           "writer after abort raised %s: %s" % (type(e).__name__, e), i, last)
            if got != committed or c != committed:
                return n, ("abort-contents", "writer after abort shows %r (walk %r), last committed %r" %
                           (got, c, committed), i, last)
            last = "none"
    return n, None


def schedules(fam, is_set, is_tree, nkeys, rng, quick, big):
    """Yield (history, cuts).  See the `bound` text in main()."""
    keys = list(range(nkeys)) if fam != "fs" else [i.to_bytes(2, "big") for i in range(nkeys)]
    vals = H.values_of(fam)
    put = (lambda k, v=0: ("add", k)) if is_set else (lambda k, v=0: ("setitem", k, vals[v]))
    rem = (lambda k: ("remove", k)) if is_set else (lambda k: ("delitem", k))
    if not big:
        # (1) every history of <= 2 core mutators over 4 keys x every cut pattern
        core = [put(k) for k in keys[:4]] + [rem(k) for k in keys[:4]]
        for h in H.histories(core, core, 0, 2, 0, 0):
            for cuts in itertools.product(("", "c", "a"), repeat=len(h)):
                if any(cuts):
                    yield h, cuts
    # (2) directed: fill in some order, thin in some order, under a cut discipline
    orders = {"asc": keys, "desc": keys[::-1], "mix": rng.sample(keys, len(keys))}
    for fo in orders:
        for to in orders:
            for disc in ("commit-each", "abort-each", "random", "one-txn"):
                if big and (disc, fo) != ("commit-each", "asc") and quick:
                    continue
                if disc == "one-txn":
                    # commit 3 keys, then grow and shrink by j keys inside ONE transaction
                    for j in ([] if big or fo == "mix" else range(1, len(keys) - 2)):
                        h = [put(k) for k in orders[fo]] + [rem(k) for k in orders[to][:j]]
                        yield tuple(h), tuple("c" if x in (2, len(h) - 1) else "" for x in range(len(h)))
                    continue
                h = [put(k) for k in orders[fo]] + [rem(k) for k in orders[to]]
                if not is_set:
                    h[len(keys):len(keys)] = [put(orders[to][0], 1)]       # a pure value change
                if disc == "commit-each":
                    cuts = ["c"] * len(h)
                    if big:        # default node sizes: hundreds of calls, cut every 7th
                        cuts = ["c" if j % 7 == 0 or j == len(h) - 1 else "" for j in range(len(h))]
                elif disc == "abort-each":
                    cuts = [""] * (len(keys) - 1) + ["c"] + ["a"] * (len(h) - len(keys))
                else:
                    cuts = [rng.choice(["", "", "c", "c", "a"]) for _ in h]
                yield tuple(h), tuple(cuts)
    if big:
        return
    # (3) seeded histories over the whole public alphabet, cut at random
    full = H.alphabet(fam, is_set, keys, vals, rich=True, tree=is_tree)
    for h in H.histories(full, full, rng.randrange(10 ** 6), 0, 12 if quick else 150, 30):
        yield h, tuple(rng.choice(["", "", "", "c", "c", "a"]) for _ in h)


def job(j):
    """One (family, kind, implementation): -> (evaluations, shapes, failures)."""
    fam, kind, impl = j
    quick = H.tier() == "quick"
    evals, shapes, failures = 0, set(), []
    is_set, is_tree = kind in ("Set", "TreeSet"), kind in ("BTree", "TreeSet")
    sizes_l = [(2, 3), (2, 2), None] if quick else [(2, 3), (3, 3), (4, 3), (2, 2), None]
    for sizes in (sizes_l if is_tree else [()]):
        cls = get_class(fam, kind, impl, sizes)
        big = sizes is None
        wsizes = (sizes or DEFAULTS[cls]) if is_tree else None
        rng = random.Random(H.seed() * 7919 + hash((fam, kind, impl, sizes)) % 1000)
        nfail, evict = 0, False
        for h, cuts in schedules(fam, is_set, is_tree, 400 if big else 10, rng, quick, big):
            evict = not evict
            n, bad = run_history(cls, is_set, wsizes, h, cuts, evict, shapes)
            evals += n
            if not bad:
                continue
            clause, desc, i, last = bad
            tag = "s%dx%d" % sizes if sizes else ("default" if is_tree else "leaf")
            hist = [[o[0]] + [repr(x) for x in o[1:]] + [c] for o, c in zip(h[:i + 1], cuts)]
            if len(hist) > 60:
                hist = ["... %d calls ..." % (len(hist) - 60)] + hist[-60:]
            key = "persist:%s:%s:%s:%s:%s" % (impl, kind, clause, tag, last)
            if sum(f.key == key for f in failures) >= 2:     # keep looking for OTHER violations
                continue
            failures.append(Failure(
                key=key,
                desc="%s%s%s sizes=%s: %s" % (fam, kind, "Py" if impl == "py" else "", wsizes, desc[:600]),
                repro={"family": fam, "kind": kind, "impl": impl, "sizes": wsizes, "evict_after_commit": evict,
                       "history_with_cuts(c=commit,a=abort)": hist}))
            nfail += 1
            if nfail >= 8:
                break
    return evals, shapes, failures


def main():
    ap = argparse.ArgumentParser()
    ap.add_argument("--out")
    a = ap.parse_args()
    quick = H.tier() == "quick"
    s = Standin(
        name="persist_rt",
        bound="per (family, kind, implementation, node sizes): every history of <=2 add/delete calls over 4 keys x every "
              "commit/abort/continue pattern; fill 10 keys (ascending, descending, shuffled) then delete all (same three "
              "orders) with commit after every call / abort after every delete / seeded cuts / (3 keys, commit, the other 7 and j deletes, commit); %d seeded histories of 15..30 "
              "calls over the whole public alphabet with seeded cuts; node sizes (2,3)%s, (2,2) [known interior-split "
              "defect lives here], and the shipped sizes with 400 keys; trees and leaves (Bucket/Set) as the stored root; "
              "writer cache swept after commit in every second history"
              % (12 if quick else 150, "" if quick else ", (3,3), (4,3)"),
        rule="case = one cut (commit + fresh reader compared with the writer, or abort + writer compared with the last "
             "commit); distinct non-trivial = distinct multi-leaf shapes seen by a reader / restored by an abort",
        functions=["_BTree_set (PER_CHANGED)", "BTree_grow", "BTree_split_root", "BTree_deleteNextBucket", "_bucket_set",
                   "bucket_split", "BTree_clear", "_Tree._set/_del/_grow (_p_changed)", "Bucket._set/_del/_split",
                   "__getstate__/__setstate__ of all node types (through the stored records)"])
    shapes = set()
    jobs = [(fam, kind, impl) for fam in H.fams() for kind in ("BTree", "TreeSet", "Bucket", "Set") for impl in ("c", "py")]
    for n, sh, fails in H.run_parallel(job, jobs):
        s.evaluations += n
        shapes |= sh
        s.failures += fails
    s.distinct_nontrivial = len(shapes)
    s.samples = [{"family": "OO", "kind": "BTree", "sizes": [2, 3],
                  "history": "setitem(0..9) each followed by commit+fresh reader; delitem(9..0) each followed by commit+fresh reader"},
                 {"family": "OO", "kind": "BTree", "sizes": [2, 3],
                  "history": "setitem(0..9), commit, then delitem(k); abort; writer must show 0..9 again, for every k"}]
    write_standin(a.out, s)


if __name__ == "__main__":
    main()
