"""unsat_core.py <function> <case> <obligation-name>: which hypotheses make an obligation provable
(debugging aid for vacuity: run it on a `:cover-false` obligation)."""
import sys
sys.path.insert(0, '/verif')
import z3
from pyvc.run import load_sources, all_contracts, add_lemma_programs, _consts
from pyvc.verify import Verifier
sources, classes = load_sources(); contracts = all_contracts(); add_lemma_programs(sources, contracts)
con = contracts[sys.argv[1]]
eng = Verifier(sources, classes, contracts, ground=None, mode="normal"); eng.covers = []
eng.verify_function(con, cases={int(sys.argv[2])})
for o in eng.obls:
    if o.name != sys.argv[3]:
        continue
    s = z3.Solver(); s.set("timeout", 20000); s.set("unsat_core", True)
    names = {}
    for i, h in enumerate(o.hyps):
        p = z3.Bool("h%d" % i); names["h%d" % i] = h
        s.assert_and_track(h, p)
    acc, seen = set(), set()
    for h in o.hyps: _consts(h, acc, seen)
    fields = set()
    for nm in acc:
        if nm == "H0_len": fields.add("$len")
        elif nm == "H0_LR": fields.add("$R")
        elif nm.startswith("H0_"): fields.add(nm[3:])
    from pyvc.spec import pe_axioms
    s.add(*pe_axioms())
    s.add(*eng.heap_axioms(z3.Int("alloc0"), fields))
    s.add(z3.Not(o.goal))
    r = s.check()
    print(r)
    if r == z3.unsat:
        for c in s.unsat_core():
            h = names[str(c)]
            t = o.tagmap.get(h.get_id())
            print("--", t if t else "UNTAGGED " + " ".join(str(h).split())[:300])
    break
