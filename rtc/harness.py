"""Shared machinery of the bounded stand-ins (DESIGN.md 6.5): reference sorted
map / set, small-node container classes of both implementations, operation
alphabet, history generator (exhaustive short + seeded long), the independent
well-formedness walker.  Everything here is run-time checking over a stated
finite scope: never counted as proved.
"""
import itertools
import os
import random

MARK = object()


# --------------------------------------------------------------- families
def family_module(fam):
    import importlib
    return importlib.import_module("BTrees.%sBTree" % fam)


def keys_of(fam, n=6):
    """A small key universe of the family, plus its extremes."""
    k = fam[0]
    if fam == "fs":
        return [bytes([0, i]) for i in range(n)]
    if k == "O":
        return list(range(n))
    return list(range(n))


def extremes(fam):
    k = fam[0]
    return {"I": [-2**31, 2**31 - 1], "U": [0, 2**32 - 1], "L": [-2**63, 2**63 - 1],
            "Q": [0, 2**64 - 1], "O": [None], "f": []}[k]


def values_of(fam):
    v = fam[1]
    if fam == "fs":
        return [b"aaaaaa", b"bbbbbb"]
    if v == "O":
        return ["a", "b"]
    if v == "F":
        return [0.5, 1.5]
    return [1, 2]


def get_class(fam, kind, impl, leaf=None, internal=None):
    """kind in BTree Bucket TreeSet Set; impl 'c' | 'py'.  Node sizes are set on
    the class itself (this process is private to the stand-in)."""
    m = family_module(fam)
    name = fam + kind + ("Py" if impl == "py" else "")
    cls = getattr(m, name)
    if impl == "c" and cls is getattr(m, fam + kind + "Py"):
        raise RuntimeError("C extension for %s not built" % fam)
    if kind in ("BTree", "TreeSet") and leaf is not None:
        cls.max_leaf_size = leaf
        cls.max_internal_size = internal
    return cls


# --------------------------------------------------------------- reference
class RefMap:
    """The reference sorted map (is_set: sorted set)."""

    def __init__(self, is_set):
        self.d = {}
        self.is_set = is_set

    def skey(self, k):
        return (0, 0) if k is None else (1, k)

    def keys(self):
        return sorted(self.d, key=self.skey)

    def items(self):
        return [(k, self.d[k]) for k in self.keys()]

    def contents(self):
        return self.keys() if self.is_set else self.items()


def apply_ref(ref, op):
    """-> ('ret', value) | ('exc', ClassName) ; mutates ref."""
    name, args = op[0], op[1:]
    d = ref.d
    if name == "setitem":
        d[args[0]] = args[1]
        return ("ret", None)
    if name == "delitem":
        if args[0] not in d:
            return ("exc", "KeyError")
        del d[args[0]]
        return ("ret", None)
    if name == "insert":
        if args[0] in d:
            return ("ret", 0)
        d[args[0]] = args[1]
        return ("ret", 1)
    if name == "setdefault":
        return ("ret", d.setdefault(args[0], args[1]))
    if name == "pop":
        if args[0] in d:
            return ("ret", d.pop(args[0]))
        if len(args) > 1:
            return ("ret", args[1])
        return ("exc", "KeyError")
    if name == "popitem":
        if not d:
            return ("exc", "KeyError")
        k = ref.keys()[0]
        return ("ret", (k, d.pop(k)))
    if name == "update":
        for k, v in args[0]:
            d[k] = v
        return ("ret", MARK)
    if name == "clear":
        d.clear()
        return ("ret", None)
    if name == "get":
        return ("ret", d.get(args[0], args[1] if len(args) > 1 else None))
    if name == "getitem":
        if args[0] in d:
            return ("ret", d[args[0]])
        return ("exc", "KeyError")
    if name in ("contains", "has_key"):
        return ("ret", args[0] in d)
    if name == "len":
        return ("ret", len(d))
    if name == "bool":
        return ("ret", bool(d))
    # ---- sets
    if name == "add":
        if args[0] in d:
            return ("ret", 0)
        d[args[0]] = None
        return ("ret", 1)
    if name == "remove":
        if args[0] not in d:
            return ("exc", "KeyError")
        del d[args[0]]
        return ("ret", None)
    if name == "discard":
        d.pop(args[0], None)
        return ("ret", None)
    if name == "spop":
        if not d:
            return ("exc", "KeyError")
        k = ref.keys()[0]
        del d[k]
        return ("ret", k)
    if name == "supdate":
        for k in args[0]:
            d[k] = None
        return ("ret", MARK)
    if name == "ior":
        for k in args[0]:
            d[k] = None
        return ("ret", MARK)
    if name == "iand":
        for k in list(d):
            if k not in args[0]:
                del d[k]
        return ("ret", MARK)
    if name == "isub":
        for k in args[0]:
            d.pop(k, None)
        return ("ret", MARK)
    if name == "ixor":
        for k in set(args[0]):
            if k in d:
                del d[k]
            else:
                d[k] = None
        return ("ret", MARK)
    raise ValueError(name)


def apply_impl(t, op):
    name, args = op[0], op[1:]
    try:
        if name == "setitem":
            t[args[0]] = args[1]
            r = None
        elif name == "delitem":
            del t[args[0]]
            r = None
        elif name == "insert":
            r = t.insert(args[0], args[1])
        elif name == "setdefault":
            r = t.setdefault(args[0], args[1])
        elif name == "pop":
            r = t.pop(*args)
        elif name == "popitem":
            r = t.popitem()
        elif name == "update":
            t.update(list(args[0]))
            r = MARK
        elif name == "clear":
            r = t.clear()
        elif name == "get":
            r = t.get(*args)
        elif name == "getitem":
            r = t[args[0]]
        elif name == "contains":
            r = args[0] in t
        elif name == "has_key":
            r = bool(t.has_key(args[0]))
        elif name == "len":
            r = len(t)
        elif name == "bool":
            r = bool(t)
        elif name == "add":
            r = t.add(args[0])
        elif name == "remove":
            r = t.remove(args[0])
        elif name == "discard":
            r = t.discard(args[0])
        elif name == "spop":
            r = t.pop()
        elif name == "supdate":
            t.update(list(args[0]))
            r = MARK
        elif name == "ior":
            t |= list(args[0])
            r = MARK
        elif name == "iand":
            t &= list(args[0])
            r = MARK
        elif name == "isub":
            t -= list(args[0])
            r = MARK
        elif name == "ixor":
            t ^= list(args[0])
            r = MARK
        else:
            raise ValueError(name)
        return ("ret", r)
    except Exception as e:       # the outcome of the call, compared by class
        return ("exc", type(e).__name__)


def contents(t, is_set):
    if is_set:
        return list(t)
    return [(k, v) for k, v in t.items()]


def same_result(a, b):
    if a[0] != b[0]:
        return False
    if a[0] == "exc":
        return a[1] == b[1]
    x, y = a[1], b[1]
    if x is MARK or y is MARK:
        return True
    if isinstance(x, bool) or isinstance(y, bool) or isinstance(x, int) and isinstance(y, int):
        return x == y or (x in (0, 1, True, False, None) and y in (0, 1, True, False, None)
                          and bool(x) == bool(y) and (x is None) == (y is None))
    return x == y


# --------------------------------------------------------------- alphabet
def alphabet(fam, is_set, keys, vals, rich=True, tree=True):
    ops = []
    if is_set:
        for k in keys:
            ops += [("add", k), ("remove", k)]
        if rich:
            for k in keys[:2]:
                ops += [("discard", k), ("contains", k)]
            ops += [("spop",), ("clear",), ("len",), ("bool",),
                    ("supdate", tuple(keys[1:4])), ("ior", tuple(keys[:3])), ("iand", tuple(keys[1:5])),
                    ("isub", tuple(keys[2:4])), ("ixor", tuple(keys[1:4]))]
    else:
        for k in keys:
            ops += [("setitem", k, vals[0]), ("delitem", k)]
        if rich:
            k0, k1 = keys[0], keys[len(keys) // 2]
            ops += [("setitem", k1, vals[1]), ("insert", k0, vals[1]), ("insert", k1, vals[0]),
                    ("setdefault", k1, vals[1]), ("setdefault", keys[-1], vals[0]),
                    ("pop", k0), ("pop", k1, vals[1]), ("popitem",), ("clear",),
                    ("update", ((keys[1], vals[1]), (keys[-2], vals[0]))),
                    ("get", k1), ("get", k0, vals[1]), ("getitem", k1), ("contains", k0),
                    ("has_key", k1), ("len",), ("bool",)]
    if not tree:
        ops = [o for o in ops if o[0] != "insert"]
    return ops


def deep_histories(is_set, keys, vals):
    """Scripted histories that reach 4-level trees at node sizes 2/2 and thin
    them again: fills of 7..len(keys) keys in three orders, followed by (a)
    each single deletion, (b) whole deletion sequences in five orders, each
    followed by re-insertion of the deleted keys."""
    ins = (lambda k: ("add", k)) if is_set else (lambda k: ("setitem", k, vals[0]))
    dele = (lambda k: ("remove", k)) if is_set else (lambda k: ("delitem", k))
    n = len(keys)
    for m in range(7, n + 1):
        ks = keys[:m]
        orders = [ks, ks[::-1], ks[::2] + ks[1::2]]
        for fill in orders:
            base = tuple(ins(k) for k in fill)
            yield base
            for k in ks:
                yield base + (dele(k), ins(k))
            for seq in (ks, ks[::-1], ks[::2] + ks[1::2], ks[1::2] + ks[::2], ks[::3] + ks[1::3] + ks[2::3]):
                yield base + tuple(dele(k) for k in seq) + tuple(ins(k) for k in seq[:3])


def histories(ops_core, ops_all, seed, exhaustive_len, n_random, random_len):
    """Exhaustive histories of the core mutators up to exhaustive_len, then
    seeded random ones over the whole alphabet."""
    for n in range(1, exhaustive_len + 1):
        for h in itertools.product(ops_core, repeat=n):
            yield h
    rng = random.Random(seed)
    for _ in range(n_random):
        ln = rng.randint(random_len // 2, random_len)
        # bias: a fill phase followed by a thinning phase reaches deep trees
        h = []
        adds = [o for o in ops_all if o[0] in ("setitem", "add", "insert")]
        for i in range(ln):
            if i < ln // 2 and rng.random() < 0.7:
                h.append(rng.choice(adds))
            else:
                h.append(rng.choice(ops_all))
        yield tuple(h)


# ------------------------------------------------------- independent walker
class Damage(Exception):
    pass


def walk(t, is_set, leaf_max=None, internal_max=None):
    """Independent well-formedness walk over __getstate__/_firstbucket/_next
    (wf_node I1-I9 of DESIGN 5.3).  Returns (contents, n_leaves, height).
    Raises Damage."""
    tree_type = type(t)

    def getstate(o):
        return o.__getstate__()

    def leaf_items(b):
        st = getstate(b)
        data = st[0]
        nxt = st[1] if len(st) > 1 else None
        if is_set:
            ks = list(data)
            return ks, [None] * len(ks), nxt
        return list(data[0::2]), list(data[1::2]), nxt

    def skey(k):
        return (0, 0) if k is None else (1, k)

    leaves = []

    def descend(node, lo, hi, depth, is_root):
        st = getstate(node)
        if st is None:
            if not is_root:
                raise Damage("empty interior node below the root")
            return None, 0
        if len(st) == 1:
            # embedded single leaf
            b = node._firstbucket
            if b is None:
                raise Damage("one-leaf tree without _firstbucket")
            check_leaf(b, lo, hi)
            leaves.append(b)
            return b, 1
        children_sep, first = st
        kids = list(children_sep[0::2])
        seps = list(children_sep[1::2])
        if not kids:
            raise Damage("interior node without children")
        if internal_max is not None:
            lim = 2 * internal_max if is_root else internal_max + 0
            if (is_root and len(kids) >= lim) or (not is_root and len(kids) > lim):
                raise Damage("interior node with %d children (max_internal_size %d, root=%s)" %
                             (len(kids), internal_max, is_root))
        for a, b in zip(seps, seps[1:]):
            if not skey(a) < skey(b):
                raise Damage("separators not increasing: %r" % (seps,))
        kinds = set(type(k) is tree_type for k in kids)
        if len(kinds) != 1:
            raise Damage("children of mixed kinds")
        firstleaf = None
        h = 0
        for i, kid in enumerate(kids):
            klo = seps[i - 1] if i > 0 else lo
            khi = seps[i] if i < len(seps) else hi
            if i > 0 and lo is not MARK and skey(klo) < skey(lo):
                raise Damage("separator below the range promised by the ancestors")
            if type(kid) is tree_type:
                f, hh = descend(kid, klo, khi, depth + 1, False)
                if f is None:
                    raise Damage("empty interior child")
            else:
                check_leaf(kid, klo, khi)
                leaves.append(kid)
                f, hh = kid, 1
            if i == 0:
                firstleaf = f
            h = max(h, hh)
        if node._firstbucket is not firstleaf:
            raise Damage("_firstbucket is not the leftmost leaf of the subtree")
        return firstleaf, h + 1

    def check_leaf(b, lo, hi):
        ks, vs, nxt = leaf_items(b)
        if not ks:
            raise Damage("empty leaf in a non-empty tree")
        if leaf_max is not None and len(ks) > leaf_max:
            raise Damage("leaf with %d entries (max_leaf_size %d)" % (len(ks), leaf_max))
        for a, c in zip(ks, ks[1:]):
            if not skey(a) < skey(c):
                raise Damage("leaf keys not strictly increasing: %r" % (ks,))
        if lo is not MARK and skey(ks[0]) < skey(lo):
            raise Damage("key %r below the separator %r of its ancestors" % (ks[0], lo))
        if hi is not MARK and not skey(ks[-1]) < skey(hi):
            raise Damage("key %r not below the separator %r of its ancestors" % (ks[-1], hi))

    first, height = descend(t, MARK, MARK, 0, True)
    out = []
    if first is None:
        if getattr(t, "_firstbucket", None) is not None:
            raise Damage("empty tree with a _firstbucket")
        return out, 0, 0
    # the chain visits exactly the leaves found by descent, in order
    b = t._firstbucket
    chain = []
    seen = set()
    while b is not None:
        if id(b) in seen:
            raise Damage("leaf chain has a cycle")
        seen.add(id(b))
        chain.append(b)
        b = b._next
    if [id(x) for x in chain] != [id(x) for x in leaves]:
        raise Damage("leaf chain (%d leaves) differs from the leaves reachable by descent (%d)" %
                     (len(chain), len(leaves)))
    prev = None
    for b in chain:
        ks, vs, nxt = leaf_items(b)
        for k, v in zip(ks, vs):
            if prev is not None and not skey(prev) < skey(k):
                raise Damage("chain not in key order at %r" % (k,))
            prev = k
            out.append(k if is_set else (k, v))
    return out, len(chain), height


def shape(t, is_set):
    """Canonical shape signature (used to count distinct non-trivial cases)."""
    def rec(st):
        if st is None:
            return ()
        if isinstance(st, tuple):
            return tuple(rec(x) for x in st)
        if hasattr(st, "__getstate__") and type(st).__module__.startswith("BTrees"):
            return ("N", rec(st.__getstate__()))
        return "k"
    return rec(t.__getstate__())


def tier():
    return os.environ.get("VERIF_TIER", "quick")


def seed():
    return int(os.environ.get("VERIF_SEED") or 0)


def fams():
    return [f for f in os.environ.get("VERIF_FAMILIES", "OO").split(",") if f]


# ------------------------------------------- crash-isolated child batches
# (used by iter_rt / alloc_rt: an interpreter crash must become a failure of
# the case that caused it, not the death of the stand-in)
class Progress:
    """Child side: three int64 counters (current case index, evaluations,
    non-trivial cases) in a file-backed shared mapping, updated *before* each
    case runs; the mapping survives a SIGSEGV/abort of the child."""

    def __init__(self, path):
        import mmap
        self.f = open(path, "r+b")
        self.m = mmap.mmap(self.f.fileno(), 24)

    def set(self, idx, evals, nontrivial):
        import struct
        self.m[0:24] = struct.pack("qqq", idx, evals, nontrivial)


def run_batches(module, specs, workers=None, timeout=600, max_restarts=6, env=None):
    """Run `python -m rtc.<module> --child` once per spec, in parallel.  The
    child reads the spec (JSON, with 'start' = first case index and 'progress'
    = path of the Progress file) from stdin and prints one JSON object per
    line, the last one {"done": true, ...}.  A child that dies without the
    'done' line crashed (or hung: timeout) in case Progress.idx: this is
    recorded and a new child resumes at idx + 1 (at most max_restarts times).
    -> list of {"spec", "lines", "crashes": [{"case","rc","stderr","evals","nontrivial"}]}"""
    import concurrent.futures as cf
    import json
    import struct
    import subprocess
    import sys
    import tempfile
    e = dict(os.environ)
    e.setdefault("MALLOC_PERTURB_", "85")    # glibc: freed blocks are overwritten, stale reads become visible
    e.update(env or {})

    def one(spec):
        res = {"spec": spec, "lines": [], "crashes": []}
        start = spec.get("start", 0)
        with tempfile.NamedTemporaryFile(prefix="verif-prog-") as pf:
            for _ in range(max_restarts + 1):
                pf.seek(0)
                pf.write(struct.pack("qqq", -1, 0, 0))
                pf.flush()
                sp = dict(spec, start=start, progress=pf.name)
                p = subprocess.Popen([sys.executable, "-m", "rtc." + module, "--child"], env=e,
                                     stdin=subprocess.PIPE, stdout=subprocess.PIPE, stderr=subprocess.PIPE, text=True)
                try:
                    out, err = p.communicate(json.dumps(sp), timeout=timeout)
                    rc = p.returncode
                except subprocess.TimeoutExpired:
                    p.kill()
                    out, err = p.communicate()
                    rc = "timeout"
                done = False
                for ln in out.splitlines():
                    try:
                        o = json.loads(ln)
                    except ValueError:
                        continue
                    if isinstance(o, dict):
                        res["lines"].append(o)
                        done = done or bool(o.get("done"))
                if done:
                    break
                pf.seek(0)
                idx, ev, nt = struct.unpack("qqq", pf.read(24))
                res["crashes"].append({"case": idx, "rc": rc, "stderr": (err or "")[-600:], "evals": ev, "nontrivial": nt})
                if idx < 0:          # died before the first case: nothing to resume
                    break
                start = idx + 1
        return res

    with cf.ThreadPoolExecutor(max_workers=workers or os.cpu_count() or 4) as ex:
        return list(ex.map(one, specs))


# ------------------------------------------------- slot ownership (C14, C16)
def is_node(x):
    return type(x).__module__.startswith("BTrees") and hasattr(x, "__getstate__")


def slot_counts(roots, objs):
    """How many slots hold each object of `objs` (compared by identity):
    -> list of counts parallel to objs.  `roots` are containers and/or plain
    tuples / lists / dicts held by the caller (e.g. a saved state).  A node's
    slots are read from its __getstate__ (leaf keys and values, interior
    separators; data[0].key is not a slot); each node is visited once, a ghost
    holds nothing.  Occurrences in held tuples / lists count as slots too."""
    cnt = {id(o): 0 for o in objs}
    seen = set()
    alive = []          # visited tuples stay alive during the walk: no id is reused

    def rec(x):
        if isinstance(x, (tuple, list, dict)):
            if id(x) in seen:        # a tuple shared by two holders still holds its items once
                return
            seen.add(id(x))
            alive.append(x)
            for y in (x.items() if isinstance(x, dict) else x):
                rec(y)
        elif id(x) in cnt:
            cnt[id(x)] += 1
        elif is_node(x):
            if id(x) in seen:
                return
            seen.add(id(x))
            if getattr(x, "_p_changed", 0) is None:      # ghost: state released
                return
            st = x.__getstate__()
            if st is not None and len(st) == 1 and hasattr(x, "_firstbucket"):
                # a tree inlines the state of its single oid-less leaf; that
                # leaf may also be the `next` of another leaf: visit it as a node
                rec(x._firstbucket)
            else:
                rec(st)

    rec(roots)
    del alive[:]        # rec refers to itself: without this the visited tuples would live until the next gc
    return [cnt[id(o)] for o in objs]


def run_parallel(worker, jobs):
    """worker(job) for every job, in a pool of forked processes (the modules
    set node sizes on the classes, so every job must set what it needs itself);
    results come back in job order, so the outcome does not depend on timing.
    VERIF_JOBS=1 runs in-process."""
    import concurrent.futures as cf
    import multiprocessing as mp
    n = int(os.environ.get("VERIF_JOBS") or min(16, os.cpu_count() or 1))
    jobs = list(jobs)
    if n <= 1 or len(jobs) <= 1:
        return [worker(j) for j in jobs]
    with cf.ProcessPoolExecutor(max_workers=min(n, len(jobs)), mp_context=mp.get_context("fork")) as ex:
        return list(ex.map(worker, jobs))


_tick_fd = None


def tick():
    """Progress mark of a guarded() call (one per operation started)."""
    if _tick_fd is not None:
        os.write(_tick_fd, b".")


def guarded(fn, *args, timeout=10):
    """fn(*args) in a forked child, so that a crash of the code under test
    (segmentation fault, abort) or an endless loop (SIGALRM after `timeout`
    seconds) becomes an observation instead of killing the stand-in.
    -> ('ok', result) | ('crash', signal number, ticks seen)."""
    import pickle
    import signal
    global _tick_fd
    r, w = os.pipe()
    pid = os.fork()
    if pid == 0:
        os.close(r)
        _tick_fd = w
        signal.signal(signal.SIGALRM, signal.SIG_DFL)
        signal.alarm(timeout)
        try:
            data = pickle.dumps(("ok", fn(*args)))
        except BaseException as e:      # reported to the parent, which re-raises
            data = pickle.dumps(("exc", "%s: %s" % (type(e).__name__, e)))
        data = b"\n" + data
        while data:
            data = data[os.write(w, data):]
        os._exit(0)
    os.close(w)
    chunks = []
    while True:
        c = os.read(r, 1 << 16)
        if not c:
            break
        chunks.append(c)
    os.close(r)
    status = os.waitpid(pid, 0)[1]
    ticks, _, payload = b"".join(chunks).partition(b"\n")
    if os.WIFSIGNALED(status) or not payload:
        return ("crash", os.WTERMSIG(status) if os.WIFSIGNALED(status) else 0, len(ticks))
    res = pickle.loads(payload)
    if res[0] == "exc":
        raise RuntimeError("guarded call failed: " + res[1])
    return res


def guarded_cases(fn, cases, timeout=20, max_restarts=8, stop=None):
    """fn(case, note) for every case, in a forked child that streams one result
    per case back to the parent.  `note(text)` may be called by fn before a
    risky call: the last note of a case that never returned is reported with
    the crash.  A crash of the code under test (signal) or a hang (SIGALRM
    after `timeout` seconds in one case) becomes the outcome of the case that
    was running; a fresh child resumes with the next case (at most
    max_restarts times).  `stop(results_so_far)` -> True ends the run early
    (checked in the parent after each child; in the child via the result of fn:
    a result dict with a true 'stop' key ends that child).
    -> list parallel to `cases` of ('ok', result) | ('crash', signo, last note) | ('skipped',)"""
    import pickle
    import signal
    import struct
    cases = list(cases)
    results = [("skipped",)] * len(cases)
    start, restarts = 0, 0
    while start < len(cases) and restarts <= max_restarts:
        r, w = os.pipe()
        pid = os.fork()
        if pid == 0:
            os.close(r)
            signal.signal(signal.SIGALRM, signal.SIG_DFL)

            def send(obj):
                data = pickle.dumps(obj)
                data = struct.pack("<I", len(data)) + data
                while data:
                    data = data[os.write(w, data):]
            try:
                for i in range(start, len(cases)):
                    signal.alarm(timeout)
                    send(("at", i, None))
                    try:
                        res = fn(cases[i], lambda text, i=i: send(("at", i, text)))
                    except BaseException as e:       # a bug of the stand-in itself: reported, re-raised by the parent
                        import traceback
                        send(("err", i, "%s: %s\n%s" % (type(e).__name__, e, traceback.format_exc())))
                        break
                    send(("res", i, res))
                    if isinstance(res, dict) and res.get("stop"):
                        send(("end", i, None))
                        break
                else:
                    send(("end", len(cases), None))
            finally:
                os._exit(0)       # no interpreter shutdown: damaged containers are never deallocated
        os.close(w)
        chunks = []
        while True:
            c = os.read(r, 1 << 16)
            if not c:
                break
            chunks.append(c)
        os.close(r)
        buf = b"".join(chunks)
        status = os.waitpid(pid, 0)[1]
        cur, note, ended, err = None, None, False, None
        pos = 0
        while len(buf) - pos >= 4:
            n = struct.unpack_from("<I", buf, pos)[0]
            if len(buf) - pos < 4 + n:
                break
            kind, i, payload = pickle.loads(buf[pos + 4:pos + 4 + n])
            pos += 4 + n
            if kind == "at":
                cur, note = i, payload
            elif kind == "res":
                results[i] = ("ok", payload)
                cur = None
            elif kind == "err":
                err = payload
            elif kind == "end":
                ended = True
        if err:
            raise RuntimeError("guarded case failed in the stand-in itself: " + err)
        if ended:
            break
        if cur is None:              # died between cases (or before the first): nothing to blame
            if os.WIFSIGNALED(status):
                raise RuntimeError("guarded child died outside a case (signal %d)" % os.WTERMSIG(status))
            break
        results[cur] = ("crash", os.WTERMSIG(status) if os.WIFSIGNALED(status) else 0, note)
        start = cur + 1
        restarts += 1
        if stop is not None and stop(results):
            break
    return results
