"""C18 - the diagnostic checkers accept every valid tree and detect every corruption."""
from props import _generic as g


def run(ctx):
    fns = g.run_pyvc(ctx, "C18")
    # the C checker reads its children's vectors: only on activated nodes (accepts stored trees with ghosts)
    ctx.cvc(["II"] if ctx.tier == "quick" else ["II", "OO", "fs"], ["T-USE"], functions=["BTree_check_inner"])
    ctx.standin("checkers_rt", families=tuple("OO,II".split(",")))
    return "other", (
        "Engine P: %d targets of BTrees.check / _base under contract (%s). Engine C, T-USE on BTree_check_inner / BTree_check: "
        "every read of a child's len / firstbucket / next happens on an activated node, so _check() accepts stored trees whose "
        "nodes are ghosts. Acceptance of valid trees and rejection of every single corruption of the catalogue (all positions of "
        "2-4 level trees, incl. empty interior nodes and ancestor bounds; stored trees with every ghost pattern) are the bounded "
        "stand-in checkers_rt." % (len(fns), ", ".join(fns)))
