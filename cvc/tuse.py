"""T-USE (C05, first and second sentence; the mechanism behind C10/C11/C18 on
stored containers): the native vectors of a persistent node are only read or
written while the node is not a ghost.

For every function of the translation unit and every access `p->f` where p has
a persistent node type (Bucket*, BTree*, Sized*) and f is one of the fields a
ghost does not have (len, size, keys, values, next, data, firstbucket):

    state[p] != GHOST                                   (T-USE:<fn>:access)

over the real `->state` field, which the PER_USE / PER_USE_OR_RETURN /
PER_UNUSE / PER_ALLOW_DEACTIVATION expansions read and write.  What is known
about `state`:
  * entry: nothing, except for (function, parameter) pairs in REQ - functions
    whose protocol is "the caller has activated this argument" (inferred: they
    access the parameter's vectors and never activate it; closed under passing
    the parameter on).  Every call site of such a function carries the
    obligation that the argument is pinned (T-USE:<fn>:call-<callee>-arg<i>);
    an ENTRY POINT (a function referenced from a method table or type slot, so
    Python may call it on a ghost) that ends up in REQ is itself a violation.
  * `setstate(o)` succeeding makes o up to date; any call that may run Python
    code (or a BTrees function that may, or that writes `state`) can turn
    every object that is NOT pinned (sticky or changed) into a ghost and keeps
    pinned objects pinned - except the callee's own persistent arguments that
    it un-pins itself (it may leave them unpinned).
  * loops are cut at an invariant chosen Houdini-style from the candidates
    "pointer local p is pinned" / "is not a ghost".
Exempt by design (they run on ghosts or on objects being (un)ghostified, and
guard on ->state themselves): see EXEMPT.
"""
import os
import z3

from .cexec import CExec, fresh, INT, Oblig, is_false
from . import capi

GHOST, UPTODATE, CHANGED, STICKY = -1, 0, 1, 2
NODE_PTR = ("Bucket *", "BTree *", "Sized *", "struct Bucket_s *", "struct BTree_s *", "struct Sized_s *")
CONTENT = {"len", "size", "keys", "values", "next", "data", "firstbucket"}

EXEMPT = {
    "_bucket_clear": "clears a node that is being deallocated or ghostified (vectors of a ghost are NULL/0 by construction)",
    "_BTree_clear": "same",
    "bucket_dealloc": "deallocation", "BTree_dealloc": "deallocation",
    "bucket_traverse": "GC traversal; tests ->state itself", "BTree_traverse": "GC traversal; tests ->state itself",
    "bucket_tp_clear": "GC clear", "BTree_tp_clear": "GC clear",
    "bucket__p_deactivate": "the ghostification itself", "BTree__p_deactivate": "the ghostification itself",
    "_bucket_setstate": "loads the state of a node that is being un-ghostified", "_set_setstate": "same",
    "_BTree_setstate": "same", "bucket_setstate": "same", "set_setstate": "same", "BTree_setstate": "same",
    "TreeSet_setstate": "same",
    "_bucket__p_resolveConflict": "operates only on nodes it constructs itself from the three states (no jar: cannot be ghosts)",
}


# A4: in these translation units PyObject_Call* is only applied to the node types
# themselves (and the user-supplied factory of a tree's own class): the result is
# a newly constructed node that belongs to no jar yet
CONSTRUCTS = {"PyObject_CallObject", "PyObject_CallNoArgs", "PyObject_CallFunctionObjArgs", "PyObject_Call"}


def strip(n):
    while n.get("kind") in ("ParenExpr", "ImplicitCastExpr", "CStyleCastExpr"):
        n = n["inner"][0]
    return n


def node_type(n):
    t = n.get("type", {})
    return (t.get("qualType") in NODE_PTR) or (t.get("desugaredQualType") in NODE_PTR)


def facts(tu):
    """-> (REQ: set of (fname, param index), activates, accesses) by a syntactic pre-pass."""
    if hasattr(tu, "_tuse_facts"):
        return tu._tuse_facts
    params, act, acc, passes, early = {}, {}, {}, {}, {}
    for fn, node in tu.functions.items():
        ps = [p for p in node.get("inner", []) if p["kind"] == "ParmVarDecl"]
        pid = {p["id"]: i for i, p in enumerate(ps)}
        params[fn] = ps
        act[fn], acc[fn], passes[fn] = set(), set(), []
        first_act, first_acc = {}, {}
        order = 0
        todo = [node]
        while todo:
            n = todo.pop()
            order += 1
            k = n.get("kind")
            if k == "BinaryOperator" and n.get("opcode") == "=":
                t = strip(n["inner"][0])
                if t.get("kind") == "MemberExpr" and t.get("name") == "state":
                    b = strip(t["inner"][0])
                    if b.get("kind") == "DeclRefExpr" and b["referencedDecl"]["id"] in pid:
                        act[fn].add(pid[b["referencedDecl"]["id"]])
                        first_act.setdefault(pid[b["referencedDecl"]["id"]], order)
            if k == "MemberExpr" and n.get("isArrow") and n.get("name") in CONTENT and node_type(n["inner"][0]):
                b = strip(n["inner"][0])
                if b.get("kind") == "DeclRefExpr" and b["referencedDecl"]["id"] in pid:
                    acc[fn].add(pid[b["referencedDecl"]["id"]])
                    first_acc.setdefault(pid[b["referencedDecl"]["id"]], order)
            if k == "CallExpr":
                c = strip(n["inner"][0])
                if c.get("kind") == "DeclRefExpr":
                    for j, a in enumerate(n["inner"][1:]):
                        b = strip(a)
                        if b.get("kind") == "DeclRefExpr" and b["referencedDecl"]["id"] in pid:
                            passes[fn].append((pid[b["referencedDecl"]["id"]], c["referencedDecl"].get("name"), j))
            todo.extend(reversed(n.get("inner", [])))     # pre-order, source order
        early[fn] = {i for i in acc[fn] if i not in first_act or first_acc[i] < first_act[i]}
    req = set()
    for fn in tu.functions:
        if fn in EXEMPT:
            continue
        for i in early[fn]:
            req.add((fn, i))
    changed = True
    while changed:
        changed = False
        for fn in tu.functions:
            if fn in EXEMPT:
                continue
            for i, callee, j in passes[fn]:
                if (callee, j) in req and i not in act[fn] and (fn, i) not in req:
                    req.add((fn, i))
                    changed = True
    # parameters a function may leave un-pinned: it (or a callee it hands the parameter to)
    # runs PER_UNUSE / PER_ALLOW_DEACTIVATION on it
    unpins = {fn: set(act[fn]) for fn in tu.functions}
    changed = True
    while changed:
        changed = False
        for fn in tu.functions:
            for i, callee, j in passes[fn]:
                if callee in unpins and j in unpins[callee] and i not in unpins[fn]:
                    unpins[fn].add(i)
                    changed = True
    tu._tuse_syn_unpins = unpins
    tu._tuse_facts = (req, getattr(tu, "_tuse_unpins", unpins), acc, params)
    return tu._tuse_facts


class TUse(CExec):
    family = "T-USE"

    @classmethod
    def applies(cls, tu, fn):
        if fn in EXEMPT:
            return False
        # anything that mentions a vector of a node, or calls a function with a REQ parameter
        req = facts(tu)[0]
        todo = [tu.functions[fn]]
        while todo:
            n = todo.pop()
            if n.get("kind") == "MemberExpr" and n.get("isArrow") and n.get("name") in CONTENT and node_type(n["inner"][0]):
                return True
            if n.get("kind") == "CallExpr":
                c = strip(n["inner"][0])
                if c.get("kind") == "DeclRefExpr" and any(r[0] == c["referencedDecl"].get("name") for r in req):
                    return True
            todo.extend(n.get("inner", []))
        return False

    def summary(self):
        if not hasattr(self.tu, "_summary"):
            from . import summary
            self.tu._summary = summary.summarize(self.tu)
        return self.tu._summary

    # ---- predicates over the state array
    @staticmethod
    def pinned(arr, o):
        v = z3.Select(arr, o)
        return z3.Or(v == STICKY, v == CHANGED)

    @staticmethod
    def active(arr, o):
        return z3.Select(arr, o) != GHOST

    def in_range(self, arr):
        self.base_arrays.append(arr)

    def instances(self, ptr):
        """The universally quantified facts about `state` arrays (value range; a call
        that may run Python keeps pinned objects pinned), instantiated at the one
        pointer an obligation talks about - which keeps every query quantifier free."""
        out = []
        for arr in self.base_arrays:
            out.append(z3.And(z3.Select(arr, ptr) >= GHOST, z3.Select(arr, ptr) <= STICKY))
        for old, new, unp, python in self.trans:
            notarg = z3.And(*[ptr != a for a in unp]) if unp else z3.BoolVal(True)
            if python:
                # Python code may have run: what is pinned stays pinned, anything else may be a ghost now
                out.append(z3.Implies(z3.And(self.pinned(old, ptr), notarg), self.pinned(new, ptr)))
            else:
                # no Python code ran: only the callee's own PER_USE/PER_UNUSE changed anything
                out.append(z3.Implies(notarg, z3.Select(new, ptr) == z3.Select(old, ptr)))
            # an argument the callee may un-pin comes back activated if it went in pinned
            out.append(z3.Implies(self.pinned(old, ptr), self.active(new, ptr)))
        return out

    def oblige_at(self, st, ptr, name, goal, detail=""):
        self.obls.append(Oblig(name, [st.guard] + list(self.assumptions) + self.instances(ptr), goal, detail))

    def on_entry(self, st):
        self.base_arrays, self.trans = [], []
        st.ghost["nojar"] = z3.Const("NOJAR0", z3.ArraySort(INT, z3.BoolSort()))
        ps = facts(self.tu)[3][self.fname]
        self.p0 = ps[0]["id"] if ps and node_type(ps[0]) else None
        self.p0_entry = z3.Int("arg_" + ps[0].get("name", "p")) if self.p0 is not None else None
        self.p0_type = ps[0].get("type", {}).get("qualType", "") if ps else ""
        # C types: a Bucket* and a BTree* parameter never point to the same object
        def base(p):
            t = p.get("type", {}).get("qualType", "")
            return "Bucket" if "Bucket" in t else "BTree" if "BTree" in t else None
        for i, a in enumerate(ps):
            for b in ps[i + 1:]:
                if base(a) and base(b) and base(a) != base(b):
                    self.assumptions.append(z3.Or(st.vars[a["id"]] == 0, st.vars[a["id"]] != st.vars[b["id"]]))
        self.loop_no = {}
        st.heap["state"] = z3.Const("H0_state", z3.ArraySort(INT, INT))
        self.in_range(st.heap["state"])
        req, act, acc, params = facts(self.tu)
        self.req = req
        kinds = getattr(self.tu, "entry_kinds", {}).get(self.fname)
        for i, p in enumerate(params[self.fname]):
            if kinds:
                # an entry point: Python may call it on any object.  A named method is reached
                # through attribute lookup, which activates (but does not pin) the object; a type
                # slot (operators, len(), indexing, iteration) is entered on a possible ghost.
                if i == 0 and kinds == {"method"} and node_type(p) and not self.keepmode:
                    self.assumptions.append(self.active(st.heap["state"], st.vars[p["id"]]))
                continue
            if (self.fname, i) in req:
                self.assumptions.append(self.pinned(st.heap["state"], st.vars[p["id"]]))
                self.assumptions.append(st.vars[p["id"]] != 0)
        self.cands = getattr(self, "cands", None)

    # ---- accesses
    def lvalue(self, n, st):
        lv = super().lvalue(n, st)          # (evaluates the base expression, possibly nested accesses)
        if n.get("kind") == "MemberExpr" and n.get("isArrow"):
            # consumed by the on_field_read / on_field_write that immediately follows
            self._base_is_node = node_type(n["inner"][0])
            self._acc_node = n
        elif n.get("kind") == "MemberExpr":
            self._base_is_node = False
        return lv

    def _access(self, st, field, ptr, what):
        if field in CONTENT and getattr(self, "_base_is_node", False) and not getattr(self, "_trial", False):
            from .cast import line_of
            self.oblige_at(st, ptr, "T-USE:%s:%s-%s@L%s" % (self.fname, what, field, line_of(self._acc_node)),
                        z3.Or(ptr == 0, z3.Select(st.ghost["nojar"], ptr), self.active(st.heap["state"], ptr)),
                        "access to ->%s of a node that may be a ghost here" % field)
        self._base_is_node = False

    def on_field_read(self, st, field, ptr):
        self._access(st, field, ptr, "read")
        if field in ("child", "next", "firstbucket") and self.p0 is not None and self.p0 in st.vars:
            # A6b (acyclicity, I9): a node is never its own child, first bucket or successor
            v = self.hread(st, field, ptr)
            self.assumptions.append(z3.Implies(st.guard, z3.Or(v == 0, z3.And(v != st.vars[self.p0], v != self.p0_entry))))

    def on_field_write(self, st, field, ptr, val):
        if field != "state":
            self._access(st, field, ptr, "write")

    # ---- calls
    def fresh_node(self, st, r):
        """r was just constructed: no jar (cannot be a ghost) and distinct from every node in scope."""
        st.ghost["nojar"] = z3.Store(st.ghost["nojar"], r, z3.BoolVal(True))
        others = [st.vars[v] for v, _ in self.pointer_locals() if v in st.vars]
        for p in facts(self.tu)[3][self.fname]:
            if node_type(p):
                others.append(z3.Int("arg_" + p.get("name", "p")))
        if others:
            self.assumptions.append(z3.Implies(st.guard, z3.Or(r == 0, z3.And(*[r != o for o in others]))))

    def transition(self, st, unpinned_args=(), python=True):
        """A call during which Python code may run / that manages pins itself."""
        old = st.heap["state"]
        new = fresh("state", z3.ArraySort(INT, INT))
        self.trans.append((old, new, list(unpinned_args), python))
        self.in_range(new)
        st.heap["state"] = new

    def on_call(self, name, args, n, st):
        if name in capi.PURE or name == "->accessed":
            return fresh("ret_" + name.strip("->"))
        if name == "->setstate":
            r = fresh("ret_setstate")
            self.havoc_heap(st, "setstate", keep=("state",))
            self.transition(st)
            o = args[0]
            cur = z3.Select(st.heap["state"], o)
            st.heap["state"] = z3.Store(st.heap["state"], o, z3.If(r >= 0, z3.IntVal(UPTODATE), cur))
            return r
        if name in self.tu.functions:
            req, act, acc, params = facts(self.tu)
            for i, a in enumerate(args):
                if (name, i) in req and not getattr(self, "_trial", False):
                    self.oblige_at(st, a, "T-USE:%s:call-%s-arg%d-pinned" % (self.fname, name, i),
                                z3.Or(a == 0, z3.Select(st.ghost["nojar"], a), self.pinned(st.heap["state"], a)),
                                "%s accesses the vectors of its argument %d without activating it" % (name, i))
            py, wr = self.summary()
            unp = [a for i, a in enumerate(args) if i in act[name]]
            if not py[name]:
                for f in list(st.heap):
                    if f == "state":
                        continue
                    if f in wr[name] or (f.startswith("*") and "*" in wr[name]):
                        st.heap[f] = fresh("H_" + f.replace("*", "deref_").replace(".", "_"), z3.ArraySort(INT, INT))
                if "state" in wr[name]:
                    self.transition(st, unp, python=False)
                return fresh("ret_" + name)
            self.havoc_heap(st, "call " + name, keep=("state",))
            self.transition(st, unp)
            r = fresh("ret_" + name)
            rt = self.tu.functions[name].get("type", {}).get("qualType", "")
            if rt.startswith("Bucket *") and self.p0 is not None and self.p0_type.startswith(("BTree", "struct BTree")):
                # C types: a leaf (Bucket) is never the interior node (BTree) that was passed in
                self.assumptions.append(z3.Implies(st.guard, z3.Or(r == 0, z3.And(r != self.p0_entry, r != st.vars[self.p0]))))
            if name in ("BTree_newBucket",):
                self.fresh_node(st, r)
            return r
        self.havoc_heap(st, "call " + str(name), keep=("state",))
        self.transition(st)
        r = fresh("ret_" + str(name).strip("->").replace("?", "fp"))
        if name in CONSTRUCTS:
            self.fresh_node(st, r)
        return r

    CURSOR_FIELDS = ("currentbucket", "currentoffset", "pseudoindex", "lastbucket", "last", "first", "kind")

    def havoc_heap(self, st, why, keep=()):
        # assumption: Python code run from within an operation does not re-enter the
        # lazy sequence / iterator object the operation is working on
        # A4b: ... nor does it modify the nodes the operation works on: the vectors of a
        # node are not havocked by a call (the analysis is about `state`; a node that may
        # have been ghostified meanwhile is caught by the obligation on `state` itself)
        super().havoc_heap(st, why, keep=tuple(keep) + self.CURSOR_FIELDS + tuple(CONTENT) + ("child", "key"))

    # ---- loops: invariant = conjunction of the chosen candidates
    def candidates(self):
        out = []
        for vid, nm in self.pointer_locals():
            out.append(("pinned", vid, nm))
            out.append(("active", vid, nm))
        if self.keepmode:
            for i, p in enumerate(facts(self.tu)[3][self.fname]):
                if node_type(p):
                    out.append(("kept", "entry:" + p.get("name", "p"), "entry-" + p.get("name", "p")))
        # descendants / successors held in locals are never the node that was passed in (I9)
        ps0 = facts(self.tu)[3][self.fname]
        if ps0 and node_type(ps0[0]):
            pids = {p["id"] for p in ps0}
            for vid, nm in self.pointer_locals():
                if vid not in pids:
                    out.append(("distinct", (vid, ps0[0].get("name", "p")), nm))
        # a parameter that a descent loop re-points (self = child), with a flag that records it
        for i, p in enumerate(facts(self.tu)[3][self.fname]):
            if node_type(p):
                for g, gn in self.flag_locals():
                    out.append(("rebound", (p["id"], g, p.get("name", "p")), "%s/%s" % (p.get("name", "p"), gn)))
        return out

    def cand_formula(self, c, st):
        kind, vid, nm = c[:3]
        if kind == "kept":
            a = z3.Int("arg_" + vid.split(":", 1)[1])
            return z3.Implies(self.pinned(self.entry.heap["state"], a), self.pinned(st.heap["state"], a))
        if kind == "distinct":
            v_, pname = vid
            if v_ not in st.vars:
                return None
            return z3.Or(st.vars[v_] == 0, st.vars[v_] != z3.Int("arg_" + pname))
        if kind == "rebound":
            pid_, g, pname = vid
            if pid_ not in st.vars or g not in st.vars:
                return None
            a = z3.Int("arg_" + pname)
            return z3.If(st.vars[g] != 0, st.vars[pid_] != a, st.vars[pid_] == a)
        if vid not in st.vars:
            return None
        p = st.vars[vid]
        f = self.pinned(st.heap["state"], p) if kind == "pinned" else self.active(st.heap["state"], p)
        return z3.Or(p == 0, z3.Select(st.ghost["nojar"], p), f)

    def loop_id(self, n):
        return self.loop_no.setdefault(n["id"], len(self.loop_no))

    def loop_cands(self, n):
        li = self.loop_id(n)
        return [c for c in (self.cands or []) if c[3] == li]

    def assume_invariant(self, n, entry, head):
        new = fresh("state", z3.ArraySort(INT, INT))
        self.in_range(new)
        head.heap["state"] = new
        for c in self.loop_cands(n):
            f = self.cand_formula(c, head)
            if f is not None:
                self.assumptions.append(z3.Implies(head.guard, f))

    def check_invariant(self, n, phase, entry, st):
        if getattr(self, "_trial", False):
            return
        for c in self.loop_cands(n):
            f = self.cand_formula(c, st)
            if f is not None:
                at = z3.Int("arg_" + c[1].split(":", 1)[1]) if c[0] == "kept" else \
                    z3.Int("arg_" + c[1][2]) if c[0] == "rebound" else \
                    z3.Int("arg_" + c[1][1]) if c[0] == "distinct" else st.vars[c[1]]
                self.oblige_at(st, at, "T-USE:%s:loop-%s[%s %s #%d]" % (self.fname, phase, c[0], c[2], c[3]), f)

    keepmode = False

    def on_return(self, st, v):
        if not self.keepmode:
            return
        # summary clause: a node argument that was pinned on entry is still pinned on return
        req, unp, acc, params = facts(self.tu)
        for i, p in enumerate(params[self.fname]):
            if node_type(p):
                a = z3.Int("arg_" + p.get("name", "p"))
                self.oblige_at(st, a, "T-USE:%s:keeps-arg%d-pinned" % (self.fname, i),
                               z3.Implies(self.pinned(self.entry.heap["state"], a), self.pinned(st.heap["state"], a)))


_TUS = {}       # family -> TU, filled by cvc.run.verify before the pools fork


def _mk(tu, fname, keepmode):
    ex = TUse(tu, fname)
    ex.keepmode = keepmode
    return ex


def keeps(tu, fname, timeout=4000):
    """-> indices of the node parameters that `fname` may leave un-pinned (under the
    current summaries of its callees)."""
    ex = houdini(tu, fname, timeout, keepmode=True)
    bad = set()
    for o in ex.obls:
        if ":keeps-arg" not in o.name:
            continue
        s = z3.Solver()
        s.set("timeout", timeout)
        s.add(*o.hyps)
        s.add(z3.Not(o.goal))
        if s.check() != z3.unsat:
            bad.add(int(o.name.split(":keeps-arg")[1].split("-")[0]))
    return bad


def _keep_work(args):
    fam, fname = args
    from .cexec import Unsupported
    tu = _TUS[fam]
    try:
        return fname, sorted(keeps(tu, fname)), None
    except Unsupported as e:
        return fname, None, str(e)
    except Exception as e:       # a function the executor cannot handle: assume the worst
        return fname, None, "%s: %s" % (type(e).__name__, e)


def prepare(fam, jobs=16):
    """Summary `unpins` of a translation unit as a fixpoint of per-function proofs:
    start from "no function un-pins its node arguments", prove each function's
    keeps-pinned clause under the current summaries, move the failing (function,
    parameter) pairs into the summary, repeat until stable."""
    import multiprocessing
    tu = _TUS[fam]
    if hasattr(tu, "_tuse_unpins"):
        return
    facts(tu)
    # the summary is a deterministic function of the sources and of this analysis: memoised
    # under /verif/.cache by content hash (recomputed whenever anything changed)
    import hashlib, glob, json
    from .cast import SRC, REPO
    hsh = hashlib.sha256()
    here = os.path.dirname(os.path.abspath(__file__))
    for f in sorted(glob.glob(os.path.join(SRC, "*.[ch]")) + glob.glob(os.path.join(REPO, "include", "persistent", "persistent", "*.h"))
                    + [os.path.join(here, x) for x in ("tuse.py", "cexec.py", "summary.py", "capi.py", "cast.py")]):
        with open(f, "rb") as fh:
            hsh.update(f.encode() + b"\0" + fh.read())
    cdir = os.path.join(os.path.dirname(here), ".cache")
    cfile = os.path.join(cdir, "tuse-unpins-%s-%s.json" % (fam, hsh.hexdigest()[:24]))
    if os.path.exists(cfile):
        try:
            with open(cfile) as fh:
                d = json.load(fh)
            tu._tuse_unpins = {f: set(d.get(f, [])) for f in tu.functions}
            if hasattr(tu, "_tuse_facts"):
                del tu._tuse_facts
            facts(tu)
            return
        except (OSError, ValueError):
            pass
    params = tu._tuse_facts[3]
    fns = [f for f in sorted(tu.functions) if f not in EXEMPT and any(node_type(p) for p in params[f])]
    syn = tu._tuse_syn_unpins
    unp = {f: set() for f in tu.functions}
    for f in EXEMPT:
        if f in unp:
            unp[f] = set(syn.get(f, ()))
    ctx = multiprocessing.get_context("fork")
    from . import summary as _summary
    calls = {f: _summary.direct(tu.functions[f], tu.fieldmap)[1] for f in fns}
    todo = list(fns)
    for rnd in range(8):
        tu._tuse_unpins = unp
        if hasattr(tu, "_tuse_facts"):
            del tu._tuse_facts
        facts(tu)
        # longest first, so that the slow ones do not end up alone at the end of the pool
        todo.sort(key=lambda f: -len(str(tu.functions[f].get("range", ""))))
        with ctx.Pool(jobs) as pool:
            res = pool.map(_keep_work, [(fam, f) for f in todo], chunksize=1)
        changed = False
        moved = set()
        for f, bad, err in res:
            new = set(range(len(params[f]))) & {i for i, p in enumerate(params[f]) if node_type(p)} if bad is None else set(bad)
            if not new <= unp[f]:
                if os.environ.get("TUSE_DEBUG"):
                    print("round", rnd, f, "unpins", sorted(new - unp[f]), "error:", err)
                unp[f] = unp[f] | new
                changed = True
                moved.add(f)
        if not changed:
            break
        # only the callers of a function whose summary changed need to be proved again
        todo = [f for f in fns if calls[f] & moved]
    tu._tuse_unpins = unp
    if hasattr(tu, "_tuse_facts"):
        del tu._tuse_facts
    facts(tu)
    try:
        os.makedirs(cdir, exist_ok=True)
        with open(cfile + ".tmp%d" % os.getpid(), "w") as fh:
            json.dump({f: sorted(v) for f, v in unp.items() if v}, fh)
        os.replace(cfile + ".tmp%d" % os.getpid(), cfile)
    except OSError:
        pass


def houdini(tu, fname, timeout, keepmode=False):
    """Greatest set of loop-invariant candidates that is inductive; then the
    access/call obligations are checked under it.  -> executor"""
    probe = _mk(tu, fname, keepmode)
    nloops = 0
    todo = [tu.functions[fname]]
    while todo:
        x = todo.pop()
        if x.get("kind") in ("ForStmt", "WhileStmt", "DoStmt"):
            nloops += 1
        todo.extend(x.get("inner", []))
    cands = [c + (li,) for c in probe.candidates() for li in range(nloops)]
    for _ in range(len(cands) + 2):
        ex = _mk(tu, fname, keepmode)
        ex.cands = list(cands)
        ex.run()
        bad = set()
        for o in ex.obls:
            if ":loop-" not in o.name:
                continue
            s = z3.Solver()
            s.set("timeout", min(timeout, 4000))
            s.add(*o.hyps)
            s.add(z3.Not(o.goal))
            if s.check() != z3.unsat:
                bad.add(o.name.split("[", 1)[1].rstrip("]"))
        drop = [c for c in cands if "%s %s #%d" % (c[0], c[2], c[3]) in bad]
        if not drop:
            ex.invariant_choice = ["loop%d:%s(%s)" % (c[3], c[0], c[2]) for c in cands]
            return ex
        cands = [c for c in cands if c not in drop]
    ex = _mk(tu, fname, keepmode)
    ex.cands = []
    ex.run()
    return ex


ANALYSIS = {"T-USE": TUse}
