"""Contracts for BTrees.check (C18): the value checker records an error exactly
when some key violates its lower bound, its upper bound or the order."""
from pyvc.spec import Contract

CONTRACTS = []


def C(*a, **k):
    c = Contract(*a, **k)
    CONTRACTS.append(c)
    return c


# `complain` formats a message and appends it to self.errors; abstracted as
# "the number of recorded errors grows by one" (assumed, listed as trusted)
C("Checker.complain", cls="Checker", params={"msg": "str", "obj": "any", "path": "any"}, returns="none",
  ensures={"one_more": "self.nerrors == old(self.nerrors) + 1"}, modifies=["self.nerrors"], trusted=True,
  ghost={"no_compare": True})

OK_J = ("((lo is None) or lo <= keys[j]) and ((hi is None) or keys[j] < hi) and "
        "(j + 1 >= len(keys) or keys[j] < keys[j + 1])")
C("Checker.check_sorted", cls="Checker",
  params={"obj": "any", "path": "any", "keys": "list:K", "lo": ["none", "K"], "hi": ["none", "K"]},
  returns="none",
  ensures={
      "silent_if_all_ok": "implies(forall(0, len(keys), lambda j: " + OK_J + "), self.nerrors == old(self.nerrors))",
      "complains_if_any_bad": "implies(exists(0, len(keys), lambda j: not (" + OK_J + ")), self.nerrors > old(self.nerrors))",
  },
  modifies=["self.nerrors"],
  loops=[{
      "inv": {
          "counter": "i == x__next and n == len(keys) and 0 <= i and i <= n",
          "monotone": "self.nerrors >= old(self.nerrors)",
          "silent_so_far": "implies(forall(0, i, lambda j: " + OK_J + "), self.nerrors == old(self.nerrors))",
          "complained_so_far": "implies(exists(0, i, lambda j: not (" + OK_J + ")), self.nerrors > old(self.nerrors))",
      },
      "modifies": ["self.nerrors"],
  }],
  props=["C18"])
