"""F-CONV (C13, C09): the expansions of COPY_KEY_FROM_ARG / COPY_VALUE_FROM_ARG
(and longlong_convert / ulonglong_convert, inlined) convert exactly the
representable Python integers.

A *conversion site* is found syntactically in the macro-expanded AST:
  if (PyLong_Check(ARG)) { long vcopy = PyLong_AsLong(ARG); ... TARGET = vcopy; }
  else { PyErr_SetString(TypeError, ..); (STATUS)=0; (TARGET)=0; }
or
  if (!longlong_convert(ARG, &TARGET)) { (STATUS)=0; (TARGET)=0; }
and the obligations are stated over the ghost description of the Python
argument (is it an int; its mathematical value), taken from the statement of
C13 -- representable(T, x) -- not from the code:

  ok  :=  isint(ARG) and MIN(T) <= val(ARG) <= MAX(T)
  status' == (ok ? status : 0)          accepted exactly the representable ints
  ok  ==> TARGET' == val(ARG)            never truncated / wrapped / replaced
  !ok ==> a TypeError is pending         (not OverflowError, not nothing)
  ok  ==> no exception is pending

Casts are bit-precise (wrap to the declared width and signedness); the API
stubs below are the trusted contracts of PyLong_AsLong,
PyLong_AsLongLongAndOverflow, PyLong_AsUnsignedLongLong, PyErr_*.
The conversion sites are loop-free, so each site's proof is complete.
"""
import z3

from .cexec import CExec, fresh, INT, BOOL, Oblig

ERR_NONE, ERR_TYPE, ERR_OVERFLOW, ERR_OTHER = 0, 1, 2, 3
TYPEOF = z3.Function("Py_TYPE", INT, INT)
IS_INT_T = z3.Function("is_long_subclass", INT, BOOL)
IS_BYTES_T = z3.Function("is_bytes_subclass", INT, BOOL)
PYVAL = z3.Function("pyint_value", INT, INT)
# floating values are opaque handles; the facts about binary32 rounding that
# the obligations need are proved separately with z3's FP theory (fp_facts)
IS_FLOAT_T = z3.Function("is_float_subclass", INT, BOOL)
DVAL = z3.Function("pyfloat_value", INT, INT)         # handle of the C double
F32 = z3.Function("round_to_float32", INT, INT)       # (float)d
I2F = z3.Function("int_to_float", INT, INT)           # (float)i / (double)i
FINITE = z3.Function("is_finite", INT, BOOL)

RANGES = {
    "int": (-2**31, 2**31 - 1), "unsigned int": (0, 2**32 - 1),
    "long long": (-2**63, 2**63 - 1), "unsigned long long": (0, 2**64 - 1),
    "long": (-2**63, 2**63 - 1), "unsigned long": (0, 2**64 - 1),
}
WIDTH = {"int": (32, True), "unsigned int": (32, False), "long": (64, True), "long long": (64, True),
         "unsigned long": (64, False), "unsigned long long": (64, False), "Py_ssize_t": (64, True),
         "size_t": (64, False), "char": (8, True), "unsigned char": (8, False), "short": (16, True),
         "unsigned short": (16, False), "signed char": (8, True), "ssize_t": (64, True)}


def wrap(v, bits, signed):
    m = 2 ** bits
    if signed:
        return (v + m // 2) % m - m // 2
    return v % m


def unwrap(n):
    while n.get("kind") in ("ParenExpr", "ImplicitCastExpr", "CStyleCastExpr"):
        n = n["inner"][0]
    return n


def find_calls(n, name):
    out, todo = [], [n]
    while todo:
        x = todo.pop()
        if x.get("kind") == "CallExpr":
            c = unwrap(x["inner"][0])
            if c.get("kind") == "DeclRefExpr" and c["referencedDecl"].get("name") == name:
                out.append(x)
        todo.extend(x.get("inner", []))
    return out


def zero_assignments(n):
    """[(lvalue node)] of `X = 0` statements, in source order."""
    out = []

    def rec(x):
        if x.get("kind") == "BinaryOperator" and x.get("opcode") == "=":
            rhs = unwrap(x["inner"][1])
            if rhs.get("kind") == "IntegerLiteral" and rhs.get("value") == "0":
                out.append(x["inner"][0])
        for c in x.get("inner", []):
            rec(c)
    rec(n)
    return out


class FConv(CExec):
    family = "F-CONV"
    inline_functions = ("longlong_convert", "ulonglong_convert", "longlong_handle_overflow")

    @classmethod
    def applies(cls, tu, fname):
        if fname in cls.inline_functions:
            return False
        return bool(cls.sites_of(tu.functions[fname]))

    @staticmethod
    def sites_of(fn):
        """Conversion sites: [(IfStmt node, ARG node, STATUS lvalue node, TARGET lvalue node, what)]"""
        sites, todo = [], [fn]
        while todo:
            n = todo.pop()
            if n.get("kind") == "IfStmt":
                cond = n["inner"][0]
                # 64-bit: if (!xlonglong_convert(ARG, &TARGET)) { STATUS=0; TARGET=0; }
                calls = find_calls(cond, "longlong_convert") + find_calls(cond, "ulonglong_convert")
                if calls and len(n["inner"]) >= 2:
                    z = zero_assignments(n["inner"][1])
                    if len(z) >= 2:
                        sites.append((n, calls[0]["inner"][1], z[0], z[1], "int"))
                        continue
                # 32-bit: if (PyLong_Check(ARG)) {...} else { SetString; STATUS=0; TARGET=0; }
                hf = find_calls(cond, "PyType_HasFeature")
                if hf and len(n["inner"]) == 3 and not find_calls(cond, "PyObject_TypeCheck"):
                    z = zero_assignments(n["inner"][2])
                    ty = find_calls(hf[0], "Py_TYPE") or find_calls(hf[0], "_Py_TYPE")
                    if len(z) >= 2 and ty:
                        sites.append((n, ty[0]["inner"][1], z[0], z[1], "int"))
                        continue
                # float: if (PyFloat_Check(ARG)) T=(float)PyFloat_AsDouble(ARG);
                #        else if (PyLong_Check(ARG)) T=(float)PyLong_AsLong(ARG); else {TypeError; STATUS=0; TARGET=0;}
                tc = find_calls(cond, "PyObject_TypeCheck")
                if tc and "PyFloat_Type" in str(tc[0]) and len(n["inner"]) == 3 and \
                        find_calls(n["inner"][1], "PyFloat_AsDouble"):
                    z = zero_assignments(n["inner"][2])
                    if len(z) >= 2:
                        sites.append((n, tc[0]["inner"][1], z[-2], z[-1], "float"))
                        continue
            todo.extend(n.get("inner", []))
        return sites

    def run(self):
        self.sites = {id(s[0]): s for s in self.sites_of(self.fn)}
        self.nsites = 0
        super().run()
        if self.nsites < len(self.sites):
            # a site inside dead code would silently drop obligations
            raise RuntimeError("only %d of %d conversion sites were reached" % (self.nsites, len(self.sites)))

    def on_entry(self, st):
        st.ghost["err"] = z3.IntVal(ERR_NONE)

    # ---- bit-precise casts
    def cast(self, n, v, ck):
        if ck == "NullToPointer":
            return z3.IntVal(0)
        if ck in ("IntegralToBoolean", "PointerToBoolean"):
            return self.b2i(v != 0)
        if ck == "FloatingCast":
            t = n.get("type", {}).get("qualType", "")
            return F32(v) if t == "float" else v          # double <- float is exact
        if ck == "IntegralToFloating":
            return I2F(v)
        if ck == "IntegralCast":
            t = n.get("type", {}).get("desugaredQualType") or n.get("type", {}).get("qualType", "")
            t = t.replace("const ", "").strip()
            if t in WIDTH:
                return wrap(v, *WIDTH[t])
            self.havocs.append("cast to " + t)
        return v

    # ---- API stubs (trusted contracts, A4)
    def exc_code(self, a):
        s = str(a)
        if "PyExc_TypeError" in s:
            return ERR_TYPE
        if "PyExc_OverflowError" in s:
            return ERR_OVERFLOW
        return ERR_OTHER

    def on_call(self, name, args, n, st):
        err = st.ghost["err"]
        if name in ("Py_TYPE", "_Py_TYPE"):
            return TYPEOF(args[0])
        if name == "PyType_HasFeature":
            f = z3.simplify(args[1])
            if z3.is_int_value(f) and f.as_long() == 1 << 24:
                return self.b2i(IS_INT_T(args[0]))
            if z3.is_int_value(f) and f.as_long() == 1 << 27:
                return self.b2i(IS_BYTES_T(args[0]))
            return fresh("feature")
        if name == "PyErr_Occurred":
            return err
        if name == "PyErr_ExceptionMatches":
            return self.b2i(err == self.exc_code(args[0]))
        if name == "PyErr_Clear":
            st.ghost["err"] = z3.IntVal(ERR_NONE)
            return z3.IntVal(0)
        if name in ("PyErr_SetString", "PyErr_SetObject", "PyErr_Format"):
            st.ghost["err"] = z3.IntVal(self.exc_code(args[0]))
            return z3.IntVal(0)
        if name == "PyObject_TypeCheck":
            if "PyFloat_Type" in str(args[1]):
                return self.b2i(IS_FLOAT_T(TYPEOF(args[0])))
            return fresh("typecheck")
        if name == "PyFloat_AsDouble":
            return DVAL(args[0])
        isint = IS_INT_T(TYPEOF(args[0])) if args else None
        if name == "PyLong_AsLong":
            v = PYVAL(args[0])
            ok = z3.And(v >= -2**63, v <= 2**63 - 1)
            # on a non-int the result is not modelled (the sites call it under PyLong_Check)
            res = z3.If(isint, z3.If(ok, v, z3.IntVal(-1)), fresh("aslong_nonint"))
            st.ghost["err"] = z3.If(isint, z3.If(ok, err, z3.IntVal(ERR_OVERFLOW)), fresh("err"))
            return res
        if name == "PyLong_AsLongAndOverflow":
            v = PYVAL(args[0])
            ok = z3.And(v >= -2**63, v <= 2**63 - 1)
            self.out_values[1] = z3.If(ok, z3.IntVal(0), z3.If(v > 0, z3.IntVal(1), z3.IntVal(-1)))
            return z3.If(isint, z3.If(ok, v, z3.IntVal(-1)), fresh("asl_nonint"))
        if name == "PyLong_AsLongLongAndOverflow":
            v = PYVAL(args[0])
            ok = z3.And(v >= -2**63, v <= 2**63 - 1)
            self.out_values[1] = z3.If(ok, z3.IntVal(0), z3.If(v > 0, z3.IntVal(1), z3.IntVal(-1)))
            return z3.If(isint, z3.If(ok, v, z3.IntVal(-1)), fresh("asll_nonint"))
        if name == "PyLong_AsUnsignedLongLong":
            v = PYVAL(args[0])
            ok = z3.And(v >= 0, v <= 2**64 - 1)
            st.ghost["err"] = z3.If(isint, z3.If(ok, err, z3.IntVal(ERR_OVERFLOW)), fresh("err"))
            return z3.If(isint, z3.If(ok, v, z3.IntVal(2**64 - 1)), fresh("asull_nonint"))
        # anything else: unknown result; may set or clear the error indicator
        self.havoc_heap(st, "call " + str(name))
        st.ghost["err"] = fresh("err")
        return fresh("ret_" + str(name).strip("->").replace("?", "fp"))

    # ---- the sites
    def st_IfStmt(self, n, st):
        site = self.sites.get(id(n)) if st is not None else None
        if site is None:
            return super().st_IfStmt(n, st)
        _, arg_n, status_n, target_n, what = site
        self.nsites += 1
        k = self.nsites
        arg = self.rvalue(arg_n, st)
        s0 = self.load(self.lvalue(status_n, st), st)
        err0 = st.ghost["err"]
        g0 = st.guard
        out = super().st_IfStmt(n, st)
        if out is None:
            raise RuntimeError("conversion site does not fall through")
        if what == "float":
            return self.float_site(k, arg, s0, err0, g0, out, status_n, target_n, arg_n)
        ttype = (target_n if "type" in target_n else unwrap(target_n)).get("type", {})
        tname = (ttype.get("desugaredQualType") or ttype.get("qualType", "")).replace("const ", "").strip()
        if tname not in RANGES:
            raise RuntimeError("conversion target of type %r" % tname)
        lo, hi = RANGES[tname]
        v = PYVAL(arg)
        ok = z3.And(IS_INT_T(TYPEOF(arg)), v >= lo, v <= hi)
        s1 = self.load(self.lvalue(status_n, out), out)
        t1 = self.load(self.lvalue(target_n, out), out)
        err1 = out.ghost["err"]
        tag = "F-CONV:%s:site%d[%s]" % (self.fname, k, tname.replace(" ", "_"))
        pre = z3.And(g0, err0 == ERR_NONE)

        def ob(nm, goal):
            self.obls.append(Oblig("%s:%s" % (tag, nm), [pre, out.guard] + list(self.assumptions), goal))
        ob("accepts-iff-representable", s1 == z3.If(ok, s0, z3.IntVal(0)))
        ob("value-exact", z3.Implies(ok, t1 == v))
        ob("reject-is-TypeError", z3.Implies(z3.Not(ok), err1 == ERR_TYPE))
        ob("accept-leaves-no-error", z3.Implies(ok, err1 == ERR_NONE))
        # vacuity guards: both outcomes are reachable
        self.covers.append(("%s:cover:accept" % tag, [pre, out.guard, ok]))
        self.covers.append(("%s:cover:reject" % tag, [pre, out.guard, z3.Not(ok)]))
        self.site_descr.append({"site": tag, "arg": self.sketch(arg_n, 2), "target_type": tname, "range": [lo, hi]})
        return out

    def float_site(self, k, arg, s0, err0, g0, out, status_n, target_n, arg_n):
        """VALUE_TYPE float.  Oracle (C13): a float is stored as its
        single-precision rounding, and only if that is representable (a finite
        double must not become an infinity); an int is stored as its float
        value; anything else is rejected with TypeError, nothing pending
        otherwise.  Acceptance of *every* representable int is not demanded
        (ints beyond C long are representable but rejecting them with
        TypeError is within the statement)."""
        isf = IS_FLOAT_T(TYPEOF(arg))
        isi = z3.And(IS_INT_T(TYPEOF(arg)), z3.Not(isf))
        d = DVAL(arg)
        v = PYVAL(arg)
        s1 = self.load(self.lvalue(status_n, out), out)
        t1 = self.load(self.lvalue(target_n, out), out)
        err1 = out.ghost["err"]
        tag = "F-CONV:%s:site%d[float]" % (self.fname, k)
        pre = z3.And(g0, err0 == ERR_NONE)
        accepted = s1 == s0
        fits = z3.And(v >= -2**63, v <= 2**63 - 1)

        def ob(nm, goal):
            self.obls.append(Oblig("%s:%s" % (tag, nm), [pre, out.guard, s0 != 0] + list(self.assumptions), goal))
        ob("float-stored-as-its-rounding", z3.Implies(z3.And(isf, accepted), t1 == F32(d)))
        ob("float-accepted-only-if-representable",
           z3.Implies(z3.And(isf, accepted), z3.Or(z3.Not(FINITE(d)), FINITE(F32(d)))))
        ob("int-stored-as-its-float-value", z3.Implies(z3.And(isi, accepted), z3.And(fits, t1 == I2F(v))))
        ob("other-types-rejected", z3.Implies(z3.And(z3.Not(isf), z3.Not(isi)), z3.Not(accepted)))
        ob("reject-is-TypeError", z3.Implies(z3.Not(accepted), z3.And(s1 == 0, err1 == ERR_TYPE)))
        ob("accept-leaves-no-error", z3.Implies(accepted, err1 == ERR_NONE))
        self.covers.append(("%s:cover:accept-float" % tag, [pre, out.guard, s0 != 0, isf, accepted]))
        self.covers.append(("%s:cover:reject" % tag, [pre, out.guard, s0 != 0, z3.Not(accepted)]))
        self.site_descr.append({"site": tag, "arg": self.sketch(arg_n, 2), "target_type": "float"})
        return out

    def __init__(self, tu, fname):
        super().__init__(tu, fname)
        self.covers = []
        self.site_descr = []

    def describe_model(self, model, obl):
        d = super().describe_model(model, obl)
        vals = {}
        for decl in model.decls():
            if decl.name() in ("pyint_value", "is_long_subclass", "is_float_subclass", "is_finite"):
                vals[decl.name()] = str(model[decl])[:200]
        d["python_argument"] = vals
        return d


ANALYSIS = {"F-CONV": FConv}
