"""M-ALLOC (C17): allocation failure is reported and never leaves a container
field pointing at a dead block.

For every function that allocates, reallocates or frees directly
(BTree_Malloc / BTree_Realloc / malloc / realloc / free), with each allocation
free to fail:

  no-dangling-field   on every exit, the vector fields (keys, values, data) of
                      every container passed in as a parameter point at a live
                      block or are NULL -- where a successful realloc kills the
                      old block (it may have moved) and free kills its argument;
  failure-reported    on every exit of a path on which an allocation returned
                      NULL, the function reports an error (negative int / NULL
                      pointer result), i.e. the failure is not swallowed.

Ghost state: dead[p] (block p has been released during this activation) and
`failed` (some allocation of this path returned NULL).  BTree_Malloc /
BTree_Realloc are the wrappers the hook of MANIFEST.hooks instruments; their
own contract (NULL => MemoryError set) is checked on their bodies by
`wrapper-sets-MemoryError`.
"""
import z3

from .cexec import CExec, fresh, INT, BOOL, Oblig
from . import capi, summary

ALLOC = ("BTree_Malloc", "malloc", "PyMem_Malloc", "PyObject_Malloc")
REALLOC = ("BTree_Realloc", "realloc")
FREE = ("free", "PyMem_Free", "PyObject_Free")
VECTOR_FIELDS = ("keys", "values", "data")
FIELDS_OF = {"Bucket *": ("keys", "values"), "struct Bucket_s *": ("keys", "values"), "BTree *": ("data",), "Sized *": ()}
CONTAINER_PTR = ("Bucket *", "BTree *", "Sized *", "struct Bucket_s *")
# functions that by design continue after a failed allocation (fall back to another algorithm)
RECOVERS = {"sort_int_nodups": "falls back to quicksort when the radix work buffer cannot be allocated"}


class MAlloc(CExec):
    family = "M-ALLOC"

    @classmethod
    def applies(cls, tu, fname):
        calls = summary.direct(tu.functions[fname], tu.fieldmap)[1]
        return any(c in ALLOC + REALLOC + FREE for c in calls)

    def on_entry(self, st):
        st.ghost["dead"] = z3.K(INT, z3.BoolVal(False))
        st.ghost["failed"] = z3.BoolVal(False)
        self.blocks = []
        self.containers = [p["id"] for p in self.fn.get("inner", []) if p["kind"] == "ParmVarDecl" and
                           p.get("type", {}).get("qualType", "") in CONTAINER_PTR]
        self.ctype = {p["id"]: p["type"]["qualType"] for p in self.fn.get("inner", [])
                      if p["kind"] == "ParmVarDecl" and p.get("type", {}).get("qualType", "") in CONTAINER_PTR}
        # A6: at entry the vector fields of a container hold distinct blocks
        for cid in self.containers:
            o = st.vars[cid]
            k, v = self.hread(st, "keys", o), self.hread(st, "values", o)
            self.assumptions.append(z3.Or(k == 0, v == 0, k != v))
        rt = self.fn.get("type", {}).get("qualType", "").split("(")[0].strip()
        self.ret_is_ptr = rt.endswith("*")
        self.ret_is_void = rt == "void"

    def on_call(self, name, args, n, st):
        dead = st.ghost["dead"]
        if name in ALLOC:
            r = fresh("blk")
            self.new_block(st, r)
            st.ghost["failed"] = z3.Or(st.ghost["failed"], r == 0)
            st.ghost["dead"] = z3.Store(dead, r, z3.BoolVal(False))
            return r
        if name in REALLOC:
            p = args[0]
            r = fresh("blk")
            self.new_block(st, r)
            st.ghost["failed"] = z3.Or(st.ghost["failed"], r == 0)
            # success: the old block is gone (it may have been moved); failure: untouched
            d2 = z3.Store(dead, p, z3.If(z3.And(r != 0, p != 0), z3.BoolVal(True), z3.Select(dead, p)))
            st.ghost["dead"] = z3.Store(d2, r, z3.If(r != 0, z3.BoolVal(False), z3.Select(d2, r)))
            return r
        if name in FREE:
            st.ghost["dead"] = z3.Store(dead, args[0], z3.If(args[0] != 0, z3.BoolVal(True), z3.Select(dead, args[0])))
            return z3.IntVal(0)
        if name in capi.PURE or name == "->accessed":
            return fresh("ret_" + name.strip("->"))
        # other calls may write any field; they do not resurrect or kill blocks of
        # this activation's view unless they are allocators themselves (their own contract)
        self.havoc_heap(st, "call " + str(name))
        # callees leave every container's vector fields valid (their own
        # no-dangling-field obligation): after the call the fields of our
        # container parameters are NULL or blocks that are live now
        self.assume_fields_live(st)
        return fresh("ret_" + str(name).strip("->").replace("?", "fp"))

    def assume_fields_live(self, st):
        for cid in self.containers:
            o = self.entry.vars[cid]
            if "keys" in st.heap and "values" in st.heap:
                k, v = z3.Select(st.heap["keys"], o), z3.Select(st.heap["values"], o)
                self.assumptions.append(z3.Implies(st.guard, z3.Or(k == 0, v == 0, k != v)))
        for f in VECTOR_FIELDS:
            if f in st.heap:
                for cid in self.containers:
                    ptr = z3.Select(st.heap[f], self.entry.vars[cid])
                    self.assumptions.append(z3.Implies(st.guard, z3.Or(ptr == 0, z3.Not(z3.Select(st.ghost["dead"], ptr)))))

    def new_block(self, st, r):
        """A6: a successful allocation returns a block distinct from every block
        this activation knows (the vector fields of its containers, earlier allocations)."""
        for f in VECTOR_FIELDS:
            if f in st.heap:
                for cid in self.containers:
                    self.assumptions.append(z3.Implies(r != 0, r != z3.Select(st.heap[f], self.entry.vars[cid])))
        for b in self.blocks:
            self.assumptions.append(z3.Implies(r != 0, r != b))
        self.blocks.append(r)

    def on_return(self, st, v):
        dead = st.ghost["dead"]
        for cid in self.containers:
            obj = self.entry.vars[cid]
            for f in FIELDS_OF.get(self.ctype[cid], ()):
                if f not in st.heap:
                    continue
                ptr = z3.Select(st.heap[f], obj)
                self.oblige(st, "M-ALLOC:%s:no-dangling-field[%s]" % (self.fname, f),
                            z3.Or(ptr == 0, z3.Not(z3.Select(dead, ptr))))
        if self.fname in ("BTree_Malloc", "BTree_Realloc") or self.ret_is_void or self.fname in RECOVERS or v is None:
            return
        err = (v == 0) if self.ret_is_ptr else (v < 0)
        self.oblige(st, "M-ALLOC:%s:failure-reported" % self.fname, z3.Implies(st.ghost["failed"], err))

    # loops: the ghost state is carried through unchanged unless the body allocates;
    # then everything the body may do to it is possible at the head
    def assume_invariant(self, n, entry, head):
        names = set()
        todo = [n]
        while todo:
            x = todo.pop()
            if x.get("kind") == "CallExpr":
                names.add(summary.callee_name(x["inner"][0]))
            todo.extend(c for c in x.get("inner", []) if isinstance(c, dict))
        self.assume_fields_live(head)
        if names & set(ALLOC + REALLOC + FREE):
            head.ghost["dead"] = fresh("dead", z3.ArraySort(INT, BOOL))
            head.ghost["failed"] = fresh("failed", BOOL)


ANALYSIS = {"M-ALLOC": MAlloc}
