"""F-UNIQ (C11, C side): `uniq(out, in, n)` of sorters.c - the step of multiunion that makes the
sorted key vector duplicate-free - against its functional contract, for every n and every content:

    requires  in[0..n) ascending (<=);  out == in  or the two ranges are disjoint
    ensures   n == 0: returns 0;  n > 0: with m the value returned,
              range     1 <= m <= n
              sorted    out[0..m) is STRICTLY ascending        (sorted and duplicate-free)
              subset    every out[r], r < m, is some in[j]     (nothing invented)
              superset  every in[j], j < n, is some out[r]     (nothing lost)
              (`in` is the vector as it was on entry.)

The real body is executed from the clang AST (both loops cut at invariants, `memcpy` by its exact
contract over the element map).  Quantified clauses are never handed to the solver as such: a goal
`forall x. P(x)` is proved for a fresh index, a hypothesis `forall x. P(x)` is used through the instances
the proof needs, an `exists` goal is proved as a disjunction over named witnesses - every query is
quantifier-free (the index arithmetic under the array reads defeats E-matching, see F-SEARCH).

Loop 0 (scan for the first duplicate):  1 <= i <= n;  in[k-1] != in[k] for 1 <= k < i.
Loop 1 (squeeze), m = pout - out, c = min(i, n) the number of elements consumed:
    bounds  1 <= m, m + 1 <= i <= n + 1          last     lastelt == out[m-1] == in0[c-1]
    sorted  out[0..m) strictly ascending         unread   in[j] == in0[j] for i <= j < n
    sup     every in0[j], j < c, is in out[0..m) sub      every out[r], r < m, is an in0[j], j < c

Obligations:  F-UNIQ:uniq:loop<k>:<init|preserve>:<clause>,  F-UNIQ:uniq:post:<clause>,
F-UNIQ:uniq:memcpy:<in-bounds clause>.  Assumptions (evidence): the precondition above (established by
the radix / quick sort: bounded, multiunion_rt), A5 / A6, memcpy's contract.
"""
import z3

from .cexec import CExec, fresh, INT, Unsupported


def strip(n):
    while n.get("kind") in ("ParenExpr", "ImplicitCastExpr", "CStyleCastExpr"):
        n = n["inner"][0]
    return n


def walk(n):
    yield n
    for c in n.get("inner", []):
        if isinstance(c, dict):
            yield from walk(c)


class FUniq(CExec):
    family = "F-UNIQ"
    ASSUMES = [
        "F-UNIQ: in[0..n) is ascending (established by the radix / quick sort: bounded, multiunion_rt) and out == in or the two "
        "ranges are disjoint; memcpy is the exact copy"]
    precise_mem_havoc = True

    @classmethod
    def applies(cls, tu, fn):
        return fn == "uniq"

    # ------------------------------------------------------------------ setup
    def on_entry(self, st):
        ps = [p for p in self.fn.get("inner", []) if p["kind"] == "ParmVarDecl"]
        if [p.get("name") for p in ps] != ["out", "in", "n"]:
            raise Unsupported("uniq's parameters are not (out, in, n)")
        self.OUT, self.IN, self.N = (st.vars[p["id"]] for p in ps)
        sub = [x for x in walk(self.fn) if x.get("kind") == "ArraySubscriptExpr"]
        if not sub:
            raise Unsupported("uniq reads no vector element")
        self.mem = "*" + self.tname(sub[0])          # the element map the executor uses for in[..] / *pout
        self.M0 = z3.Const("H0_" + self.mem, z3.ArraySort(INT, INT))
        st.heap[self.mem] = self.M0
        self.ids = {}
        for x in walk(self.fn):
            if x.get("kind") == "VarDecl" and x.get("name") in ("i", "pout", "lastelt"):
                self.ids[x["name"]] = x["id"]
        if set(self.ids) != {"i", "pout", "lastelt"}:
            raise Unsupported("uniq's locals i / pout / lastelt not found")
        self.loops = [x for x in walk(self.fn) if x.get("kind") == "ForStmt"]
        if len(self.loops) != 2:
            raise Unsupported("uniq does not have its two loops")
        self.heads = {}
        n, o, i = self.N, self.OUT, self.IN
        self.assumptions.append(n >= 0)
        self.assumptions.append(z3.Or(o == i, o + n <= i, i + n <= o))
        self.covers = [("F-UNIQ:uniq:cover:precondition", list(self.assumptions) + [n > 2])]

    def in0(self, j):
        return z3.Select(self.M0, self.IN + j)

    def rd(self, st, base, j):
        return z3.Select(st.heap[self.mem], base + j)

    def use(self, guard, *facts):
        for f in facts:
            self.assumptions.append(z3.Implies(guard, f))

    # instances of the ASSUMED precondition `in0 ascending`
    def asc(self, a, b):
        return z3.Implies(z3.And(0 <= a, a <= b, b < self.N), self.in0(a) <= self.in0(b))

    def tag(self, *parts):
        return "F-UNIQ:uniq:" + ":".join(parts)

    # ------------------------------------------------------------------ memcpy
    def on_call(self, name, args, n, st):
        if name != "memcpy":
            raise Unsupported("uniq calls %s" % name)
        size = strip(n["inner"][3])
        cnt = None
        if size.get("kind") == "BinaryOperator" and size.get("opcode") == "*":
            a, b = [strip(x) for x in size["inner"]]
            if b.get("kind") == "UnaryExprOrTypeTraitExpr":
                cnt = self.rvalue(size["inner"][0], st)
            elif a.get("kind") == "UnaryExprOrTypeTraitExpr":
                cnt = self.rvalue(size["inner"][1], st)
        if cnt is None:
            raise Unsupported("memcpy size is not count * sizeof(element)")
        dst, src = args[0], args[1]
        # memory safety of the copy: both ranges inside the vectors, and they do not overlap
        self.oblige(st, self.tag("memcpy", "source-in-bounds"), z3.And(src >= self.IN, src + cnt <= self.IN + self.N, cnt >= 0))
        self.oblige(st, self.tag("memcpy", "destination-in-bounds"), z3.And(dst >= self.OUT, dst + cnt <= self.OUT + self.N))
        self.oblige(st, self.tag("memcpy", "no-overlap"), z3.Or(dst + cnt <= src, src + cnt <= dst, cnt == 0))
        a = z3.Int("a!mc")
        old = st.heap[self.mem]
        st.heap[self.mem] = z3.Lambda([a], z3.If(z3.And(dst <= a, a < dst + cnt), z3.Select(old, src + (a - dst)), z3.Select(old, a)))
        return dst

    # ------------------------------------------------------------------ invariants
    def v(self, st, nm):
        return st.vars[self.ids[nm]]

    def inv0(self, st, k):
        """Loop 0 at state st; k: the index the quantified clause is taken at."""
        i = self.v(st, "i")
        return {"bounds": z3.And(1 <= i, i <= self.N),
                "distinct": z3.Implies(z3.And(1 <= k, k < i), self.in0(k - 1) != self.in0(k)),
                "memory_untouched": st.heap[self.mem] == self.M0}

    def consumed(self, i):
        return z3.If(i <= self.N, i, self.N)

    def inv1_ground(self, st):
        i, pout, last = self.v(st, "i"), self.v(st, "pout"), self.v(st, "lastelt")
        m = pout - self.OUT
        c = self.consumed(i)
        return {"bounds": z3.And(1 <= m, m + 1 <= i, i <= self.N + 1),
                "last": z3.And(last == self.rd(st, self.OUT, m - 1), last == self.in0(c - 1))}

    def inv1_at(self, st, a, b, j, r, wit_r=None, wit_j=None):
        """The quantified clauses of loop 1 at indices (a, b) / j / r.  `sup` and `sub` are existential:
        with witnesses given (lists of terms) they are the disjunction over them (a GOAL); without, fresh
        witnesses are introduced (a HYPOTHESIS instance)."""
        i, pout = self.v(st, "i"), self.v(st, "pout")
        m = pout - self.OUT
        c = self.consumed(i)
        out = {"sorted": z3.Implies(z3.And(0 <= a, a < b, b < m), self.rd(st, self.OUT, a) < self.rd(st, self.OUT, b)),
               "unread": z3.Implies(z3.And(i <= j, j < self.N), self.rd(st, self.IN, j) == self.in0(j))}
        if wit_r is None:
            wit_r = [fresh("wr")]
        out["sup"] = z3.Implies(z3.And(0 <= j, j < c),
                                z3.Or(*[z3.And(0 <= w, w < m, self.rd(st, self.OUT, w) == self.in0(j)) for w in wit_r]))
        if wit_j is None:
            wit_j = [fresh("wj")]
        out["sub"] = z3.Implies(z3.And(0 <= r, r < m),
                                z3.Or(*[z3.And(0 <= w, w < c, self.rd(st, self.OUT, r) == self.in0(w)) for w in wit_j]))
        self._last_wits = (wit_r, wit_j)
        return out

    def loop_index(self, n):
        for k, x in enumerate(self.loops):
            if x is n:
                return k
        return None

    def assume_invariant(self, n, entry, head):
        k = self.loop_index(n)
        if k is None:
            return
        self.heads[k] = head.clone()
        if k == 0:
            self.use(head.guard, self.inv0(head, z3.IntVal(1))["bounds"])
        else:
            self.use(head.guard, *self.inv1_ground(head).values())

    def check_invariant(self, n, phase, entry, st):
        k = self.loop_index(n)
        if k is None or getattr(self, "_trial", False):
            return
        if k == 0:
            k0 = fresh("k0")
            if phase == "preserve":
                self.use(self.heads[0].guard, self.inv0(self.heads[0], k0)["distinct"])
            for nm, f in self.inv0(st, k0).items():
                self.oblige(st, self.tag("loop0", phase, nm), f)
            return
        a0, b0, j0, r0 = fresh("a0"), fresh("b0"), fresh("j0"), fresh("r0")
        i, pout = self.v(st, "i"), self.v(st, "pout")
        m = pout - self.OUT
        if phase == "init":
            # what loop 0 left behind (its invariant at the exit value of i, which is i - 1 here), at the
            # indices needed; the ascending-order instances; every witness is named
            h0 = self.heads[0]
            i0 = i - 1
            for kk in (b0, a0 + 1):
                self.use(st.guard, z3.Implies(z3.And(1 <= kk, kk < i0), self.in0(kk - 1) != self.in0(kk)))
            self.use(st.guard, self.asc(a0, b0 - 1), self.asc(b0 - 1, b0), z3.And(1 <= i0, i0 <= self.N))
            goals = dict(self.inv1_ground(st))
            goals.update(self.inv1_at(st, a0, b0, j0, r0, wit_r=[j0, i0 - 1], wit_j=[r0]))
        else:
            h = self.heads[1]
            hi, hm = self.v(h, "i"), self.v(h, "pout") - self.OUT
            # instances of the head invariant: sorted at (a0, b0) and (a0, m-1); unread at i and j0; sup at j0; sub at r0
            inst = self.inv1_at(h, a0, b0, j0, r0)
            wr, wj = self._last_wits
            self.use(h.guard, inst["sorted"], inst["unread"], inst["sup"], inst["sub"],
                     self.inv1_at(h, a0, hm - 1, hi, r0)["sorted"], self.inv1_at(h, a0, b0, hi, r0)["unread"],
                     self.asc(hi - 1, hi))
            goals = dict(self.inv1_ground(st))
            goals.update(self.inv1_at(st, a0, b0, j0, r0, wit_r=wr + [hm, hm - 1], wit_j=wj + [hi]))
            self.oblige(st, self.tag("loop1", "write", "in-bounds"), z3.And(hm >= 0, hm < self.N),
                        "the squeeze loop writes out[m] with m outside the vector")
        for nm, f in goals.items():
            self.oblige(st, self.tag("loop1", phase, nm), f)

    # ------------------------------------------------------------------ contract
    def on_return(self, st, v):
        n = self.N
        if v is None:
            raise Unsupported("uniq returns no value")
        self.oblige(st, self.tag("post", "empty"), z3.Implies(n == 0, v == 0))
        a0, b0, j0, r0 = fresh("a0"), fresh("b0"), fresh("j0"), fresh("r0")
        # without the squeeze loop's facts (a return taken before it) the only witnesses offered are the
        # identical positions: such a return is right exactly when out[0..m) already IS in0[0..m), duplicate-free
        wr, wj = [j0], [r0]
        if 1 in self.heads:
            h = self.heads[1]
            inst = self.inv1_at(h, a0, b0, j0, r0)
            wr, wj = self._last_wits
            self.use(z3.And(h.guard, st.guard), inst["sorted"], inst["sup"], inst["sub"], *self.inv1_ground(h).values())
        # (a return taken before the squeeze loop has none of these facts: its goals stand on their own)
        m = v
        goals = {
            "range": z3.And(1 <= m, m <= n),
            "sorted": z3.Implies(z3.And(0 <= a0, a0 < b0, b0 < m), self.rd(st, self.OUT, a0) < self.rd(st, self.OUT, b0)),
            "superset": z3.Implies(z3.And(0 <= j0, j0 < n),
                                   z3.Or(*[z3.And(0 <= w, w < m, self.rd(st, self.OUT, w) == self.in0(j0)) for w in wr])),
            "subset": z3.Implies(z3.And(0 <= r0, r0 < m),
                                 z3.Or(*[z3.And(0 <= w, w < n, self.rd(st, self.OUT, r0) == self.in0(w)) for w in wj])),
        }
        for nm, g in goals.items():
            self.oblige(st, self.tag("post", nm), z3.Implies(n > 0, g))


ANALYSIS = {"F-UNIQ": FUniq}
