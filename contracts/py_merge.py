"""Contracts for the conflict-resolution entry of trees (C07, C08):
_get_simple_btree_bucket_state unwraps exactly the one-leaf tree state and
refuses every multi-leaf tree state with reason 11."""
from pyvc.spec import Contract

CONTRACTS = []


def C(*a, **k):
    c = Contract(*a, **k)
    CONTRACTS.append(c)
    return c


LEAFSTATE = ("tuple", ["any"])                  # (items,)   -- opaque leaf state
LEAFSTATE2 = ("tuple", ["any", "any"])          # (items, next)
SHAPES = [
    "none", "int",                               # None ; not a tuple
    ("tuple", []), ("tuple", ["any", "any"]), ("tuple", ["any", "any", "any"]),
    ("tuple", ["int"]),                          # (non-tuple,)
    ("tuple", [("tuple", [])]), ("tuple", [("tuple", ["any", "any"])]),
    ("tuple", [("tuple", ["int"])]),             # ((non-tuple,),)
    ("tuple", [("tuple", [LEAFSTATE])]), ("tuple", [("tuple", [LEAFSTATE2])]),
]
WELLFORMED = ("kind_of(state) == 'tuple1' and kind_of(state[0]) == 'tuple1' and istuple(state[0][0])")

C("_get_simple_btree_bucket_state", params={"state": SHAPES}, returns="dyn",
  ensures={
      "none_passes": "implies(state is None, result is None)",
      "unwraps_one_leaf": "implies(state is not None, " + WELLFORMED + " and result is state[0][0])",
  },
  raises={
      "BTreesConflictError": {"only_multi_leaf": "kind_of(state) == 'tuple2'", "reason_11": "exc_args[3] == 11"},
      "TypeError": {"only_malformed": "state is not None and kind_of(state) != 'tuple2' and not (" + WELLFORMED + ")"},
  },
  modifies=[], props=["C07", "C08"], ghost={"no_compare": True})
