"""Bounded stand-in shared by C01 (sorted-map behaviour), C03 (structure) and
C09 (C vs Python): drives the real containers through histories of public
calls and evaluates the run-time contract after every call.

  --mode model : every result / exception class / full contents equal the
                 reference sorted map's (C01); a raising single-key call
                 leaves the contents unchanged
  --mode wf    : after every call the independent walker, _check() and
                 BTrees.check.check() accept the container (C03)
  --mode twin  : C and Python driven in lockstep agree on results, contents,
                 shape (__getstate__ structure) and pickles (C09)
"""
import argparse
import pickle
import time

from lib.common import Standin, Failure, write_standin
from rtc import harness as H


def state_sig(t):
    """__getstate__ walked recursively, with class names normalised."""
    def rec(x):
        if isinstance(x, tuple):
            return tuple(rec(y) for y in x)
        if hasattr(x, "__getstate__") and type(x).__module__.startswith("BTrees"):
            return (type(x).__name__.replace("Py", ""), rec(x.__getstate__()))
        return x
    return rec(t.__getstate__())


def twin_extras(fam, is_set, is_tree, keys, vals):
    """C09: arguments outside the family's domain and int subclasses, through
    every call that takes a key (reads report absence, writes raise TypeError
    and change nothing - in both implementations)."""
    bad = ["x", 2 ** 70, 1.5, (1,), b"toolong-bytes"]
    if fam[0] != "O":
        bad.append(None)
    sub = [True] if fam[0] in "IULQ" else []
    fill = tuple((("add", k) if is_set else ("setitem", k, vals[0])) for k in keys[:4])
    for b in bad + sub:
        if is_set:
            ops = [("add", b), ("remove", b), ("discard", b), ("contains", b), ("supdate", (b,)), ("isub", (b,))]
        else:
            ops = [("setitem", b, vals[0]), ("delitem", b), ("get", b), ("get", b, vals[1]), ("getitem", b),
                   ("contains", b), ("has_key", b), ("pop", b), ("pop", b, vals[1]), ("setdefault", b, vals[0]),
                   ("update", ((b, vals[0]),))]
            if is_tree:
                ops.append(("insert", b, vals[0]))
            if fam[1] != "O":
                ops += [("setitem", keys[0], "not-a-value"), ("setdefault", keys[-1], None)]
        for op in ops:
            yield (op,)
            yield fill + (op, ("len",))


def typed(x):
    """type-sensitive rendering: True and 1 are different stored keys"""
    if isinstance(x, tuple):
        return tuple(typed(y) for y in x)
    return (type(x).__name__, x)


def run_config(s, fam, kind, impl, sizes, mode, budget):
    is_set = kind in ("Set", "TreeSet")
    is_tree = kind in ("BTree", "TreeSet")
    leaf, internal = sizes if is_tree else (None, None)
    keys = H.keys_of(fam, 6)
    if fam[0] == "O" and mode != "twin":
        keys = [None] + keys[:5]
    else:
        ex = H.extremes(fam)
        keys = keys[:6 - len(ex)] + [e for e in ex if e is not None]
    vals = H.values_of(fam)
    core = H.alphabet(fam, is_set, keys, vals, rich=False, tree=is_tree)
    full = H.alphabet(fam, is_set, keys, vals, rich=True, tree=is_tree)
    cls = H.get_class(fam, kind, impl, leaf, internal)
    twin = H.get_class(fam, kind, "py" if impl == "c" else "c", leaf, internal) if mode == "twin" else None
    from BTrees.check import check as pkg_check
    t0 = time.time()
    shapes = set()
    tag = "%s%s%s" % (fam, kind, "Py" if impl == "py" else "")
    qs = H.tier() == "quick"
    import itertools
    gen = H.histories(core, full, H.seed() * 7919 + hash((fam, kind, impl, sizes)) % 1000,
                      exhaustive_len=3 if qs else 4, n_random=budget, random_len=26)
    if is_tree:
        # deep phase: 10 keys of the family (no extremes needed) reach 4 levels at 2/2
        deep_keys = H.keys_of(fam, 10 if qs else 12)
        gen = itertools.chain(gen, H.deep_histories(is_set, deep_keys, vals))
    if mode == "twin":
        gen = itertools.chain(gen, twin_extras(fam, is_set, is_tree, keys, vals))
    nfail = 0
    for h in gen:
        if nfail >= 6:
            break
        t = cls()
        u = twin() if twin else None
        ref = H.RefMap(is_set)
        for i, op in enumerate(h):
            if mode == "twin":
                r_ref = None          # the twin is the oracle; the reference map is not consulted
            else:
                r_ref = H.apply_ref(ref, op)
            r_imp = H.apply_impl(t, op)
            s.evaluations += 1
            hist = [list(map(repr, o)) for o in h[:i + 1]]
            bad = None
            if mode == "model":
                if not H.same_result(r_imp, r_ref):
                    bad = ("result", "call %r returned %r, reference %r" % (op, r_imp, r_ref))
                else:
                    try:
                        c = H.contents(t, is_set)
                    except Exception as e:
                        c = "iteration raised %s: %s" % (type(e).__name__, e)
                    if c != ref.contents():
                        bad = ("contents", "after %r contents %r, reference %r" % (op, c, ref.contents()))
                    elif len(t) != len(ref.d) or bool(t) != bool(ref.d):
                        bad = ("len", "after %r len/bool %r/%r, reference %r" % (op, len(t), bool(t), len(ref.d)))
            elif mode == "wf":
                try:
                    if is_tree:
                        c, nleaves, height = H.walk(t, is_set, leaf, internal)
                        if c != ref.contents():
                            raise H.Damage("walk yields %r, reference %r" % (c, ref.contents()))
                        t._check()
                        pkg_check(t)
                        shapes.add((nleaves, height, len(c)))
                    else:
                        ks = list(t.keys())
                        if ks != ref.keys():
                            raise H.Damage("leaf keys %r, reference %r" % (ks, ref.keys()))
                except H.Damage as e:
                    bad = ("damage", "after %r: %s" % (op, e))
                except AssertionError as e:
                    bad = ("checker", "after %r a package checker rejected the container: %s" % (op, e))
                except Exception as e:
                    bad = ("walk-error", "after %r inspecting the container raised %s: %s" % (op, type(e).__name__, e))
            elif mode == "twin":
                r_tw = H.apply_impl(u, op)
                if not H.same_result(r_imp, r_tw):
                    oc = lambda r: r[1] if r[0] == "exc" else "ret"
                    bad = ("twin-result", "call %r: %s %r, twin %r" % (op, impl, r_imp, r_tw),
                           "%s/%s" % (oc(r_imp), oc(r_tw)))
                else:
                    a, b = typed(state_sig(t)), typed(state_sig(u))
                    if a != b:
                        bad = ("twin-state", "after %r states differ: %r vs %r" % (op, a, b))
            if bad:
                nfail += 1
                s.failures.append(Failure(
                    key="%s:%s:%s:%s:%s" % (mode, "py" if impl == "py" else "c", kind, bad[0], op[0]) +
                        (":" + bad[2] if len(bad) > 2 else ""),
                    desc="%s sizes=%s: %s" % (tag, sizes, bad[1]),
                    repro={"family": fam, "kind": kind, "impl": impl, "sizes": list(sizes), "history": hist}))
                break
        if is_tree and mode != "wf":
            try:
                shapes.add(H.shape(t, is_set))
            except Exception:
                pass
        elif not is_tree and mode != "twin":
            shapes.add(tuple(ref.keys()))
    s.distinct_nontrivial += len(shapes)
    return time.time() - t0


def main():
    ap = argparse.ArgumentParser()
    ap.add_argument("--out")
    ap.add_argument("--mode", default="model")
    a = ap.parse_args()
    qs = H.tier() == "quick"
    s = Standin(name="hist_rt[%s]" % a.mode,
                bound="every history of <=%d core mutators (set/del or add/remove over 6 keys) + %s seeded histories of "
                      "13..26 calls over the whole public alphabet, per (family, kind, implementation, node sizes); "
                      "node sizes (2,2),(3,2) set on the class" % (3 if qs else 4, "40" if qs else "400"),
                rule="case = one call of one history; distinct non-trivial = distinct final shapes (leaf count, height, size) reached",
                functions=["_BTree_set", "BTree_grow", "BTree_split", "BTree_split_root", "BTree_deleteNextBucket",
                           "bucket_pop", "BTree_popitem", "set_i*/TreeSet_i*", "_Tree._set/_del/_grow/_split (run-time)"])
    sizes = [(2, 2), (3, 2)] if qs else [(2, 2), (2, 3), (3, 2), (4, 3)]
    impls = ["c", "py"] if a.mode != "twin" else ["c"]
    for fam in H.fams():
        for kind in ("BTree", "TreeSet", "Bucket", "Set"):
            if fam == "fs" and kind in ("TreeSet", "Set") and False:
                continue
            for impl in impls:
                for sz in (sizes if kind in ("BTree", "TreeSet") else [(None, None)]):
                    run_config(s, fam, kind, impl, sz, a.mode, 40 if qs else 400)
    s.samples = [{"family": "OO", "kind": "BTree", "sizes": [2, 2],
                  "history": "setitem(0,'a') setitem(1,'a') setitem(2,'a') delitem(1) ... (each call checked)"}]
    write_standin(a.out, s)


if __name__ == "__main__":
    main()
