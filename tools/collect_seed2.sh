#!/bin/bash
# usage: collect_seed.sh <prop> <slug>   -- verify a sub-agent's seeded change in a fresh scratch worktree and store it
set -u
P=$1; M=$2
SRC=${MUTROOT:-/tmp/mut2}/$P/_out/$M
WT=/tmp/seedchk/$P-$M
DST=/verif/seeded/$P-$M
mkdir -p /tmp/seedchk /verif/seeded
git -C /repo worktree remove --force $WT >/dev/null 2>&1
git -C /repo worktree add --detach $WT HEAD >/dev/null 2>&1 || { echo "$P-$M: worktree failed"; exit 1; }
cd $WT
cp $SRC/demo.py demo.py
touchesC=$(grep -c '^+++ .*\.[ch]$' $SRC/patch.diff)
${BUILDENV:-env} /venv/bin/python setup.py build_ext -i -j8 >/dev/null 2>&1
base=$(PYTHONPATH=src timeout 900 /venv/bin/python demo.py 2>&1 | tail -3; echo "rc=${PIPESTATUS[0]}")
git apply $SRC/patch.diff || { echo "$P-$M: patch does not apply"; exit 1; }
if [ "$touchesC" != "0" ]; then ${BUILDENV:-env} /venv/bin/python setup.py build_ext -i -j8 >/dev/null 2>&1; fi
tests=$(PYTHONPATH=src /venv/bin/python -m pytest -q -p no:cacheprovider --timeout=900 --continue-on-collection-errors 2>&1 | tail -1)
mut=$(PYTHONPATH=src timeout 900 /venv/bin/python demo.py 2>&1 | tail -3; echo "rc=${PIPESTATUS[0]}")
mkdir -p $DST
cp $SRC/patch.diff $SRC/demo.py $SRC/notes.md $DST/ 2>/dev/null
/venv/bin/python - "$P" "$M" "$tests" "$base" "$mut" "$DST" <<'PY'
import json,sys
p,m,tests,base,mut,dst=sys.argv[1:]
ok = ('1468 passed' in tests) and ('rc=0' in base) and ('rc=0' not in mut)
notes=open(dst+'/notes.md').read() if __import__('os').path.exists(dst+'/notes.md') else ''
json.dump({"id":p+"-"+m,"property":p,"confirmed":ok,
 "needs_to_manifest": notes[:1500],
 "ran":{"tests_with_change":tests,"demo_unchanged_tail":base,"demo_with_change_tail":mut,
        "how":"fresh scratch worktree of /repo HEAD; build_ext -i; demo on unchanged; git apply patch.diff; rebuild; full pytest; demo again"}},
 open(dst+'/meta.json','w'),indent=1)
print(p+"-"+m, "CONFIRMED" if ok else "NOT-CONFIRMED", "|", tests, "|", base.replace("\n"," ")[-80:], "|", mut.replace("\n"," ")[-120:])
PY
cd /; git -C /repo worktree remove --force $WT >/dev/null 2>&1; rm -rf $WT
