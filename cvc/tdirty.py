"""T-DIRTY (C04, C side): whatever an operation changes in a stored node's
serialised state is announced to the data manager.

Ghost state, per activation: dirty[o] (a serialised field of node o was written:
len, next, firstbucket, an element of keys / values / data) and reg[o] (the
`changed` callback of cPersistenceCAPI succeeded on o).  For every function, on
every exit that reports success:

    forall o: dirty[o] ==> reg[o] or nojar[o] or o is a DEBT parameter   (T-DIRTY:<fn>:exit)

DEBT parameters: functions whose documented protocol is "the caller must call
PER_CHANGED" (BTree_grow, BTree_split_root, bucket_append, ...) are inferred - they
write a node parameter and never call `changed` on it; the debt passes to their
callers, which must discharge it (their own exit obligation).  nojar: nodes
constructed in this activation belong to no data manager yet.  Callees (BTrees
functions by the same contract; API calls that may run Python: user code mutates
nodes only through this same API) preserve the clause.  Loops: the invariant is
the clause itself, relaxed Houdini-style for chosen pointer locals.  Exempt by
design: state loading, clearing for deactivation, deallocation.
Not covered: writes through a pointer to an ITEM (`d = self->data + i; d->child
= x`) whose owner the analysis cannot name - the accompanying `len` write or
element write through `owner->data[i]` usually is.
"""
import z3

from .cexec import CExec, fresh, INT, BOOL, Oblig
from . import capi
from .tuse import node_type, strip, CONSTRUCTS

SCALARS = {"len", "next", "firstbucket"}
VECTORS = {"keys", "values", "data"}
EXEMPT = {
    "_bucket_setstate", "_set_setstate", "_BTree_setstate", "bucket_setstate", "set_setstate", "BTree_setstate",
    "TreeSet_setstate", "_bucket_clear", "_BTree_clear", "bucket_dealloc", "BTree_dealloc", "bucket_tp_clear",
    "BTree_tp_clear", "bucket__p_deactivate", "BTree__p_deactivate", "_bucket__p_resolveConflict",
    "bucket_fromBytes_unused",
}


def owner_of(n):
    """n: an lvalue expression.  -> (owner pointer expression node, what) if it denotes a serialised
    field of a node reachable syntactically, else None."""
    n = strip(n)
    k = n.get("kind")
    if k == "MemberExpr" and n.get("isArrow") and n.get("name") in SCALARS and node_type(n["inner"][0]):
        return n["inner"][0], n["name"]
    if k == "MemberExpr" and not n.get("isArrow"):
        return owner_of(n["inner"][0])              # owner->data[i].child
    if k == "ArraySubscriptExpr":
        b = strip(n["inner"][0])
        if b.get("kind") == "MemberExpr" and b.get("isArrow") and b.get("name") in VECTORS and node_type(b["inner"][0]):
            return b["inner"][0], b["name"] + "[]"
    return None


def facts(tu):
    if hasattr(tu, "_tdirty_facts"):
        return tu._tdirty_facts
    writes, regs, passes, params = {}, {}, {}, {}
    for fn, node in tu.functions.items():
        ps = [p for p in node.get("inner", []) if p["kind"] == "ParmVarDecl"]
        pid = {p["id"]: i for i, p in enumerate(ps)}
        params[fn] = ps
        writes[fn], regs[fn], passes[fn] = set(), set(), []
        todo = [node]
        while todo:
            n = todo.pop()
            k = n.get("kind")
            tgt = None
            if (k == "BinaryOperator" and n.get("opcode") == "=") or k == "CompoundAssignOperator":
                tgt = n["inner"][0]
            elif k == "UnaryOperator" and n.get("opcode") in ("++", "--"):
                tgt = n["inner"][0]
            if tgt is not None:
                ow = owner_of(tgt)
                if ow is not None:
                    b = strip(ow[0])
                    if b.get("kind") == "DeclRefExpr" and b["referencedDecl"]["id"] in pid:
                        writes[fn].add(pid[b["referencedDecl"]["id"]])
            if k == "CallExpr":
                c = strip(n["inner"][0])
                cname = c["referencedDecl"].get("name") if c.get("kind") == "DeclRefExpr" else \
                    ("->" + c.get("name", "")) if c.get("kind") == "MemberExpr" else "?"
                for j, a in enumerate(n["inner"][1:]):
                    b = strip(a)
                    if b.get("kind") == "DeclRefExpr" and b["referencedDecl"]["id"] in pid:
                        if cname == "->changed":
                            regs[fn].add(pid[b["referencedDecl"]["id"]])
                        else:
                            passes[fn].append((pid[b["referencedDecl"]["id"]], cname, j))
                    if cname in ("memmove", "memcpy", "memset") and j == 0:
                        x = [a]
                        while x:
                            y = x.pop()
                            if y.get("kind") == "MemberExpr" and y.get("isArrow") and y.get("name") in VECTORS and node_type(y["inner"][0]):
                                bb = strip(y["inner"][0])
                                if bb.get("kind") == "DeclRefExpr" and bb["referencedDecl"]["id"] in pid:
                                    writes[fn].add(pid[bb["referencedDecl"]["id"]])
                            x.extend(y.get("inner", []))
            todo.extend(n.get("inner", []))
    debt = {(f, i) for f in tu.functions for i in writes[f] if i not in regs[f]}
    changed = True
    while changed:
        changed = False
        for f in tu.functions:
            for i, callee, j in passes[f]:
                if (callee, j) in debt and i not in regs[f] and (f, i) not in debt:
                    debt.add((f, i))
                    changed = True
    tu._tdirty_facts = (debt, params)
    return tu._tdirty_facts


class TDirty(CExec):
    family = "T-DIRTY"
    allowed = ()

    @classmethod
    def applies(cls, tu, fn):
        if fn in EXEMPT:
            return False
        debt, params = facts(tu)
        todo = [tu.functions[fn]]
        while todo:
            n = todo.pop()
            k = n.get("kind")
            if (k == "BinaryOperator" and n.get("opcode") == "=") or k == "CompoundAssignOperator" or \
                    (k == "UnaryOperator" and n.get("opcode") in ("++", "--")):
                if owner_of(n["inner"][0]) is not None:
                    return True
            if k == "CallExpr":
                c = strip(n["inner"][0])
                if c.get("kind") == "MemberExpr" and c.get("name") == "changed":
                    return True
                if c.get("kind") == "DeclRefExpr" and any(d[0] == c["referencedDecl"].get("name") for d in debt):
                    return True
            todo.extend(n.get("inner", []))
        return False

    def summary(self):
        if not hasattr(self.tu, "_summary"):
            from . import summary
            self.tu._summary = summary.summarize(self.tu)
        return self.tu._summary

    def allowed_or(self, st, o):
        out = []
        for a in self.allowed:
            v, g = a if isinstance(a, tuple) else (a, None)
            if v not in st.vars:
                continue
            if g is None:
                out.append(o == st.vars[v])
            elif g in st.vars:
                out.append(z3.And(o == st.vars[v], st.vars[g] != 0))
        return out

    def flag_locals(self):
        """int locals that only ever hold a literal or the value of a comparison (flags)."""
        decls, bad = {}, set()

        def flagexpr(n):
            n = strip(n)
            if n.get("kind") == "IntegerLiteral":
                return True
            if n.get("kind") == "UnaryOperator" and n.get("opcode") in ("-", "!"):
                return True
            return n.get("kind") == "BinaryOperator" and n.get("opcode") in ("==", "!=", "<", "<=", ">", ">=", "&&", "||")
        todo = [self.fn]
        while todo:
            n = todo.pop()
            k = n.get("kind")
            if k == "VarDecl" and n.get("type", {}).get("qualType") == "int":
                decls[n["id"]] = n.get("name")
                init = [c for c in n.get("inner", []) if "kind" in c]
                if init and not flagexpr(init[0]):
                    bad.add(n["id"])
            tgt = val = None
            if k == "BinaryOperator" and n.get("opcode") == "=":
                tgt, val = n["inner"]
            elif k == "CompoundAssignOperator" or (k == "UnaryOperator" and n.get("opcode") in ("++", "--", "&")):
                tgt = n["inner"][0]
            if tgt is not None:
                t = strip(tgt)
                if t.get("kind") == "DeclRefExpr" and (val is None or not flagexpr(val)):
                    bad.add(t["referencedDecl"]["id"])
            todo.extend(n.get("inner", []))
        return [(i, nm) for i, nm in decls.items() if i not in bad]

    O = z3.Int("o!dirty")

    def on_entry(self, st):
        F = z3.K(INT, z3.BoolVal(False))
        st.ghost["dirty"], st.ghost["reg"] = F, F
        st.ghost["nojar"] = z3.Const("NOJAR0", z3.ArraySort(INT, BOOL))
        debt, params = facts(self.tu)
        self.debt_params = [st.vars[p["id"]] for i, p in enumerate(params[self.fname]) if (self.fname, i) in debt]
        self.assumptions.append(self.O != 0)

    def excused(self, st, o):
        return z3.Or(z3.Select(st.ghost["reg"], o), z3.Select(st.ghost["nojar"], o), *[o == p for p in self.debt_params])

    def mark(self, st, ptr, why=""):
        if not hasattr(self, "mark_log"):
            self.mark_log = []
        self.mark_log.append((why, st.guard, ptr))
        st.ghost["dirty"] = z3.Store(st.ghost["dirty"], ptr, z3.BoolVal(True))
        # a later write needs a later (or pending) registration: registration before the write does
        # not count for this write -- but PER_CHANGED is idempotent within a transaction, so it does.

    # ---- writes
    def store(self, lv, st, val):
        n = getattr(self, "_store_target", None)
        if n is not None:
            ow = owner_of(n)
            if ow is not None:
                self.mark(st, self.rvalue(ow[0], st), "write " + ow[1] + " @" + self.sketch(n, 5))
        self._store_target = None
        return super().store(lv, st, val)

    def rv_BinaryOperator(self, n, st):
        if n.get("opcode") == "=":
            self._store_target = n["inner"][0]
        return super().rv_BinaryOperator(n, st)

    def rv_CompoundAssignOperator(self, n, st):
        self._store_target = n["inner"][0]
        return super().rv_CompoundAssignOperator(n, st)

    def rv_UnaryOperator(self, n, st):
        if n.get("opcode") in ("++", "--"):
            self._store_target = n["inner"][0]
        return super().rv_UnaryOperator(n, st)

    # ---- calls
    def preserve(self, st, extra_debt=()):
        """A callee (or Python code) keeps the clause: new dirt is registered, on a jar-less node, or a debt handed back."""
        d0, r0 = st.ghost["dirty"], st.ghost["reg"]
        d1, r1 = fresh("dirty", z3.ArraySort(INT, BOOL)), fresh("reg", z3.ArraySort(INT, BOOL))
        o = self.O
        self.assumptions.append(z3.Implies(z3.Select(r0, o), z3.Select(r1, o)))
        self.assumptions.append(z3.Implies(z3.Select(d1, o), z3.Or(z3.Select(d0, o), z3.Select(r1, o),
                                                                  z3.Select(st.ghost["nojar"], o), *[o == a for a in extra_debt])))
        st.ghost["dirty"], st.ghost["reg"] = d1, r1

    def on_call(self, name, args, n, st):
        if name == "->changed":
            r = fresh("ret_changed")
            self.havoc_heap(st, "changed")
            self.preserve(st)
            st.ghost["reg"] = z3.Store(st.ghost["reg"], args[0], z3.Or(z3.Select(st.ghost["reg"], args[0]), r >= 0))
            return r
        if name in ("memmove", "memcpy", "memset"):
            todo = [n["inner"][1]]
            while todo:
                y = todo.pop()
                if y.get("kind") == "MemberExpr" and y.get("isArrow") and y.get("name") in VECTORS and node_type(y["inner"][0]):
                    self.mark(st, self.rvalue(y["inner"][0], st), name + " into " + y.get("name"))
                todo.extend(y.get("inner", []))
        if name in capi.PURE or name == "->accessed":
            return fresh("ret_" + name.strip("->"))
        if name in self.tu.functions:
            debt, params = facts(self.tu)
            handed = [a for i, a in enumerate(args) if (name, i) in debt]
            py, wr = self.summary()
            if not py[name]:
                for f in list(st.heap):
                    if f in wr[name] or (f.startswith("*") and "*" in wr[name]):
                        st.heap[f] = fresh("H_" + f.replace("*", "deref_").replace(".", "_"), z3.ArraySort(INT, INT))
            else:
                self.havoc_heap(st, "call " + name)
            self.preserve(st, handed)
            for a in handed:
                self.mark(st, a, "debt of " + name)
            r = fresh("ret_" + name)
            if name in ("BTree_newBucket",):
                st.ghost["nojar"] = z3.Store(st.ghost["nojar"], r, z3.BoolVal(True))
            return r
        self.havoc_heap(st, "call " + str(name))
        self.preserve(st)
        r = fresh("ret_" + str(name).strip("->").replace("?", "fp"))
        if name in CONSTRUCTS:
            st.ghost["nojar"] = z3.Store(st.ghost["nojar"], r, z3.BoolVal(True))
        return r

    # ---- exits
    def success(self, v):
        rt = self.fn.get("type", {}).get("qualType", "")
        ret = rt.split("(")[0].strip()
        if v is None or ret == "void":
            return z3.BoolVal(True)
        if ret.endswith("*"):
            return v != 0
        return v >= 0

    # ASSUMED (listed in evidence): the first insertion into an empty tree registers the tree through
    # the embedded-leaf rule (`bucket_changed && self->len == 1 && child->oid == NULL` holds: BTree_grow
    # just created that only, oid-less child and the insertion into it changed it).  Proving it needs
    # functional contracts of BTree_grow / _bucket_set (not built); persist_rt covers it (bounded).
    ASSUMED_FLAGS = {"_BTree_set": ("self_was_empty", "changed")}

    def local_by_name(self, st, name):
        todo = [self.fn]
        while todo:
            n = todo.pop()
            if n.get("kind") == "VarDecl" and n.get("name") == name and n["id"] in st.vars:
                return st.vars[n["id"]]
            todo.extend(n.get("inner", []))
        return None

    def on_return(self, st, v):
        af = self.ASSUMED_FLAGS.get(self.fname)
        if af:
            a, b = self.local_by_name(st, af[0]), self.local_by_name(st, af[1])
            if a is not None and b is not None:
                self.assumptions.append(z3.Implies(z3.And(st.guard, self.success(v), a != 0), b != 0))
        o = self.O
        self.oblige(st, "T-DIRTY:%s:exit" % self.fname,
                    z3.Implies(z3.And(self.success(v), z3.Select(st.ghost["dirty"], o)), self.excused(st, o)),
                    "a success exit on which a node whose serialised state was written is not registered")

    def describe_model(self, model, obl):
        d = super().describe_model(model, obl)
        try:
            o = model.eval(self.O, model_completion=True)
            d["unregistered_node"] = str(o)
            names = []
            for vid, nm in self.pointer_locals():
                if vid in self.entry.vars and str(model.eval(self.entry.vars[vid], model_completion=True)) == str(o):
                    names.append(nm + "@entry")
            d["is"] = names
            d["marks"] = [m for m, g, p in self.mark_log
                          if z3.is_true(model.eval(g, model_completion=True)) and str(model.eval(p, model_completion=True)) == str(o)][:6]
        except Exception as e:
            d["describe_error"] = str(e)
        return d

    # ---- loops
    def assume_invariant(self, n, entry, head):
        d1, r1 = fresh("dirty", z3.ArraySort(INT, BOOL)), fresh("reg", z3.ArraySort(INT, BOOL))
        o = self.O
        self.assumptions.append(z3.Implies(z3.Select(entry.ghost["reg"], o), z3.Select(r1, o)))
        head.ghost["dirty"], head.ghost["reg"] = d1, r1
        self.assumptions.append(z3.Implies(z3.Select(d1, o), z3.Or(self.excused(head, o), *self.allowed_or(head, o))))

    def check_invariant(self, n, phase, entry, st):
        o = self.O
        self.oblige(st, "T-DIRTY:%s:loop-%s" % (self.fname, phase),
                    z3.Implies(z3.Select(st.ghost["dirty"], o), z3.Or(self.excused(st, o), *self.allowed_or(st, o))))


ANALYSIS = {"T-DIRTY": TDirty}
