"""C13 - only representable keys and values are stored, and they read back exactly."""
from props import _generic as g

QUICK = ["II", "UU", "LL", "QQ", "IF"]
ALL = "IO II IF IU UO UU UF UI LO LL LF LQ QO QQ QF QL OI OU OL OQ".split()


def run(ctx):
    fams = QUICK if ctx.tier == "quick" else ALL
    res = ctx.cvc(fams, ["F-CONV"])
    from lib import replay
    replay.replay_fconv(ctx, res)
    g.run_pyvc(ctx, "C13")
    ctx.standin("conv_rt", families=tuple(QUICK + ["OO", "fs"]) if ctx.tier == "quick" else tuple(ALL + ["OO", "fs"]))
    return "proof", (
        "F-CONV: every expansion of COPY_KEY_FROM_ARG / COPY_VALUE_FROM_ARG (and longlong_convert / "
        "ulonglong_convert, inlined) found in the macro-expanded clang AST of the translation units (%s) "
        "is proved, loop-free and therefore complete for all Python arguments: status stays set exactly for "
        "representable ints of the declared width and signedness (bit-precise casts), the stored value equals "
        "the argument, rejection leaves TypeError pending and acceptance leaves nothing pending; float values: "
        "stored as the float32 rounding, ints via (float), other types TypeError. Engine P: the converters of "
        "_datatypes.py that every pure-Python family uses as _to_key / _to_value are under contract for ALL Python "
        "objects (described by ghost predicates: is an int / has __index__ / has __int__ / is bytes / has default "
        "comparison): I, U, L, Q return a plain int in the declared range equal to the argument's integer value and "
        "raise TypeError - nothing else - otherwise; f / s accept exactly 2- / 6-byte strings; O rejects exactly "
        "objects with default comparison (struct / operator.index / int trusted: pyvc/dtypes.py; float types not "
        "under contract). The Python entry points' "
        "convert-before-mutate and absence-on-unconvertible-lookup clauses are Engine P obligations on "
        "_base.py. The boundary grid through every entry point of all families is the bounded stand-in conv_rt."
        % ", ".join(fams))
