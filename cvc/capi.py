"""Trusted table of the CPython / persistent C API as seen by Engine C (A4).

PURE: cannot run arbitrary Python code and cannot touch persistent objects'
state; everything else that is not a BTrees function is treated as "may run
Python" (reference-count drops can run destructors, rich comparison and
iteration run user code, ...)."""

PURE = {
    "PyErr_SetString", "PyErr_SetObject", "PyErr_Occurred", "PyErr_Clear", "PyErr_ExceptionMatches",
    "PyErr_NoMemory", "PyErr_Format", "PyErr_SetNone", "PyErr_BadInternalCall", "PyErr_BadArgument",
    "PyLong_FromLong", "PyLong_FromLongLong", "PyLong_FromUnsignedLong", "PyLong_FromUnsignedLongLong",
    "PyLong_FromSsize_t", "PyLong_FromSize_t", "PyFloat_FromDouble", "PyBool_FromLong",
    "PyLong_AsLong", "PyLong_AsLongLong", "PyLong_AsUnsignedLongLong", "PyLong_AsLongAndOverflow",
    "PyLong_AsLongLongAndOverflow", "PyLong_AsUnsignedLong", "PyLong_AsSsize_t", "PyFloat_AsDouble",
    "PyTuple_New", "PyList_New", "PyTuple_GET_SIZE", "PyTuple_GET_ITEM", "PyTuple_SET_ITEM",
    "PyTuple_Size", "PyTuple_GetItem", "PyTuple_SetItem", "PyList_GET_ITEM", "PyList_GET_SIZE",
    "PyList_SET_ITEM", "PyList_Append", "PyList_Size", "PyList_GetItem", "PyList_SetItem",
    "PyTuple_Check", "PyLong_Check", "PyType_HasFeature", "Py_TYPE", "Py_IS_TYPE", "PyObject_TypeCheck",
    "PyType_IsSubtype", "Py_SIZE", "PyFloat_Check", "PyBytes_Check", "PyBytes_AS_STRING",
    "PyBytes_GET_SIZE", "PyBytes_Size", "PyBytes_AsString", "PyBytes_FromStringAndSize",
    "PyUnicode_FromString", "PyUnicode_InternFromString", "PyUnicode_FromFormat",
    "Py_INCREF", "Py_XINCREF", "Py_NewRef", "Py_XNewRef", "_Py_NewRef", "_Py_XNewRef", "Py_IncRef",
    "_Py_IsImmortal", "Py_REFCNT", "_Py_INCREF", "Py_Is", "Py_IsNone",
    "malloc", "realloc", "free", "memcpy", "memmove", "memset", "memcmp", "strlen", "strcmp",
    "BTree_Malloc", "BTree_Realloc", "PyObject_GC_UnTrack", "PyObject_GC_Track", "PyObject_GC_Del",
    "PyObject_ClearWeakRefs", "PyType_GenericAlloc", "PyType_GenericNew",
    "PyArg_ParseTuple", "PyArg_ParseTupleAndKeywords", "PyArg_UnpackTuple", "Py_BuildValue",
    "PyTuple_Pack", "PyObject_Init", "PyObject_GC_New", "_PyObject_GC_New", "PyObject_Malloc",
    "PyObject_Free", "PyMem_Malloc", "PyMem_Free", "__builtin_expect", "__assert_fail", "assert",
    "PyType_Check", "PyDict_New", "PyDict_GetItem", "PyDict_GetItemString", "PyDict_SetItem",
    "PyDict_SetItemString", "PyExc_TypeError", "PySequence_Check", "PySlice_Unpack", "PySlice_AdjustIndices",
    "PySlice_Check", "PyIndex_Check", "PyLong_CheckExact", "PyFloat_CheckExact",
}

# persistent's C API table (cPersistenceCAPI->name)
PERSIST = {"->setstate", "->changed", "->accessed", "->ghostify", "->readCurrent", "->percachedel"}

# Reference semantics used by T-REF: result is a new reference / borrowed;
# which argument positions are stolen.
NEW_REF = {
    "PyLong_FromLong", "PyLong_FromLongLong", "PyLong_FromUnsignedLong", "PyLong_FromUnsignedLongLong",
    "PyLong_FromSsize_t", "PyFloat_FromDouble", "PyBool_FromLong", "PyTuple_New", "PyList_New",
    "Py_BuildValue", "PyTuple_Pack", "PyObject_GetIter", "PyIter_Next", "PyObject_CallObject",
    "PyObject_CallFunctionObjArgs", "PyObject_CallMethod", "PyObject_CallMethodObjArgs",
    "PyObject_CallFunction", "PyObject_Call", "PyObject_GetAttr", "PyObject_GetAttrString",
    "PyBytes_FromStringAndSize", "PyUnicode_FromString", "PyObject_Repr", "PyObject_Str",
    "PySequence_List", "PySequence_Tuple", "PySequence_GetItem", "PyObject_GetItem",
    "PyNumber_Index", "PyNumber_Long", "PyObject_CallNoArgs", "PyObject_CallOneArg",
    "PyUnicode_FromFormat", "PyDict_New", "PyObject_RichCompare", "PySequence_Fast",
    "PyTuple_GetSlice", "PyImport_ImportModule", "PyImport_Import", "PyUnicode_InternFromString",
    "Py_NewRef", "Py_XNewRef", "_Py_NewRef",
}
BORROWED = {"PyTuple_GET_ITEM", "PyTuple_GetItem", "PyList_GET_ITEM", "PyList_GetItem",
            "PyDict_GetItem", "PyDict_GetItemString", "PyErr_Occurred", "Py_TYPE"}
STEALS = {"PyTuple_SET_ITEM": [2], "PyTuple_SetItem": [2], "PyList_SET_ITEM": [2], "PyList_SetItem": [2]}
DECREF = {"Py_DECREF", "Py_XDECREF", "Py_DecRef", "_Py_DECREF", "Py_CLEAR"}
INCREF = {"Py_INCREF", "Py_XINCREF", "Py_IncRef", "_Py_INCREF"}
