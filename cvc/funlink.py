"""F-UNLINK (C01, C03, C09 - C side): the first-bucket protocol of deletions in `_BTree_set`.

When a deletion empties the first leaf L of a subtree, L must be unlinked from the leaf chain by the node
that holds L's predecessor: the LEFT sibling of the child the deletion descended into, at the lowest level
where such a sibling exists; only a node whose OWN first child lost its first leaf may pass the problem up
(status 2).  The Python implementation's version of this is proved in full (12.7, `_Tree._del#struct`); for
the C function the two clauses that carry it are proved on every path of the real body (clang AST, all
branches, callees havocked), per translation unit:

  U1  at every call of BTree_deleteNextBucket / Bucket_deleteNextBucket inside _BTree_set: the node asked to
      unlink was read from `d[-1].child`, where `d` is the very item the operation descended into
      (`d->child` of the recursive _BTree_set / _bucket_set call), and `min != 0`
      (`F-UNLINK:_BTree_set:unlink[<k>]:left-sibling`, `...:has-left-sibling`)
  U3  status 2 is reported only by a deletion (`result == 2 => value == NULL`), and -1 <= result <= 2; assumed for
      the recursive call (induction on the height), with `_bucket_set` returning -1 / 0 / 1 (its documented contract)
  U2  the function reports status 2 ("my first bucket went away") only if it descended into its first child:
      `result == 2 => min == 0`                                   (`F-UNLINK:_BTree_set:status-2-only-from-first-child`)

Assumptions: A5 / A6; the index `min` and the item pointer `d` are the function's locals of those names (a
renamed local is a checker error, not a verdict).
"""
import z3

from .cexec import CExec, fresh, INT, Unsupported
from .funiq import walk

DESCEND = ("_BTree_set", "_bucket_set")
UNLINK = ("BTree_deleteNextBucket", "Bucket_deleteNextBucket")


class FUnlink(CExec):
    family = "F-UNLINK"

    @classmethod
    def applies(cls, tu, fn):
        return fn == "_BTree_set"

    def on_entry(self, st):
        self.ids = {}
        for x in walk(self.fn):
            if x.get("kind") == "VarDecl" and x.get("name") in ("min", "d", "status"):
                self.ids.setdefault(x["name"], x["id"])
        if set(self.ids) != {"min", "d", "status"}:
            raise Unsupported("_BTree_set's locals min / d / status not found")
        self.last_child_addr = None
        self.descended = []          # (guard, address the child was read from)
        self.nunlink = 0

    def on_field_read(self, st, field, ptr):
        if field == "child":
            self.last_child_addr = ptr

    def on_call(self, name, args, n, st):
        if name in DESCEND:
            if self.last_child_addr is None:
                raise Unsupported("the child handed to %s was not read from an item" % name)
            self.descended.append((st.guard, self.last_child_addr))
        elif name in UNLINK:
            k = self.nunlink
            self.nunlink += 1
            if self.last_child_addr is None or not self.descended:
                self.oblige(st, "F-UNLINK:_BTree_set:unlink[%d]:left-sibling" % k, z3.BoolVal(False),
                            "an unlink is requested before the operation descended into a child")
            else:
                a = self.last_child_addr
                self.oblige(st, "F-UNLINK:_BTree_set:unlink[%d]:left-sibling" % k,
                            z3.Or(*[z3.And(g, a == addr - 1) for g, addr in self.descended]),
                            "the node asked to unlink the vanished leaf is not the left sibling (d[-1].child) of the "
                            "child the deletion descended into")
                mn = st.vars.get(self.ids["min"])
                self.oblige(st, "F-UNLINK:_BTree_set:unlink[%d]:has-left-sibling" % k,
                            mn != 0 if mn is not None else z3.BoolVal(False))
        self.last_child_addr = None if name in UNLINK + DESCEND else self.last_child_addr
        self.havoc_heap(st, "call " + str(name))
        r = fresh("ret_" + str(name).strip("->").replace("?", "fp"))
        if name == "_bucket_set":
            # a leaf never reports 2 (its own contract: BucketTemplate.c "Return: -1 / 0 / 1")
            self.assumptions.append(z3.And(r >= -1, r <= 1))
        elif name == "_BTree_set":
            # the same contract as the one proved here (U2, U3), by induction on the height of the tree
            self.assumptions.append(z3.And(r >= -1, r <= 2, z3.Implies(r == 2, args[2] == 0)))
        return r

    def on_return(self, st, v):
        if v is None:
            return
        ps = {p.get("name"): p["id"] for p in self.fn.get("inner", []) if p["kind"] == "ParmVarDecl"}
        val = self.entry.vars.get(ps.get("value"))
        if val is None:
            raise Unsupported("_BTree_set has no parameter `value`")
        self.oblige(st, "F-UNLINK:_BTree_set:status-2-only-when-deleting", z3.Implies(v == 2, val == 0))
        self.oblige(st, "F-UNLINK:_BTree_set:status-domain", z3.And(v >= -1, v <= 2))
        mn = st.vars.get(self.ids["min"])
        if mn is None:
            # a return before the search (argument errors): status 2 cannot be reported from there
            self.oblige(st, "F-UNLINK:_BTree_set:status-2-only-from-first-child", v != 2)
            return
        self.oblige(st, "F-UNLINK:_BTree_set:status-2-only-from-first-child", z3.Implies(v == 2, mn == 0),
                    "status 2 (\"my first bucket went away\") is reported although the deletion descended into a child "
                    "that has a left sibling - the caller would unlink a second, live leaf")

    def run(self):
        super().run()
        if self.nunlink < 2:
            raise Unsupported("_BTree_set no longer calls both unlink functions (found %d calls)" % self.nunlink)


ANALYSIS = {"F-UNLINK": FUnlink}


class FUnlinkLeaf(CExec):
    """`Bucket_deleteNextBucket(self)`: unlink self's successor from the leaf chain.
      returns 0, there was a successor s  =>  self->next is now s->next (s read after activating self, its `next` after
                     activating s), and the change of self was registered (PER_CHANGED called on self and succeeded)
      returns 0, no successor             =>  nothing was written
      returns -1                          =>  self->next was not written, unless the failure is PER_CHANGED's own
    (`F-UNLINK:Bucket_deleteNextBucket:<clause>`).  Activating an object may change any field OF THAT OBJECT; a leaf is
    not its own successor (A6b)."""
    family = "F-UNLINK"

    @classmethod
    def applies(cls, tu, fn):
        return fn == "Bucket_deleteNextBucket"

    def on_entry(self, st):
        ps = [p for p in self.fn.get("inner", []) if p["kind"] == "ParmVarDecl"]
        self.S = st.vars[ps[0]["id"]]
        self.ids = {}
        for x in walk(self.fn):
            if x.get("kind") == "VarDecl" and x.get("name") in ("successor", "next"):
                self.ids.setdefault(x["name"], x["id"])
        if set(self.ids) != {"successor", "next"}:
            raise Unsupported("Bucket_deleteNextBucket's locals successor / next not found")
        self.writes = []          # (guard, object, value) of stores to a `next` field
        self.changed = []

    def on_field_write(self, st, field, ptr, val):
        if field == "next":
            self.writes.append((st.guard, ptr, val))

    def on_call(self, name, args, n, st):
        if name == "->setstate":
            obj = args[0]
            for f in list(st.heap) + [x for x in ("next", "state", "len") if x not in st.heap]:
                base = st.heap.get(f)
                if base is None:
                    base = z3.Const("H0_" + f, z3.ArraySort(INT, INT))
                st.heap[f] = z3.Store(base, obj, fresh("loaded_" + f.replace("*", "m").replace(".", "_")))
            return fresh("setstate_rc")
        if name == "->changed":
            r = fresh("changed_rc")
            self.assumptions.append(z3.Or(r == 0, r == -1))
            self.changed.append((st.guard, args[0], r))
            return r
        if name in ("->accessed", "Py_INCREF", "_Py_INCREF", "Py_XINCREF", "Py_DECREF", "_Py_DECREF", "Py_XDECREF", "_Py_IsImmortal",
                    "_Py_Dealloc", "Py_TYPE", "_Py_NewRef", "_Py_XNewRef"):
            return fresh("ret_" + name.strip("->"))
        raise Unsupported("Bucket_deleteNextBucket calls %s" % name)

    def on_return(self, st, v):
        if v is None:
            return
        S = self.S
        succ = st.vars.get(self.ids["successor"])
        wrote_self = z3.Or(*[z3.And(g, p == S) for g, p, x in self.writes]) if self.writes else z3.BoolVal(False)
        wrote_other = z3.Or(*[z3.And(g, p != S) for g, p, x in self.writes]) if self.writes else z3.BoolVal(False)
        reg = z3.Or(*[z3.And(g, o == S, r == 0) for g, o, r in self.changed]) if self.changed else z3.BoolVal(False)
        chg_failed = z3.Or(*[z3.And(g, r != 0) for g, o, r in self.changed]) if self.changed else z3.BoolVal(False)
        if succ is None:
            self.oblige(st, "F-UNLINK:Bucket_deleteNextBucket:early-return-writes-nothing", z3.Not(z3.Or(wrote_self, wrote_other)))
            return
        self.assumptions.append(succ != S)          # A6b
        G = {
            "unlinked": z3.Implies(z3.And(v == 0, succ != 0), self.hread(st, "next", S) == self.hread(st, "next", succ)),
            "registered": z3.Implies(z3.And(v == 0, succ != 0), reg),
            "no_successor_no_write": z3.Implies(z3.And(v == 0, succ == 0), z3.Not(wrote_self)),
            "only_self_is_relinked": z3.Not(wrote_other),
            "failure_writes_nothing": z3.Implies(z3.And(v == -1, z3.Not(chg_failed)), z3.Not(wrote_self)),
            "result_domain": z3.Or(v == 0, v == -1),
        }
        for nm, g in G.items():
            self.oblige(st, "F-UNLINK:Bucket_deleteNextBucket:" + nm, g)


class FUnlinkAny(CExec):
    family = "F-UNLINK"
    ASSUMES = [
        "F-UNLINK: _bucket_set returns -1 / 0 / 1 (its documented contract); the recursive _BTree_set satisfies the clauses proved "
        "here (induction on the height); the index `min` and the item pointer `d` are the function's locals of those names",
        "F-UNLINK: activating an object may change any field of THAT object only; a leaf is not its own successor (A6b)"]

    @classmethod
    def applies(cls, tu, fn):
        return fn in ("_BTree_set", "Bucket_deleteNextBucket")

    def __new__(cls, tu, fname):
        return {"_BTree_set": FUnlink, "Bucket_deleteNextBucket": FUnlinkLeaf}[fname](tu, fname)


ANALYSIS = {"F-UNLINK": FUnlinkAny}
