from props import _generic as g


def run(ctx):
    fns = g.run_pyvc(ctx, "C11")
    ctx.standin("multiunion_rt", families=tuple("II,UU,LL,QQ,IO,LF".split(",")))
    return "exploration", "bounded stand-in multiunion_rt (no obligation of the deductive engines serves C11 yet)"
