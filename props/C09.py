"""C09 - the C extension and the pure-Python fallback are interchangeable."""
from props import _generic as g


def run(ctx):
    fns = g.run_pyvc(ctx, "C09")
    fams = ["II", "UU", "LL", "QQ"] if ctx.tier == "quick" else "IO II IU UO UU UI LO LL LQ QO QQ QL OI OU OL OQ".split()
    res = ctx.cvc(fams, ["F-CONV"])
    from lib import replay
    replay.replay_fconv(ctx, res)
    g.run_fsearch(ctx)
    g.run_funlink(ctx)
    g.run_fleaf(ctx)
    ctx.standin("hist_rt", families=("OO", "II", "LF", "fs") if ctx.tier == "quick" else
                ("OO", "II", "LF", "QQ", "fs", "IO", "UU", "LL", "OI", "IF"), args=["--mode", "twin"])
    return "other", (
        "Both implementations are proved against one contract where both proofs exist: the Python leaf layer "
        "(%d functions, Engine P: lookups with unusable keys report absence, writes convert first and raise "
        "TypeError with the container unchanged) and the C integer conversions (F-CONV: same accept set = "
        "representable ints, TypeError on reject) and binary searches (F-SEARCH: the C search macros satisfy the same "
        "found / insertion-point / child-selection contract as _BucketBase._search / _Tree._search). Agreement of results, exception classes, contents, shape and "
        "serialized state over call histories is the bounded relational stand-in hist_rt (twin mode)." % len(fns))
