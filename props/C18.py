from props import _generic as g


def run(ctx):
    fns = g.run_pyvc(ctx, "C18")
    ctx.standin("checkers_rt", families=tuple("OO,II".split(",")))
    return "exploration", "bounded stand-in checkers_rt (no obligation of the deductive engines serves C18 yet)"
