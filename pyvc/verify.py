"""Statements, loops, and the per-function verification driver."""
import ast
import itertools
import time
import z3

from .sym import (SV, State, Unsupported, NONE, MARKER, mk_int, mk_bool,
                  fresh, INT, BOOL, KS, ELEM_SORT, ELEM_KIND, KIND_SORT, ELEM_DEFAULT)
from .engine import Obl, FIELDS, CLASS_IDS, PERSISTENT, field_sort
from .expr import exc, exc_matches
from .spec import SpecCtx, Contract, parse_kind
from .stmt import Exec


def assigned_names(nodes):
    out = []
    for n in nodes:
        for x in ast.walk(n):
            if isinstance(x, ast.Name) and isinstance(x.ctx, ast.Store):
                if x.id not in out:
                    out.append(x.id)
    return out


class Verifier(Exec):

    # ============================================================ statements
    def block(self, stmts, st):
        """-> [(state, outcome)], outcome None | ('return',SV) | ('raise',SV)
        | ('break',) | ('continue',)"""
        outs = [(st, None)]
        for stmt in stmts:
            nxt = []
            for s, o in outs:
                if o is not None:
                    nxt.append((s, o))
                else:
                    nxt.extend(self.stmt(stmt, s))
            outs = nxt
            if not outs:
                break
        return outs

    def stmt(self, node, st):
        m = getattr(self, "st_" + type(node).__name__, None)
        if m is None:
            raise Unsupported("statement " + type(node).__name__)
        return m(node, st)

    def _lift(self, outs, fn):
        """outs of ev -> statement outcomes; fn(state, value) for normal."""
        res = []
        for s, v in outs:
            if v.kind == "exc":
                res.append((s, ("raise", v)))
            else:
                r = fn(s, v)
                res.extend(r if r is not None else [(s, None)])
        return res

    def st_Expr(self, node, st):
        if isinstance(node.value, ast.Constant):
            return [(st, None)]
        return self._lift(self.ev(node.value, st), lambda s, v: None)

    def st_Pass(self, node, st):
        return [(st, None)]

    def st_Return(self, node, st):
        if node.value is None:
            return [(st, ("return", NONE))]
        return self._lift(self.ev(node.value, st),
                          lambda s, v: [(s, ("return", v))])

    def st_Raise(self, node, st):
        if node.exc is None:
            return [(st, ("raise", st.env["$exc"]))]

        if isinstance(node.exc, ast.Call) and isinstance(node.exc.func, ast.Name) and \
                node.exc.func.id in ("TypeError", "ValueError", "KeyError", "IndexError") and \
                len(node.exc.args) == 1 and isinstance(node.exc.args[0], ast.BinOp) and \
                isinstance(node.exc.args[0].op, ast.Mod) and isinstance(node.exc.args[0].left, ast.Constant) and \
                isinstance(node.exc.args[0].left.value, str):
            # raise E("text %s" % (...)): the message is not modelled, its operands are not evaluated
            return [(st, ("raise", exc(node.exc.func.id)))]
        if isinstance(node.exc, ast.Call) and isinstance(node.exc.func, ast.Name) and \
                node.exc.func.id in ("TypeError", "ValueError", "KeyError", "IndexError") and node.exc.args and \
                all(isinstance(a, ast.JoinedStr) or (isinstance(a, ast.Call) and isinstance(a.func, ast.Attribute) and
                                                    a.func.attr == "format" and isinstance(a.func.value, ast.Constant))
                    for a in node.exc.args):
            # raise E(f"...") / E("...{}".format(..)): likewise
            return [(st, ("raise", exc(node.exc.func.id)))]

        def f(s, v):
            if v.kind == "excobj":
                e = exc(v.x)
                e.z = v.z             # constructor arguments (e.g. the conflict reason)
                return [(s, ("raise", e))]
            if v.kind == "cls":
                return [(s, ("raise", exc(v.x)))]
            raise Unsupported("raise of " + v.kind)
        return self._lift(self.ev(node.exc, st), f)

    def st_Assert(self, node, st):
        res = []
        for s, b in self.cond(node.test, st):
            if isinstance(b, SV):
                res.append((s, ("raise", b)))
            elif b:
                res.append((s, None))
            else:
                res.append((s, ("raise", exc("AssertionError"))))
        return res

    def st_FunctionDef(self, node, st):
        st.env[node.name] = SV("closure", None, (node,))
        return [(st, None)]

    def assign_to(self, s, target, v):
        """-> [(state, None|outcome)]"""
        if isinstance(target, ast.Name):
            s.env[target.id] = v
            return [(s, None)]
        if isinstance(target, (ast.Tuple, ast.List)):
            if v.kind != "tuple":
                if v.kind in ("K", "V", "int", "bool", "none"):
                    return [(s, ("raise", exc("TypeError")))]     # cannot unpack non-iterable
                raise Unsupported("unpacking of " + v.kind)
            if len(v.x) != len(target.elts):
                return [(s, ("raise", exc("ValueError")))]
            outs = [(s, None)]
            for t, x in zip(target.elts, v.x):
                outs = [y for s1, o in outs for y in
                        ([(s1, o)] if o is not None else self.assign_to(s1, t, x))]
            return outs
        if isinstance(target, ast.Attribute):
            def f(s1, obj):
                self.write_field(s1, obj, target.attr, v)
                return [(s1, None)]
            return self._lift(self.ev(target.value, s), f)
        if isinstance(target, ast.Subscript):
            res = []
            for s1, vals in self.ev_seq([target.value, target.slice], s):
                if isinstance(vals, SV):
                    res.append((s1, ("raise", vals)))
                    continue
                obj, idx = vals
                if obj.kind == "list":
                    n = self.llen(s1, obj.z)
                    for s2, i in self.norm_index(s1, n, idx, "store"):
                        if isinstance(i, SV):
                            res.append((s2, ("raise", i)))
                            continue
                        c = self.lcontent(s2, obj.z, obj.x)
                        self.u_typed(s2, v, ELEM_KIND[obj.x] if obj.x != "R" else "ref", "list.store")
                        x = self.coerce(v, ELEM_KIND[obj.x] if obj.x != "R" else "ref")
                        self.lset(s2, obj.z, obj.x, z3.Store(c, i, x))
                        res.append((s2, None))
                elif obj.kind == "ref":
                    for s2, r in self.call_method(s1, obj, "__setitem__", [idx, v], {}):
                        res.append((s2, ("raise", r) if r.kind == "exc" else None))
                else:
                    raise Unsupported("subscript store on " + obj.kind)
            return res
        raise Unsupported("assignment target " + type(target).__name__)

    def st_Assign(self, node, st):
        if isinstance(node.value, ast.List) and not node.value.elts and len(node.targets) == 1 \
                and isinstance(node.targets[0], ast.Name):
            # `x = []`: the element kind is declared by the contract (ghost local_types)
            lt = (self.cur_stack[-1].ghost.get("local_types") or {}) if self.cur_stack[-1] else {}
            ek = lt.get(node.targets[0].id)
            if ek is None:
                raise Unsupported("empty list literal assigned to %s needs ghost local_types" % node.targets[0].id)
            st.env[node.targets[0].id] = self.new_list(st, ek, z3.K(INT, ELEM_DEFAULT[ek]), z3.IntVal(0))
            return [(st, None)]

        if isinstance(node.value, ast.List) and not node.value.elts and len(node.targets) == 1 \
                and isinstance(node.targets[0], ast.Attribute) and node.targets[0].attr in FIELDS \
                and FIELDS[node.targets[0].attr][0] == "list":
            # `obj.field = []`: the element kind is the field's
            ek = FIELDS[node.targets[0].attr][1]
            v = self.new_list(st, ek, z3.K(INT, ELEM_DEFAULT[ek]), z3.IntVal(0))
            return self.assign_to(st, node.targets[0], v)
        if isinstance(node.value, ast.List) and node.value.elts and len(node.targets) == 1 \
                and isinstance(node.targets[0], ast.Name):
            lt = (self.cur_stack[-1].ghost.get("local_types") or {}) if self.cur_stack[-1] else {}
            ek = lt.get(node.targets[0].id)
            if ek == "U":
                # `x = [a, b]` with a declared union element kind: items are injected into U
                res = []
                for s, vals in self.ev_seq(node.value.elts, st):
                    if isinstance(vals, SV):
                        res.append((s, ("raise", vals)))
                        continue
                    arr = z3.K(INT, ELEM_DEFAULT["U"])
                    for i, v in enumerate(vals):
                        arr = z3.Store(arr, i, self.coerce(v, "U"))
                    s.env[node.targets[0].id] = self.new_list(s, "U", arr, z3.IntVal(len(vals)))
                    res.append((s, None))
                return res

        def f(s, v):
            outs = [(s, None)]
            for t in node.targets:
                outs = [y for s1, o in outs for y in
                        ([(s1, o)] if o is not None else self.assign_to(s1, t, v))]
            return outs
        return self._lift(self.ev(node.value, st), f)

    def st_AugAssign(self, node, st):
        load = ast.parse(ast.unparse(node.target), mode="eval").body
        ast.copy_location(load, node)
        for x in ast.walk(load):
            ast.copy_location(x, node)
        bo = ast.BinOp(left=load, op=node.op, right=node.value)
        ast.copy_location(bo, node)
        return self._lift(self.ev(bo, st),
                          lambda s, v: self.assign_to(s, node.target, v))

    def st_Delete(self, node, st):
        outs = [(st, None)]
        for t in node.targets:
            nxt = []
            for s, o in outs:
                if o is not None:
                    nxt.append((s, o))
                    continue
                if not isinstance(t, ast.Subscript):
                    raise Unsupported("del of " + type(t).__name__)
                for s1, obj in self.ev(t.value, s):
                    if obj.kind == "exc":
                        nxt.append((s1, ("raise", obj)))
                    elif obj.kind == "list":
                        for s2, r in self.list_delete(s1, obj, t):
                            nxt.append((s2, ("raise", r) if r is not None else None))
                    elif obj.kind == "ref":
                        for s2, k in self.ev(t.slice, s1):
                            for s3, r in self.call_method(s2, obj, "__delitem__", [k], {}):
                                nxt.append((s3, ("raise", r) if r.kind == "exc" else None))
                    else:
                        raise Unsupported("del on " + obj.kind)
            outs = nxt
        return outs

    def st_If(self, node, st):
        res = []
        for s, b in self.cond(node.test, st):
            if isinstance(b, SV):
                res.append((s, ("raise", b)))
            else:
                res.extend(self.block(node.body if b else node.orelse, s))
        return res

    def st_Try(self, node, st):
        if node.finalbody:
            raise Unsupported("try/finally")
        res = []
        for s, o in self.block(node.body, st):
            if o is not None and o[0] == "raise":
                e = o[1]
                handled = False
                for h in node.handlers:
                    names = None
                    if h.type is not None:
                        ts = h.type.elts if isinstance(h.type, ast.Tuple) else [h.type]
                        names = [ast.unparse(t) for t in ts]
                    mt = exc_matches(e.x[0], names)
                    if mt is None:
                        # unknown class: both "caught here" and "not caught"
                        s2 = s.copy()
                        s2.env["$exc"] = e
                        res.extend(self.block(h.body, s2))
                        continue
                    if mt:
                        s.env["$exc"] = e
                        res.extend(self.block(h.body, s))
                        handled = True
                        break
                if not handled:
                    res.append((s, o))
            elif o is None and node.orelse:
                res.extend(self.block(node.orelse, s))
            else:
                res.append((s, o))
        return res

    def st_Break(self, node, st):
        return [(st, ("break",))]

    def st_Continue(self, node, st):
        return [(st, ("continue",))]

    # ================================================================= loops
    def loop_spec(self, node):
        con = self.cur_stack[-1]
        idx = self.loop_index[id(node)]
        if con is None or idx >= len(con.loops):
            raise Unsupported("loop #%d of %s has no invariant" %
                              (idx, con.name if con else "?"))
        return idx, con.loops[idx]

    def run_loop(self, node, st, guard_fn, pre_body, targets_extra=()):
        """Cut the loop at its invariant.  guard_fn(state) -> [(state, bool|exc)];
        pre_body(state) binds the loop variable.  Returns outcomes after the loop."""
        idx, spec = self.loop_spec(node)
        con = self.cur_stack[-1]
        tag = "%s:loop%d" % (con.name, idx)
        ctx = SpecCtx(self.entry_stack[-1], st)
        # instances of proved lemmas / conservative definitions about locals hold here too
        for li, txt in enumerate(con.ghost.get("loop_lemmas") or []):
            st.assume(self.spec(txt, ctx, state=st), tag="lemma:%s" % txt.split("(")[0])
        # 1. invariant holds on entry
        for nm, txt in spec["inv"].items():
            self.oblige(st, "%s:init:%s" % (tag, nm), self.spec(txt, ctx, state=st))
        # 2. arbitrary iteration: havoc what the body assigns
        h = st.copy()
        for nm in assigned_names(node.body) + list(targets_extra):
            if nm in h.env and h.env[nm].z is not None and h.env[nm].kind in KIND_SORT:
                old = h.env[nm]
                z = fresh(nm, KIND_SORT[old.kind])
                h.env[nm] = SV(old.kind, z, old.x)
                if old.kind == "ref":
                    h.assume(z >= 0)
        for m in spec.get("modifies", []):
            self.havoc_target(h, m)
        if spec.get("allocates"):
            k = fresh("nalloc", INT)
            h.assume(k >= 0)
            h.alloc = h.alloc + k
        hctx = SpecCtx(self.entry_stack[-1], h)
        for nm, txt in spec["inv"].items():
            h.assume(self.spec(txt, hctx, state=h), tag="inv:" + nm)
        # instances of proved lemmas / conservative definitions about locals
        for txt in (con.ghost.get("loop_lemmas") or []):
            h.assume(self.spec(txt, hctx, state=h), tag="lemma:%s" % txt.split("(")[0])
        dec0 = None
        if spec.get("dec"):
            dec0 = self.sp(self.spec_expr(spec["dec"]), h, dict(h.env), hctx).z
        res = []
        for s, b in guard_fn(h):
            if isinstance(b, SV):
                res.append((s, ("raise", b)))
                continue
            if not b:
                res.extend(self.block(node.orelse, s) if node.orelse else [(s, None)])
                continue
            s.trace.append("loop%d body" % idx)
            # vacuity guard: the assumptions at the head of an arbitrary iteration
            # (invariant + lemma instances + guard) must not be contradictory
            self.oblige(s, "%s:cover-false" % tag, z3.BoolVal(False))
            outs = []
            for s1, o in pre_body(s):
                if o is not None:
                    outs.append((s1, o))
                else:
                    outs.extend(self.block(node.body, s1))
            for s1, o in outs:
                if o is None or o[0] == "continue":
                    c1 = SpecCtx(self.entry_stack[-1], s1)
                    post_step = getattr(node, "_step", None)
                    if post_step is not None:
                        post_step(s1)
                    acc = s1.copy() if spec.get("chain") else s1
                    for nm, txt in spec["inv"].items():
                        g_ = self.spec(txt, c1, state=s1)
                        self.oblige(acc, "%s:preserve:%s" % (tag, nm), g_)
                        if spec.get("chain"):
                            # clauses are proved in order; an earlier clause of the NEW state may
                            # be used for a later one (conjunction introduction)
                            acc.assume(g_, tag="new:" + nm)
                    if dec0 is not None:
                        d1 = self.sp(self.spec_expr(spec["dec"]), s1, dict(s1.env), c1).z
                        self.oblige(s1, "%s:decreases" % tag,
                                    z3.And(dec0 >= 0, d1 < dec0))
                    self.npaths += 1
                elif o[0] == "break":
                    res.append((s1, None))
                else:
                    res.append((s1, o))
        return res

    def havoc_target(self, h, m):
        env = dict(h.env)
        ctx = SpecCtx(h, h)
        only_fresh = m.startswith("freshlist:")
        if only_fresh:
            m = m[5:]
        if m.startswith("list:"):
            l = self.sp(self.spec_expr(m[5:]), h, env, ctx)
            if only_fresh:
                # a list that exists only on some paths (e.g. the values of a
                # mapping result): touched only if it was allocated by this call
                isf = l.z >= self.entry_stack[-1].alloc
                nl = fresh("hvlen", INT)
                h.assume(nl >= 0)
                if self.ground is not None:
                    h.assume(nl <= self.ground)
                self.llen(h, l.z)
                h.heap["$len"] = z3.Store(h.heap["$len"], l.z, z3.If(isf, nl, z3.Select(h.heap["$len"], l.z)))
                self.larr(h, l.x)
                arr = h.heap["$" + l.x]
                h.heap["$" + l.x] = z3.Store(arr, l.z, z3.If(isf, fresh("hv", z3.ArraySort(INT, ELEM_SORT[l.x])),
                                                             z3.Select(arr, l.z)))
                if l.x == "K":
                    self.hget(h, "$elems", l.z)
                    e = h.heap["$elems"]
                    h.heap["$elems"] = z3.Store(e, l.z, z3.If(isf, fresh("hvelems", field_sort("$elems")), z3.Select(e, l.z)))
                return
            nl = fresh("hvlen", INT)
            h.assume(nl >= 0)
            if self.ground is not None:
                h.assume(nl <= self.ground)
            self.llen(h, l.z)
            h.heap["$len"] = z3.Store(h.heap["$len"], l.z, nl)
            self.larr(h, l.x)
            h.heap["$" + l.x] = z3.Store(h.heap["$" + l.x], l.z,
                                         fresh("hv", z3.ArraySort(INT, ELEM_SORT[l.x])))
            if l.x == "K":
                # the ghost key set of the list changes with it
                self.hget(h, "$elems", l.z)
                h.heap["$elems"] = z3.Store(h.heap["$elems"], l.z, fresh("hvelems", field_sort("$elems")))
        else:
            objtxt, fld = m.rsplit(".", 1)
            o = self.sp(self.spec_expr(objtxt), h, env, ctx)
            fs = "$changed" if fld == "_p_changed" else fld
            self.hget(h, fs, o.z)
            h.heap[fs] = z3.Store(h.heap[fs], o.z, fresh("hv", field_sort(fs)))

    PURE_NODES = (ast.BoolOp, ast.And, ast.Or, ast.UnaryOp, ast.Not, ast.Name, ast.Attribute, ast.Load,
                  ast.Compare, ast.Is, ast.IsNot, ast.Eq, ast.NotEq, ast.Lt, ast.LtE, ast.Gt, ast.GtE, ast.Constant)

    def pure_guard(self, test, s):
        """A loop guard made of names, attribute reads, and/or/not and
        identity/integer comparisons has no side effects and cannot raise:
        it is evaluated to ONE formula, so that the loop has one exit state
        instead of one per short-circuit alternative."""
        if not all(isinstance(x, self.PURE_NODES) for x in ast.walk(test)):
            return None
        for x in ast.walk(test):
            if isinstance(x, ast.Compare):
                return None if any(not isinstance(o, (ast.Is, ast.IsNot)) for o in x.ops) else None
        try:
            v = self.sp(test, s, dict(s.env), None)
        except Exception:
            return None
        if v.kind == "ref" and v.x not in (None, "_SetIteration", "_TreeItem"):
            return None          # truthiness of containers is handled by cond()
        try:
            return self.as_bool(s, v)
        except Unsupported:
            return None

    def st_While(self, node, st):
        def guard(s):
            g = self.pure_guard(node.test, s) if self.cur_stack[-1].ghost.get("single_exit") else None
            if g is not None:
                return self.fork(s, g, "while_L%d" % node.lineno)
            return self.cond(node.test, s)
        return self.run_loop(node, st, guard, lambda s: [(s, None)])

    def st_For(self, node, st):
        if not isinstance(node.target, ast.Name):
            raise Unsupported("for target")
        var = node.target.id
        cnt = var + "__next"
        res = []
        it = node.iter
        if isinstance(it, ast.Call) and isinstance(it.func, ast.Name) and it.func.id == "range":
            for s, args in self.ev_seq(it.args, st):
                if isinstance(args, SV):
                    res.append((s, ("raise", args)))
                    continue
                if len(args) == 1:
                    lo, hi, step = z3.IntVal(0), args[0].z, 1
                elif len(args) == 2:
                    lo, hi, step = args[0].z, args[1].z, 1
                else:
                    lo, hi = args[0].z, args[1].z
                    step = z3.simplify(args[2].z).as_long()
                    if step <= 0:
                        raise Unsupported("range step")
                s.env[cnt] = mk_int(lo)
                s.env[var + "__hi"] = mk_int(hi)

                def guard(h, hi=hi):
                    return self.fork(h, h.env[cnt].z < hi, "for_%s" % var)

                def pre(h, step=step):
                    h.env[var] = h.env[cnt]
                    h.env[cnt] = mk_int(h.env[cnt].z + step)
                    return [(h, None)]
                res.extend(self.run_loop(node, s, guard, pre, targets_extra=[cnt, var]))
            return res
        for s, seq in self.ev(it, st):
            if seq.kind == "exc":
                res.append((s, ("raise", seq)))
                continue
            if seq.kind == "list":
                s.env[cnt] = mk_int(0)

                def guard(h, seq=seq):
                    return self.fork(h, h.env[cnt].z < self.llen(h, seq.z), "for_%s" % var)

                def pre(h, seq=seq):
                    c = self.lcontent(h, seq.z, seq.x)
                    h.env[var] = SV(ELEM_KIND[seq.x], z3.Select(c, h.env[cnt].z))
                    h.env[cnt] = mk_int(h.env[cnt].z + 1)
                    return [(h, None)]
                s.env.setdefault(var, SV(ELEM_KIND[seq.x], fresh(var, ELEM_SORT[seq.x])))
                res.extend(self.run_loop(node, s, guard, pre, targets_extra=[cnt, var]))
                continue
            if seq.kind == "listiter":
                # continue a list iterator from its current position (iter(l); next(it); for x in it)
                elem, posname = seq.x
                s.env[cnt] = s.env[posname]

                def guard(h, seq=seq):
                    return self.fork(h, h.env[cnt].z < self.llen(h, seq.z), "for_%s" % var)

                def pre(h, seq=seq, elem=elem, posname=posname):
                    c = self.lcontent(h, seq.z, elem)
                    h.env[var] = SV(ELEM_KIND[elem], z3.Select(c, h.env[cnt].z))
                    h.env[cnt] = mk_int(h.env[cnt].z + 1)
                    h.env[posname] = h.env[cnt]
                    return [(h, None)]
                s.env.setdefault(var, SV(ELEM_KIND[elem], fresh(var, ELEM_SORT[elem])))
                res.extend(self.run_loop(node, s, guard, pre, targets_extra=[cnt, var, posname]))
                continue
            if seq.kind == "iter":
                # abstract iterable: unknown length, arbitrary elements of the
                # declared kind(s); elements may also make unpacking fail
                s.env[cnt] = mk_int(0)

                def guard(h):
                    return self.fork(h, fresh("more", BOOL), "for_%s" % var)

                def pre(h, seq=seq):
                    h.env[var] = self.mk_value(h, seq.x, var)
                    h.env[cnt] = mk_int(h.env[cnt].z + 1)
                    return [(h, None)]
                res.extend(self.run_loop(node, s, guard, pre, targets_extra=[cnt]))
                continue
            raise Unsupported("for over " + seq.kind)
        return res

    # ======================================================== function driver
    def initial_state(self, con, fdef, kinds):
        st = State()
        st.alloc = z3.Int("alloc0")
        st.assume(st.alloc > 0)
        st.ghost["RC"] = z3.Const("RC0", z3.ArraySort(INT, BOOL))
        names = [a.arg for a in fdef.args.args] + list(self.fwd_names)
        if self.fwd_names:
            st.env["$fwd"] = SV("fwd", None, list(self.fwd_names))
        for nm in names:
            if nm == "self" and isinstance(con.cls, str) and con.cls.startswith("dt:"):
                st.env[nm] = SV("dtype", None, con.cls[3:])     # a data type of _datatypes.py (pyvc/dtypes.py)
                st.env["$defcls"] = SV("str", None, self._dt_defcls)
                continue
            if nm == "self":
                z = z3.Int("self")
                st.assume(z > 0)
                st.assume(z < st.alloc)
                if isinstance(con.cls, list):
                    st.env[nm] = SV("ref", z, None)
                    cid = self.hget(st, "$cls", z)
                    st.assume(z3.Or(*[cid == CLASS_IDS[c] for c in con.cls]))
                else:
                    st.env[nm] = SV("ref", z, con.cls)
                    if con.cls in CLASS_IDS:
                        st.assume(self.hget(st, "$cls", z) == CLASS_IDS[con.cls])
                continue
            k = kinds[nm]
            v = self.mk_value(st, k, nm)
            for r in self.refs_in(v):
                st.assume(r < st.alloc)
            if v.kind == "any" and isinstance(con.cls, str) and con.cls.startswith("dt:"):
                from .dtypes import wellformed
                st.assume(wellformed(v.z))
            st.env[nm] = v
        return st

    def refs_in(self, v):
        if v.kind in ("ref", "list"):
            return [v.z]
        if v.kind == "tuple":
            return [r for x in v.x for r in self.refs_in(x)]
        return []

    def heap_axioms(self, st0_alloc, fields):
        """Well-formedness of the initial heap: lengths >= 0, closedness."""
        ax = []
        o, i = z3.Int("o!ax"), z3.Int("i!ax")
        for f in fields:
            if f == "$len":
                a = z3.Const("H0_len", z3.ArraySort(INT, INT))
                body = z3.Select(a, o) >= 0
                if self.ground is not None:
                    body = z3.And(body, z3.Select(a, o) <= self.ground)
                ax.append(z3.ForAll([o], body))
            elif f == "$R":
                a = z3.Const("H0_LR", z3.ArraySort(INT, z3.ArraySort(INT, INT)))
                ax.append(z3.ForAll([o, i], z3.Implies(
                    z3.And(o > 0, o < st0_alloc),
                    z3.And(z3.Select(z3.Select(a, o), i) >= 1,       # lists of objects (_data: _TreeItem) hold no None
                           z3.Select(z3.Select(a, o), i) < st0_alloc))))
            elif f in FIELDS and FIELDS[f][0] in ("ref", "list"):
                a = z3.Const("H0_" + f, z3.ArraySort(INT, INT))
                lo = 0 if FIELDS[f][0] == "ref" else 1
                ax.append(z3.ForAll([o], z3.Implies(
                    z3.And(o > 0, o < st0_alloc),
                    z3.And(z3.Select(a, o) >= lo, z3.Select(a, o) < st0_alloc))))
        return ax

    def verify_function(self, con, cover_only=False, cases=None):
        """Generate all obligations of one function under contract."""
        self.cur = con
        self.compare_error_paths = 0
        fdef = self.sources[con.ghost.get("of", con.name)]
        if isinstance(con.cls, str) and con.cls.startswith("dt:"):
            # the converter a data type really runs: resolved through the MRO of the real classes, so that an
            # override added in a subclass is what gets verified (pyvc/dtypes.py)
            hit = self.dt_lookup(con.cls[3:], con.ghost.get("of", con.name).split(".")[-1])
            if hit is None or hit[0] != "method":
                raise Unsupported("%s: no such method on data type %s" % (con.name, con.cls[3:]))
            fdef = hit[1]
            self._dt_defcls = hit[2]
        self.loop_index = {}
        k = 0
        for x in ast.walk(fdef):
            if isinstance(x, (ast.While, ast.For)):
                self.loop_index[id(x)] = k
                k += 1
        # case split over declared parameter alternatives
        pnames = [a.arg for a in fdef.args.args if a.arg != "self"]
        self.fwd_names = []
        if fdef.args.vararg or fdef.args.kwarg:
            tgt = con.ghost.get("forward")
            if con.ghost.get("ignore_star"):
                tgt = None
            elif not tgt:
                raise Unsupported("%s takes *args/**kw and declares no forward target" % con.name)
            if tgt:
                self.fwd_names = [a.arg for a in self.sources[tgt].args.args if a.arg != "self"]
                pnames = pnames + self.fwd_names
        alts = []
        for nm in pnames:
            spec = con.params.get(nm)
            if spec is None:
                raise Unsupported("%s: parameter %s has no declared kind" % (con.name, nm))
            alts.append(spec if isinstance(spec, list) else [spec])
        ncases = 0
        for ci, combo in enumerate(itertools.product(*alts)):
            if cases is not None and ci not in cases:
                continue
            kinds = dict(zip(pnames, combo))
            st = self.initial_state(con, fdef, kinds)
            case = ",".join("%s=%s" % (n, c if isinstance(c, str) else "tuple")
                            for n, c in kinds.items())
            pre = st.copy()
            ctx0 = SpecCtx(pre, pre)
            for nm, txt in con.requires.items():
                st.assume(self.spec(txt, ctx0, state=st), tag="req:" + nm)
            # derived ghost fields of the receiver hold their defining value on entry (they were
            # refreshed at the exit of whatever produced this state): unfolds e.g. $wf[self]
            for fld, txt in (con.ghost.get("derive") or {}).items():
                if txt.startswith("@and_ensures:"):
                    import fnmatch as _fn
                    pat, _, extra = txt[len("@and_ensures:"):].partition("|")
                    parts = [self.spec(etxt, ctx0, state=st) for nm, etxt in con.ensures.items() if _fn.fnmatchcase(nm, pat)]
                    if extra:
                        parts.append(self.spec(extra, ctx0, state=st))
                    z = z3.And(*parts) if parts else z3.BoolVal(True)
                else:
                    v = self.sp(self.spec_expr(txt), st, dict(st.env), ctx0)
                    z = v.z if v.kind != "none" else z3.IntVal(0)
                st.assume(self.hget(st, fld, st.env["self"].z) == z, tag="unfold:" + fld)
            pre.pc = list(st.pc)
            pre.heap = dict(st.heap)
            self.cur_stack = [con]
            self.entry_stack = [pre]
            # instances of separately proved lemmas / definitions (contract ghost
            # 'lemma_instances'): part of what the cover query must find satisfiable
            cover_pc = list(st.pc)
            from .engine import _has_quant
            for nm, txt in con.ghost.get("lemma_instances", {}).items():
                f = self.spec(txt, ctx0, state=st)
                st.assume(f, tag="lemmainst:" + nm)
                if not _has_quant(f):       # grounded definitions take part in the cover query;
                    cover_pc.append(f)      # quantified instances of PROVED lemmas cannot make it vacuous
            # cover: the precondition (with the assumed definitions) is satisfiable
            self.covers.append(("%s:cover:requires[%s]" % (con.name, case), cover_pc))
            if cover_only:
                continue
            st.trace.append(case)
            outs = self.block(fdef.body, st)
            for s, o in outs:
                self.npaths += 1
                self.finish_path(con, pre, s, o, case)
            ncases += 1
        return ncases

    def derive_node(self, con, st, obj, ctx):
        """Refresh the derived summaries ($fst, $succ, $wf) of interior node `obj` from its state in
        `st` (ghost 'derive_obj': the same texts as for the receiver, with `self` bound to obj).
        -> the clause goals $wf was built from."""
        d = con.ghost.get("derive_obj")
        env = dict(st.env)
        env["self"] = obj
        goals = {}
        for k, txt in d["wf"].items():
            goals[k] = self.spec(txt, ctx, env=env, state=st)
        for fld, txt in d["texts"].items():
            v = self.sp(self.spec_expr(txt), st, env, ctx)
            self.hset(st, fld, obj.z, v.z if v.kind != "none" else z3.IntVal(0))
        parts = list(goals.values())
        if d.get("extra"):
            parts.append(self.spec(d["extra"], ctx, env=env, state=st))
        self.hset(st, "$wf", obj.z, z3.And(*parts) if parts else z3.BoolVal(True))
        return goals

    def finish_path(self, con, pre, s, o, case):
        ctx = SpecCtx(pre, s)
        # derived ghost fields of the receiver (summaries that are DEFINED by its state, e.g. the
        # first leaf of a node's subtree): refreshed from the final state at every exit
        pre_goals = {}
        for fld, txt in (con.ghost.get("derive") or {}).items():
            env0 = dict(pre.env)
            if txt.startswith("@and_ensures:"):
                # a boolean summary DEFINED as the conjunction of some postcondition clauses: built from
                # the very terms of those clauses, so that it follows from them propositionally
                import fnmatch as _fn
                pat, _, extra = txt[len("@and_ensures:"):].partition("|")
                if o is None or o[0] == "return":
                    env1 = dict(env0)
                    env1["result"] = o[1] if o is not None else NONE
                    parts = []
                    for nm, etxt in con.ensures.items():
                        if _fn.fnmatchcase(nm, pat):
                            g_ = self.spec(etxt, ctx, env=env1, state=s)
                            pre_goals[nm] = g_
                            parts.append(g_)
                    if extra:
                        parts.append(self.spec(extra, ctx, env=env1, state=s))
                    self.hset(s, fld, pre.env["self"].z, z3.And(*parts) if parts else z3.BoolVal(True))
                continue
            v = self.sp(self.spec_expr(txt), s, env0, ctx)
            z = v.z if v.kind != "none" else z3.IntVal(0)
            self.hset(s, fld, pre.env["self"].z, z)
        # the same summaries for a node this function RETURNS (a split's new sibling)
        dr = con.ghost.get("derive_result")
        if dr and o is not None and o[0] == "return" and o[1].kind == "ref":
            goals = self.derive_node(con, s, o[1], ctx)
            for k, g_ in goals.items():
                pre_goals[dr + k] = g_
        self._pre_goals = pre_goals
        if o is None:
            o = ("return", NONE)
        if o[0] == "return":
            wit = {}
            for wn, wtxt in con.ghost.get("witness", {}).items():
                lenv = dict(s.env)             # the function's locals at `return` (a local
                lenv["returned"] = o[1]        # named `result` stays visible; the value
                try:
                    wit[wn] = self.sp(self.spec_expr(wtxt), s, lenv, ctx)   # returned is `returned`)
                except Unsupported as e:
                    # the witness is a local of the function.  If the function does assign it somewhere but
                    # it does not exist on THIS return path, the function returns without having built what
                    # the postcondition is about (an early return): the postcondition cannot hold here.
                    # (A local that is assigned nowhere was renamed: that stays a checker error.)
                    missing = str(e).split("unknown name ")[-1].strip() if "unknown name" in str(e) else None
                    fdef_ = self.sources[con.ghost.get("of", con.name)]
                    if missing and missing in assigned_names(fdef_.body):
                        self.oblige(s, "%s:post:returns-without-%s" % (con.name, missing), z3.BoolVal(False),
                                    "the function returns on this path before its local `%s` exists; the "
                                    "postcondition speaks about it; path %s" % (missing, " / ".join(s.trace[-8:])))
                        return
                    raise
            s.env = dict(pre.env)
            s.env.update(wit)
            s.env["result"] = o[1]
            if con.returns == "int" and o[1].kind == "any" and isinstance(con.cls, str) and con.cls.startswith("dt:"):
                # the converter hands back the argument object itself: fine exactly if that is a plain int
                from .dtypes import PY_EXACTINT, PY_IVAL
                self.oblige(s, "%s:returns-kind:plain-int" % con.name, PY_EXACTINT(o[1].z),
                            "the argument object itself is returned; it must be a plain int (not a subclass, not an "
                            "object with __index__); path %s" % " / ".join(s.trace[-8:]))
                o = ("return", mk_int(PY_IVAL(o[1].z)))
                s.env["result"] = o[1]
            if con.returns is not None:
                alts = con.returns if isinstance(con.returns, list) else [con.returns]
                if not any(self.shape_ok(o[1], a) for a in alts):
                    self.oblige(s, "%s:returns-kind" % con.name, z3.BoolVal(False),
                                "returned %s, contract says %s" % (self.shape(o[1]), alts))
                    return
                if o[1].kind == "none" and any(
                        not isinstance(a, tuple) and parse_kind(a)[0] == "ref" for a in alts):
                    s.env["result"] = SV("ref", z3.IntVal(0))
            acc = s.copy() if con.ghost.get("chain_post") else s
            for nm, txt in con.ensures.items():
                if self.mode == "evict" and (" is old(" in txt or "fresh(" in txt):
                    continue      # object identity of the lists is not preserved across a reload
                try:
                    goal = self._pre_goals.get(nm)
                    if goal is None:
                        goal = self.spec(txt, ctx, state=s)
                    detail = ""
                    if con.ghost.get("chain_post"):
                        # postcondition clauses are proved in order; an earlier one may be used for a later one
                        self.oblige(acc, "%s:post:%s" % (con.name, nm), goal, detail)
                        acc.assume(goal, tag="newpost:" + nm)
                        continue
                except Unsupported as e:
                    # the clause speaks about a value of another kind than the one
                    # returned on this path (e.g. a container was promised, an
                    # operand came back): the clause does not hold of it
                    goal = z3.BoolVal(False)
                    detail = "clause not meaningful for the returned %s value: %s; path %s" % (
                        o[1].kind, e, " / ".join(s.trace[-8:]))
                self.oblige(s, "%s:post:%s" % (con.name, nm), goal, detail)
            self.frame_obligations(con, pre, s, "post")
        elif o[0] == "raise":
            ecls = o[1].x[0]
            local_env = dict(s.env)
            if isinstance(o[1].z, list):
                local_env["exc_args"] = SV("tuple", None, o[1].z)
            # ghost assertions at the raise site (locals visible): "this refusal is justified"
            from_callee = str(o[1].x[1] or "").startswith("callee:")
            for nm, txt in (con.ghost.get("at_raise", {}).get(ecls) or {}).items():
                if from_callee and con.ghost.get("at_raise_local_only"):
                    continue        # raised by a callee: justified by the callee's own contract
                try:
                    goal = self.spec(txt, ctx, env=local_env, state=s)
                except Unsupported as e:
                    goal = z3.BoolVal(False)
                self.oblige(s, "%s:at-raise[%s]:%s" % (con.name, ecls, nm), goal)
            s.env = dict(pre.env)
            if isinstance(o[1].z, list):
                s.env["exc_args"] = SV("tuple", None, o[1].z)
            if self.mode == "faulty" and ecls == "TypeError" and s.ghost.get("cmp_typeerror"):
                ecls = "CompareError"     # a TypeError raised by the comparison itself
            if ecls == "CompareError" and self.mode == "faulty" and ecls not in con.raises:
                # C14: a failing key comparison must reach the caller and leave
                # every object as it was (or as the contract says under
                # ghost['on_compare_error'])
                for nm, txt in con.ghost.get("on_compare_error", {}).items():
                    self.oblige(s, "%s:raise[CompareError]:%s" % (con.name, nm),
                                self.spec(txt, ctx, state=s))
                self.frame_obligations(con, pre, s, "raise[CompareError]",
                                       modifies=con.ghost.get("on_compare_error_modifies", []))
                self.compare_error_paths += 1
                return
            if ecls not in con.raises and "*" in con.raises:
                ecls = "*"
            if ecls not in con.raises:
                self.oblige(s, "%s:raises-only[%s]" % (con.name, ecls), z3.BoolVal(False),
                            "raises %s (allowed: %s) on path %s" %
                            (ecls, sorted(con.raises), " / ".join(s.trace[-10:])))
                return
            for nm, txt in con.raises[ecls].items():
                self.oblige(s, "%s:raise[%s]:%s" % (con.name, ecls, nm),
                            self.spec(txt, ctx, state=s))
            if not con.ghost.get("raise_modifies", False):
                saved = con.modifies
                con_mod = []
                self.frame_obligations(con, pre, s, "raise[%s]" % ecls, modifies=con_mod)
            else:
                self.frame_obligations(con, pre, s, "raise[%s]" % ecls)
        else:
            raise Unsupported("loop control outside loop")

    def shape(self, v):
        if v.kind == "tuple":
            return ("tuple", [self.shape(x) for x in v.x])
        return v.kind

    def shape_ok(self, v, spec):
        if isinstance(spec, tuple):
            return v.kind == "tuple" and len(v.x) == len(spec[1]) and \
                all(self.shape_ok(x, a) for x, a in zip(v.x, spec[1]))
        want = parse_kind(spec)[0]
        got = v.kind
        return got == want or (want == "ref" and got == "none") or \
            (want == "V" and got == "int") or (want == "int" and got == "bool") or want == "dyn"

    def frame_obligations(self, con, pre, s, tag, modifies=None):
        """Everything not listed in `modifies` and not fresh is unchanged."""
        if con.ghost.get("no_frame") or self.mode == "evict":
            return
        mods = con.modifies if modifies is None else modifies
        tmp = Contract("tmp", modifies=mods)
        targets = self.mod_targets(pre, tmp, dict(pre.env))
        o = z3.Int("o!fr")
        for fld, arr in s.heap.items():
            a0 = pre.heap.get(fld)
            if a0 is None:
                a0 = self._h0(fld)
            if a0 is None or arr.eq(a0):
                continue
            if fld == "$cls":
                continue
            allowed = [t for f, t in targets if f == fld or
                       (f == "_p_changed" and fld == "$changed")]
            cond = z3.And(o > 0, o < pre.alloc, *[o != t for t in allowed])
            self.oblige(s, "%s:%s:frame:%s" % (con.name, tag, fld.strip("$")),
                        z3.ForAll([o], z3.Implies(cond, z3.Select(arr, o) == z3.Select(a0, o))))

    def _h0(self, fld):
        if fld == "$len":
            return z3.Const("H0_len", z3.ArraySort(INT, INT))
        if fld in ("$K", "$V", "$R", "$I", "$A"):
            return z3.Const("H0_L" + fld[1:], z3.ArraySort(INT, z3.ArraySort(INT, ELEM_SORT[fld[1:]])))
        try:
            return z3.Const("H0_" + fld.strip("$"), z3.ArraySort(INT, field_sort(fld)))
        except KeyError:
            return None
