"""C06 - serialized state round-trips, identically in C and Python."""
from props import _generic as g


def run(ctx):
    fns = g.run_pyvc(ctx, "C06")
    ctx.standin("pickle_rt", families=tuple("OO,II,LF,fs".split(",")))
    return "other", (
        "Engine P: the state functions of the pure-Python implementation are under contract (%d targets: %s): "
        "__getstate__ emits the documented tuple (interleaved keys/values resp. keys, successor link iff present), "
        "__setstate__ reads it back (TypeError exactly for a non-tuple first element), and the round trip "
        "x.__setstate__(y.__getstate__()) restores the ordered contents and the link (lemma programs over the "
        "contracts; sortedness is carried over). State items are a union sort; every use of an item as key/value/child "
        "carries its own typing obligation. pickle/copy, byte identity between C and Python and the C state code are "
        "outside both engines: bounded stand-in pickle_rt." % (len(fns), ", ".join(fns)))
