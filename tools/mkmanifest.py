#!/usr/bin/env python3
"""Regenerates /verif/MANIFEST.json from the table below (the only place where
claims are edited).  A property is claimed only when its props/Cxx.py module
and everything it calls exist."""
import json
import os
import sys

HERE = os.path.dirname(os.path.dirname(os.path.abspath(__file__)))

T_P = ("contract-based deductive verification of the real Python source: sidecar contracts, "
       "ast -> verification conditions (Engine P, /verif/pyvc) discharged by z3")
T_C = ("contract-based deductive verification of the real C translation units: clang JSON AST of the "
       "macro-expanded code -> verification conditions (Engine C, /verif/cvc) discharged by z3")
BOUNDED = "; remaining functions by a bounded run-time contract stand-in (labelled bounded, never counted as proved)"

# id: (ready, category, technique, level text, level_note, design_ref)
PROPS = {
 "C01": (True, "proof", T_P + "; " + T_C + BOUNDED,
         "Proved for all inputs: the whole leaf layer of the Python implementation (search, insert/replace/delete, "
         "lookups, setdefault/pop, split, clear) against whole-view postconditions, plus _Tree._search and compare; C: every "
         "expansion of the binary-search macros BUCKET_SEARCH / BTREE_SEARCH in the integer-keyed translation units (F-SEARCH: found "
         "<=> key at the returned index, absent => insertion point, interior nodes pick the child whose separator range holds the key, "
         "reads in bounds, no int overflow, termination - for all lengths, contents and keys); _bucket_set - insert / replace / delete "
         "in a C leaf - against the whole-view contract with Bucket_grow executed in place (F-LEAF: exactly one slot inserted / "
         "changed / removed, every other entry untouched, keys stay strictly ascending, nothing changed on rejection or failure); the first-bucket protocol of deletions in "
         "_BTree_set (F-UNLINK: the left sibling unlinks, status 2 only from the first child). "
         "Bounded: the interior-node level of both implementations and the rest of the C leaf layer (hist_rt, model mode, incl. in-place "
         "operators with self / repeating operands and rejected writes on empty trees).",
         "A1 Python semantics as encoded, A2 total order on keys, A3 persistent.__setattr__, A5, A6, A7 z3 + VC generator; "
         "F-SEARCH / F-LEAF assume the vector ascending at the start of a search, len <= INT_MAX/2, realloc / malloc blocks overlapping "
         "no live block, noval passed only for set leaves; "
         "L-hist (refinement implies histories) is argued in DESIGN.md 5.4, not machine-checked", "7/C01 and 13.2"),
 "C02": (True, "proof", T_P + "; " + T_C + BOUNDED,
         "Proved (Python): _range for every bound/flag combination, keys/values slices, leaf minKey/maxKey against the interval oracle "
         "of the statement; at the interior level _Tree.maxKey(b) returns the greatest key <= b of the whole subtree also through "
         "stale separators and raises ValueError only if no key qualifies (order view: least/greatest key and key-set summaries of "
         "the children, node-local); _Tree.keys hands the lazy sequence exactly the requested interval (converted min, the overall "
         "smallest / largest key for an exclusive omitted bound, unchanged flags, the start leaf found with the converted min); C: the "
         "searches that locate a range end are exact (F-SEARCH on Bucket_findRangeEnd / BTree_findRangeEnd, integer-keyed units) and "
         "Bucket_findRangeEnd returns the exact end of the range on a leaf (least key >= / > b, greatest key <= / < b, 0 iff none). "
         "Bounded: _Tree.minKey, the lazy sequences (_TreeItems / BTreeItems), tree-level range search "
         "of both implementations on every reached shape incl. stale separators and None as the smallest key (range_rt).",
         "A1, A2, A7; _Tree.minKey of a child subtree is an assumed contract in the order view; recorded finding: empty-leaf "
         "minKey()/maxKey() raising IndexError in Python; fixed this session: None as smallest key with an exclusive omitted min (5df0066)", "7/C02, 12.11 and 13"),
 "C03": (True, "proof", T_P + "; " + T_C + BOUNDED,
         "Proved (Python, all trees): every mutator of the interior-node layer (_Tree._set, _grow, _split, _split_root, _del, "
         "_deleteNextBucket; structural view, node-local with children abstracted by first-leaf / successor-link summaries) "
         "preserves exactly the clauses _check() tests, incl. the first-leaf hand-off of deletions, the linking of split halves "
         "and the root split; leaf split / unlink / sortedness; _check itself returns normally iff those clauses hold. C: bucket_split "
         "and BTree_split (F-SPLIT, loop-free: exact halves, non-empty, chain re-linked / firstbucket of the new node, registered; "
         "unchanged on a failed allocation); the first-bucket protocol of deletions in _BTree_set (F-UNLINK). "
         "Bounded: key containment within separator ranges, size limits, the rest of the C implementation (hist_rt wf mode).",
         "A1-A3, A7, A8b (an operation on a child changes only that child's subtree: the modifies lists; the same frame is what the "
         "contract claims for the node itself), node sizes >= 1; L-height argued in DESIGN.md 5.4; _Tree.minKey assumed total on a "
         "non-empty subtree", "7/C03 and 12.7"),
 "C06": (True, "other", T_P + "; " + T_C + BOUNDED,
         'Proved (Python): Bucket/Set __getstate__ emit the documented tuple, __setstate__ reads it back (TypeError exactly for a non-tuple), and the round trip x.__setstate__(y.__getstate__()) restores ordered contents, link and sortedness (lemma programs over the contracts); the tree state functions likewise. C: bucket_getstate emits exactly the documented tuple for every length and content (F-STATE). Bounded: C __setstate__ and tree states, pickle protocols 0-5, copy, C/Python byte identity and cross-loading, stored containers (pickle_rt).',
         'A1, A7; pickle/copy and the C state code are outside both engines; recorded findings (non-root node inlining its only leaf, copy.copy of a Python tree, fs memo sharing)', "7/C06 and 12"),
 "C07": (True, "proof", T_P + "; bounded exhaustive run-time contract stand-in (merge_rt) for the C implementation and reason-code agreement",
         "Proved (Python, both leaf kinds, all six loops): the merge is returned exactly when the statement says - on a normal return the state holds, in key order, exactly C's entry for keys C changed and N's entry otherwise (values included), no key changed by both, first-key rule, equal links, non-empty sides and merge; every raise site is justified by its reason class; only BTreesConflictError is raised; one-leaf tree states unwrap, multi-leaf states are refused (reason 11). Bounded, exhaustive over the stated scope: the C implementation and reason-code agreement (merge_rt).",
         'A1, A2, A7; _SetIteration.__init__ over a leaf is an assumed contract; quick tier verifies the state-shape cases listed in evidence (all 27 per function in the thorough tier); recorded finding: malformed leaf states', "7/C07 and 12"),
 "C09": (True, "other", T_P + "; " + T_C + BOUNDED,
         "Both implementations proved against one contract where both proofs exist (Python leaf layer and tree entry "
         "points convert first / report absence; the _datatypes converters accept exactly the representable ints and return a plain "
         "int - the C integer conversions F-CONV have the same accept set; binary searches: _BucketBase._search / _Tree._search and the "
         "C macros (F-SEARCH) meet one contract; weightedUnion / weightedIntersection against the documented formula); agreement over "
         "histories is the bounded relational stand-in (hist_rt twin mode).",
         "A1-A7; two recorded findings (TreeSet &= shape, empty-leaf minKey)", "7/C09"),
 "C10": (True, "proof", T_P + "; " + T_C + BOUNDED,
         'Proved for all strictly ascending operand sequences: Python union, intersection and difference return a new, strictly sorted container whose key set is exactly the mathematical result, None rules, operands unmodified; cursor and prefix-set lemmas proved; every loop head carries a vacuity guard (which found and removed an unsoundness of the earlier proofs, DESIGN 12.1). C: the set-algebra entry points access operand vectors only on activated nodes (T-USE). Bounded: C results, operators, in-place forms, plain iterables, lazy views, stored/ghost operands (setop_rt).',
         'A1-A4b, A7; _SetIteration.__init__ is an ASSUMED contract; five recorded findings (duplicates, reflected operators, ^= with duplicates, generators, rsub with mappings)', "7/C10 and 12"),
 "C11": (True, "other", T_C + BOUNDED,
         "Proved per translation unit: (F-SORT, bit-vector validity over the declared key type) the pile order of the most significant "
         "radix pass agrees with KEY_TYPE's order; (F-UNIQ) uniq(out, in, n) - the step that makes the sorted vector duplicate-free - "
         "from its real body for every n and content: strictly ascending output, same key set as the input, copies and writes in "
         "bounds. Bounded: everything else of multiunion - distribution passes, quicksort, "
         "gather, Python fallback (multiunion_rt, both sides of the 800-element switch, extremes, top-bit keys).",
         "A5, A6, A7; F-SORT assumes the other passes are stable distribution sorts, F-UNIQ assumes its input ascending (both bounded)", "7/C11 and 13.2b"),
 "C12": (True, "proof", T_P + BOUNDED,
         'Proved (Python): weightedUnion / weightedIntersection from their real bodies with the real MERGE and apply_weight inlined: None rules and weights, new strictly sorted container of the documented kind, exact key set, and value[r] == v1*w1 + v2*w2 (set member counts one, lone key v*w) for every result position incl. the operand swap; value arithmetic is uninterpreted (+ commutative), so the clause is the formula itself for every numeric family. Bounded: the C implementation, None keys, all operand kinds (weighted_rt).',
         'A1, A2, A7; attached:* obligations tie MERGE/MERGE_WEIGHT/MERGE_DEFAULT to _module_builder/_datatypes as read from source; _SetIteration.__init__ assumed', "7/C12 and 12"),
 "C13": (True, "proof", T_C + "; " + T_P + BOUNDED,
         "Proved, loop-free and complete per site: every integer and float conversion site of the C translation units "
         "(accept exactly the representable ints, exact value, TypeError on reject); Python: the converters of _datatypes.py "
         "(I, U, L, Q, f, s, O, Any - what every family uses as _to_key / _to_value) for ALL Python objects: a plain int in the "
         "declared range equal to the argument's integer value or TypeError, nothing else (found and fixed: int(item) vs "
         "operator.index(item), 162ce2c); tree and leaf entry points "
         "convert before they mutate and report absence for unconvertible lookup keys. Bounded: boundary grid through "
         "every entry point, float families (conv_rt).",
         "A4 API contracts of PyLong_AsLong & co., A5 clang AST == compiled code, A7; trusted: operator.index / int / struct pack "
         "(pyvc/dtypes.py); floats are opaque handles "
         "(rounding facts not proved); recorded findings for float range, setstate, default-comparison lookups", "7/C13"),
 "C18": (True, "other", T_P + "; " + T_C + BOUNDED,
         "Proved (Python): Checker.check_sorted records an error exactly when a key violates its bounds or the order; _Tree._check returns normally iff the node-local pointer clauses hold and every child was checked with its successor's first bucket, and raises AssertionError only if a local clause fails. C: BTree_check_inner reads its children only when activated (T-USE). Bounded: valid trees (also stored, with every ghost pattern) accepted and every single corruption of the catalogue at every position of 2-4 level trees rejected, both implementations (checkers_rt).",
         'Checker.complain abstracted; Walker.walk not under contract; recorded finding: None as bound sentinel; fixed: C _check accepted an empty interior node (4418969)', "7/C18 and 12"),
 "C19": (True, "proof", T_P,
         "Proved for unbounded integers: every method of BTrees.Length, the resolution formula in both orders. "
         "Pickle/copy survival is a bounded run-time check.", "A1, A7", "7/C19"),
 "C04": (True, "proof", T_P + "; " + T_C + BOUNDED,
         "Proved (Python): every leaf mutator requests registration exactly when the leaf's serialised state changes; every "
         "interior-node mutator (struct view: _set, _grow, _split_root, _del) registers every change of the node's own state "
         "(child list, separators, first bucket) and the change of an embedded oid-less leaf (thorough tier; C03 runs the same "
         "proofs in the quick tier). Proved (C): T-DIRTY - on every success exit, every node whose serialised state was written in "
         "the activation is registered, freshly constructed, or a debt handed to the caller. Bounded: commit/reload/abort end to end "
         "with a stub data manager, both implementations (persist_rt).",
         "A1-A7; L-persist argued in DESIGN.md 5.4; T-DIRTY assumes the first insertion into an empty C tree registers it through the "
         "embedded-leaf rule and does not see writes through item pointers; recorded finding: non-root node inlining its only leaf; "
         "fixed: fsBucket.fromString did not register (77c333c)", "7/C04 and 12.7"),
 "C05": (True, "proof", T_C + BOUNDED,
         "Proved for every function of the translation units, every exit: no pin outlives the call (T-PIN), and every access to a node's vectors "
         "happens while the node is not a ghost (T-USE: inferred caller-activates protocol proved at every call site, un-pin summaries as a fixpoint of "
         "per-function proofs, Houdini loop invariants). Bounded: transparent reload and protection during comparisons "
         "(evict_rt: sweeps between calls and inside comparisons, incl. range queries on fully evicted trees and splits under eviction).",
         "A4, A4b (Python code run inside an operation does not modify its nodes), A5, A6, A6b (acyclicity), A7; vector pointers that outlive the pin are not covered; recorded finding: no pinning in the Python implementation", "7/C05 and 12.3"),
 "C08": (True, "other", T_P + "; " + T_C + BOUNDED,
         "Proved: the read-dependency sentence in both implementations (P:RC typestate on _Tree._set/_del and the tree "
         "lookups; T-RC on all C functions) and the reason-11 refusal. Not within reach of this family: outcomes over "
         "schedules - bounded stand-ins with a stub optimistic commit (conc_rt) and exhaustive merge triples (merge_rt).",
         "A1-A7; the stub commit protocol is a stated model of ZODB, which is absent", "7/C08"),
 "C14": (True, "proof", T_P + "; " + T_C + BOUNDED,
         "Proved: on every path of the Python leaf layer where a key comparison raises, the exception propagates and no heap cell "
         "has changed (faulty-comparison mode); C object-key TU: no pin and no local reference survives an error exit (T-PIN, T-REF). "
         "Bounded: interior nodes, contents-after-failure, refcounts for every n-th failing comparison (cmpfault_rt).",
         "A1-A7; recorded findings: separator comparison after the child's deletion, &= clear-then-update, TypeError swallowed by C leaf lookups", "7/C14"),
 "C15": (True, "other", T_C + "; " + T_P + "; bounded run-time contract stand-in (iter_rt), crash-isolated in child processes",
         "Proved (C): every entry a lazy sequence or iterator hands out is read at an offset inside the leaf as it is now - the asserted "
         "precondition of getBucketEntry (0 <= i < b->len, harvested from the non-NDEBUG AST) holds at every call site for all cursor "
         "states, i.e. whatever mutations happened between steps (M-IDX). Python: every leaf mutator works in place on the list objects "
         "a running iterator holds (same_lists clauses of _set / _del / _split). Bounded: step outcomes {entry, stop, RuntimeError, IndexError}, "
         "the Python generators, soundness and contents afterwards: interleavings of <= 4 steps / index reads with <= 4 mutations on 8-key "
         "trees at node sizes 2/2, 3/2, all kinds, both implementations (iter_rt).",
         "A4b (Python code run inside the step does not modify the leaf just checked), A5-A7; the cursor's constructor establishing "
         "currentoffset >= 0 and NULL-ness of the bucket pointer are not part of M-IDX", "7/C15 and 12.8"),
 "C16": (True, "other", T_C + BOUNDED,
         "Proved: the local reference discipline T-REF for all functions of the object-keyed/-valued TUs except 31 listed ones. "
         "M-IDX: lazy sequences and iterators read a leaf only inside its current length (slots beyond it hold released references). "
         "M-NULL: results of fallible CPython constructors are checked before they are dereferenced or stored (found and fixed: a NULL "
         "iterator released in update(): segmentation fault, 069bdf6). "
         "Bounded: slot-level ownership (refcount equation per call) over histories (refcount_rt). Memory bounds in general are not proved.",
         "A4 new/borrowed/steals table, A5-A7; functions outside the contract are listed in evidence; M-BND not discharged", "7/C16"),
 "C17": (True, "proof", T_C + "; bounded fault enumeration through the guarded allocation-failure hook (alloc_rt), every faulted call in its own process",
         "Proved for all inputs and every failing allocation: no container field is left pointing at a released block and "
         "a failed allocation is never swallowed (M-ALLOC typestate on all allocating functions); bucket_split leaves the leaf exactly "
         "as it was when one of its two allocations fails (F-SPLIT, loop-free functional contract). Bounded, exhaustive over the "
         "stated scenarios: MemoryError, soundness, contents previous-or-completed, follow-up workload (alloc_rt).",
         "A4-A7; allocations made by CPython itself are outside the hook and the typestate; recorded findings for &= and setstate", "7/C17"),
}


def main():
    path = os.path.join(HERE, "MANIFEST.json")
    with open(os.path.join(HERE, "tools", "manifest_overrides.json")) as f:
        ov = json.load(f)
    checks, na = [], []
    for pid in sorted(PROPS):
        ready, cat, tech, text, note, ref = PROPS[pid]
        o = ov.get(pid, {})
        ready = o.get("ready", ready)
        cat = o.get("category", cat)
        text = o.get("text", text)
        note = o.get("note", note)
        tech = o.get("technique", tech)
        if not ready:
            na.append({"property_id": pid, "reason": o.get("reason", "check under construction (stand-in or engine part not finished); see DESIGN.md section 8")})
            continue
        checks.append({
            "property_id": pid,
            "quick_cmd": "./check %s --tier quick" % pid,
            "thorough_cmd": "./check %s --tier thorough" % pid,
            "evidence_file": "evidence/%s.json" % pid,
            "replay_cmd_template": "./check %s --replay {path}" % pid,
            "engine": "pyvc/cvc/rtc",
            "level_claimed": {"category": cat, "text": text, "design_ref": "DESIGN.md " + ref},
            "level_note": note,
            "technique": tech,
        })
    m = {
        "version": 1,
        "setup_cmd": "./setup.sh",
        "hooks": {
            "guard": "BTREES_VERIF",
            "enable": "checks compile /repo's working tree out of tree with -DBTREES_VERIF=1 (lib/build.py); setup.py honours env BTREES_VERIF=1",
            "baseline_off_cmd": "cd /repo && /venv/bin/python -m pytest -ra -q -p no:cacheprovider --timeout=900 --continue-on-collection-errors",
            "source_commits": ov.get("hook_commits", []),
            "add_only": True,
        },
        "engines": [
            {"name": "pyvc", "path": "pyvc/", "serves_properties": ["C01", "C02", "C03", "C04", "C05", "C06", "C07", "C08", "C09", "C10", "C12", "C13", "C14", "C15", "C18", "C19"],
             "kind_free_text": "Engine P: symbolic execution of /repo/src/BTrees/*.py read with ast on every run against sidecar contracts (contracts/py_*.py); one z3 query per clause and path; grounded refutation + native replay"},
            {"name": "cvc", "path": "cvc/", "serves_properties": ["C01", "C02", "C04", "C05", "C08", "C09", "C10", "C11", "C13", "C14", "C15", "C16", "C17", "C18"],
             "kind_free_text": "Engine C: symbolic execution with state merging of the clang JSON AST of each _XXBTree.c translation unit; obligation families T-PIN, T-USE, F-CONV, T-REF, T-RC, M-ALLOC, F-SORT"},
            {"name": "rtc", "path": "rtc/", "serves_properties": sorted(PROPS),
             "kind_free_text": "bounded run-time contract stand-ins over stated finite scopes; labelled bounded, never counted as proved"},
        ],
        "checks": checks,
        "not_applicable": na,
        "notes": "exit codes of ./check: 0 held, 1 VIOLATION (line printed), 2 undecided, 3 checker error. known_findings.json lists recorded findings and fixed defects.",
    }
    with open(path, "w") as f:
        json.dump(m, f, indent=1)
    print("claimed:", [c["property_id"] for c in checks], "not claimed:", [n["property_id"] for n in na])


if __name__ == "__main__":
    main()
