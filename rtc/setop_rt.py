"""Bounded stand-in for C10: union / intersection / difference.

Oracle (property C10, /verif/properties.jsonl): "union, intersection and
difference - as module functions and through the |, &, -, ^ operators and their
in-place forms - compute the mathematical result over keys for any mix of Set,
TreeSet, Bucket, BTree and plain Python iterables (sorted or not, with
duplicates) of the right key type.  The result is a new, sorted, duplicate-free
container of the documented kind (difference keeps the first operand's values),
None operands behave as documented, and operands that are not the in-place
target are never modified."

"Documented" is BTrees/Interfaces.py IMerge: union / intersection -> a Set
(None: the other operand is returned); difference -> a Set if c1 is a Set or
TreeSet, a Bucket if c1 is a Bucket or BTree (c1 None -> None, c2 None -> c1).
`^` has no documented kind: any new Set / TreeSet of the family is accepted;
the in-place forms return their target.

A case is (operation, kind of left operand, kind of right operand, A, B) with
A, B subsets of the key universe; the expected keys are computed with Python
sets, never with the code under test.
"""
import argparse
import concurrent.futures as cf
import itertools

from lib.common import Standin, Failure, write_standin
from rtc import harness as H

BT = ("Set", "TreeSet", "Bucket", "BTree")
SETS = ("Set", "TreeSet")
PLAIN = ("list", "listuns", "listdup", "gen")   # sorted / reversed / A+[A[0]] / rotated generator
MATH = {"union": lambda a, b: a | b, "intersection": lambda a, b: a & b,
        "difference": lambda a, b: a - b, "xor": lambda a, b: a ^ b}
# name -> (mathematical operation, source text; the text is also the replay script)
OPS = {
    "union": ("union", "res = union(l, r)"), "intersection": ("intersection", "res = intersection(l, r)"),
    "difference": ("difference", "res = difference(l, r)"),
    "or": ("union", "res = l | r"), "and": ("intersection", "res = l & r"), "sub": ("difference", "res = l - r"),
    "xor": ("xor", "res = l ^ r"),
    # reflected: the plain iterable is the LEFT operand
    "ror": ("union", "res = l | r"), "rand": ("intersection", "res = l & r"), "rsub": ("difference", "res = l - r"),
    "rxor": ("xor", "res = l ^ r"),
    "ior": ("union", "res = l; res |= r"), "iand": ("intersection", "res = l; res &= r"),
    "isub": ("difference", "res = l; res -= r"), "ixor": ("xor", "res = l; res ^= r"),
}
INPLACE = ("ior", "iand", "isub", "ixor")


def combos():
    """Every (op, left kind, right kind) in scope."""
    out = []
    for op in ("union", "intersection"):
        out += [(op, a, b) for a in BT + PLAIN + ("None",) for b in BT + PLAIN + ("None",)]
    out += [("difference", a, b) for a in BT + ("None",) for b in BT + PLAIN + ("None",)]  # "c1 must be one of those types"
    for op in ("or", "and", "sub"):
        out += [(op, a, b) for a in BT for b in BT + PLAIN]
    out += [("xor", a, b) for a in SETS for b in BT + PLAIN]
    for op in ("ror", "rand", "rsub"):
        out += [(op, a, b) for a in PLAIN for b in BT]
    out += [("rxor", a, b) for a in PLAIN for b in SETS]
    for op in INPLACE:
        out += [(op, a, b) for a in SETS for b in BT + PLAIN + ("self",)]
    return out


def universe(fam, n):
    if fam == "fs":
        return [bytes([0, i]) for i in range(n)]
    ex = [e for e in H.extremes(fam) if e is not None]     # key extremes are part of the quantifier
    mid = [k for k in range(1, n + 1) if k not in ex][:n - len(ex)]
    return sorted(set(ex + mid))


def value(fam, side, i):
    """Distinct per key and per side, so a result carrying the wrong operand's values is seen."""
    off = 1 if side == "l" else 101
    if fam == "fs":
        return b"%s%05d" % (side.encode(), i)
    return {"O": "%s%d" % (side, i), "F": i + off + 0.5}.get(fam[1], i + off)


class Config:
    def __init__(self, fam, impl, nkeys, sizes):
        self.fam, self.impl, self.sizes = fam, impl, sizes
        self.U = universe(fam, nkeys)
        self.idx = {k: i for i, k in enumerate(self.U)}
        self.cls = {k: H.get_class(fam, k, impl, *sizes) for k in BT}
        m = H.family_module(fam)
        sfx = "Py" if impl == "py" else ""
        self.ns = {n: getattr(m, n + sfx) for n in ("union", "intersection", "difference")}
        self.code = {op: compile(src, op, "exec") for op, (_, src) in OPS.items()}
        self.cache = {}
        self.fail, self.evals, self.nontrivial, self.samples = {}, 0, 0, []

    def build(self, kind, A, side):
        """A fresh operand of `kind` holding exactly the keys A (sorted tuple)."""
        if kind == "None":
            return None
        if kind in BT:
            c = self.cls[kind]
            if kind in SETS:
                return c(A)
            t = c()
            for k in A:
                t[k] = value(self.fam, side, self.idx[k])
            return t
        if kind == "list":
            return list(A)
        if kind == "listuns":
            return list(reversed(A))
        if kind == "listdup":
            return list(A) + [A[0]]
        return (k for k in A[1:] + A[:1])          # generator, rotated (unsorted when len > 2)

    def operand(self, kind, A, side):
        """BTrees operands are shared between cases (every case re-checks that they are unmodified)."""
        if kind not in BT:
            return self.build(kind, A, side)
        o = self.cache.get((kind, A, side))
        if o is None:
            o = self.cache[(kind, A, side)] = self.build(kind, A, side)
        return o

    def snapshot(self, kind, A, side):
        if kind in SETS:
            return list(A)
        if kind in BT:
            return [(k, value(self.fam, side, self.idx[k])) for k in A]
        return self.build(kind, A, side)

    def unmodified(self, o, kind, A, side):
        if kind in SETS:
            return list(o.keys()) == list(A)
        if kind in BT:
            return list(o.items()) == self.snapshot(kind, A, side)
        return kind in ("gen", "None") or o == self.snapshot(kind, A, side)

    def report(self, op, lk, rk, clause, A, B, what):
        key = "setop:%s:%s~%s:%s:%s" % (self.impl, lk, rk, clause, op)
        if key in self.fail:
            self.fail[key][2] += 1
            return
        sfx = "Py" if self.impl == "py" else ""

        def lit(kind, X, side):
            if kind in SETS:
                return "%s%s%s(%r)" % (self.fam, kind, sfx, list(X))
            if kind in BT:
                return "%s%s%s(%r)" % (self.fam, kind, sfx, dict(self.snapshot(kind, X, side)))
            if kind == "gen":
                return "iter(%r)" % (list(X[1:] + X[:1]),)
            return "l" if kind == "self" else repr(self.build(kind, X, side))
        script = ("from BTrees.%sBTree import *\nfrom BTrees.%sBTree import %s\n" % (
            self.fam, self.fam, ", ".join("%s%s%s" % (self.fam, k, sfx) for k in BT) + "".join(
                ", %s%s" % (n, sfx) for n in self.ns)) +
            "".join("%s%s%s.max_leaf_size, %s%s%s.max_internal_size = %d, %d\n" % (
                (self.fam, k, sfx) * 2 + tuple(self.sizes)) for k in ("BTree", "TreeSet")) +
            "".join("%s = %s%s\n" % (n, n, sfx) for n in self.ns if sfx) +
            "l = %s\nr = %s\n%s\nprint(type(res).__name__, list(res))   # expected keys: %r\n" % (
                lit(lk, A, "l"), lit(rk, B, "r"), OPS[op][1], what.get("expected")))
        self.fail[key] = [Failure(
            key=key, desc="%s %s sizes=%s: %s with l=%s%r r=%s%r: %s" % (
                self.fam, self.impl, self.sizes, OPS[op][1], lk, list(A), rk, list(B), what["msg"]),
            repro={"family": self.fam, "impl": self.impl, "sizes": list(self.sizes), "op": op,
                   "left": [lk, [repr(k) for k in A]], "right": [rk, [repr(k) for k in B]]},
            script=script), None, 1]

    # ------------------------------------------------------------------ one case
    def case(self, op, lk, rk, A, B):
        self.evals += 1
        inplace = op in INPLACE
        if inplace:
            l = self.build(lk, A, "l")              # the target is mutated: always fresh
        else:
            l = self.operand(lk, A, "l")
        r = l if rk == "self" else self.operand(rk, B, "r")
        sA, sB = set(A), set(A if rk == "self" else B)
        env = dict(self.ns, l=l, r=r)
        bad = lambda clause, msg, exp=None: self.report(op, lk, rk, clause, A, B, {"msg": msg, "expected": exp})
        try:
            exec(self.code[op], env)
            res = env["res"]
        except Exception as e:
            bad("raised", "raised %s: %s" % (type(e).__name__, e))
            self.drop(lk, A, rk, B)
            return
        math_op = OPS[op][0]
        # --- None operands behave as documented (IMerge docstrings)
        if lk == "None" or rk == "None":
            want = (None if lk == "None" else l) if math_op == "difference" else (r if lk == "None" else l)
            if res is not want:
                bad("none", "returned %r, documented: %s" % (res, "None" if want is None else "the other operand itself"))
            return
        exp = sorted(MATH[math_op](sA, sB))
        if sA and sB:
            self.nontrivial += 1
        # --- documented kind
        if inplace:
            if res is not l:
                bad("kind", "the in-place form did not return its target")
        else:
            if math_op == "xor":
                kinds = SETS
            elif math_op == "difference":
                kinds = ("Set",) if (lk in SETS or (lk in PLAIN and rk in SETS)) else \
                    ("Bucket",) if lk in BT else ("Set", "Bucket")
            else:
                kinds = ("Set",)
            if type(res) not in [self.cls[k] for k in kinds]:
                bad("kind", "result is a %s, documented kind %s" % (type(res).__name__, "/".join(kinds)))
                return
            if res is l or res is r:
                bad("new", "the result is one of the operands, not a new container")
        # --- sorted, duplicate free, mathematical result
        try:
            ks = list(res.keys())
            mapping = type(res) in (self.cls["Bucket"], self.cls["BTree"])
            items = list(res.items()) if mapping else None
            members = [k for k in self.U if k in res]
            n = len(res)
        except Exception as e:
            bad("raised", "inspecting the result raised %s: %s" % (type(e).__name__, e))
            return
        if ks != exp:
            clause = "dupfree" if len(set(ks)) != len(ks) else "sorted" if ks != sorted(ks) else "keys"
            bad(clause, "keys %r, expected %r" % (ks, exp), exp)
        elif n != len(exp) or members != exp:
            bad("member", "len %r / members %r disagree with the keys %r" % (n, members, exp), exp)
        elif mapping and items != [(k, value(self.fam, "l", self.idx[k])) for k in exp]:
            bad("values", "items %r do not carry the first operand's values" % (items,), exp)
        if inplace and lk == "TreeSet":
            try:
                l._check()
            except Exception as e:
                bad("damage", "_check() rejects the target afterwards: %s" % (e,), exp)
        # --- operands that are not the in-place target are never modified
        ok_l = inplace or self.unmodified(l, lk, A, "l")
        ok_r = rk == "self" or self.unmodified(r, rk, B, "r")
        if len(self.samples) < 2 and len(A) == 3 and len(B) == 2 and (op, lk, rk) in (
                ("difference", "BTree", "listdup"), ("ixor", "TreeSet", "gen")):
            self.samples.append({"case": "%s %s: %s" % (self.fam, self.impl, OPS[op][1]),
                                 "l": "%s %r" % (lk, self.snapshot(lk, A, "l")), "r": "%s %r" % (rk, list(self.build(rk, B, "r"))),
                                 "res": "%s %r" % (type(res).__name__, items if mapping else ks)})
        if not (ok_l and ok_r):
            bad("operand-modified", "the %s operand was modified" % ("left" if not ok_l else "right"), exp)
            self.drop(lk, A, rk, B)

    def drop(self, lk, A, rk, B):
        self.cache.pop((lk, A, "l"), None)
        self.cache.pop((rk, B, "r"), None)


def run_config(args):
    fam, impl, nkeys, sizes = args
    c = Config(fam, impl, nkeys, sizes)
    subsets = [s for n in range(nkeys + 1) for s in itertools.combinations(c.U, n)]
    ops = combos()
    for A in subsets:
        # kinds that do not exist (or coincide with another kind) for this A
        skipA = {"None": bool(A), "listuns": len(A) < 2, "listdup": len(A) < 1, "gen": False}
        for B in subsets:
            skipB = {"None": bool(B), "listuns": len(B) < 2, "listdup": len(B) < 1, "self": A != B}
            for op, lk, rk in ops:
                if skipA.get(lk) or skipB.get(rk):
                    continue
                c.case(op, lk, rk, A, B)
    return c.evals, c.nontrivial, [(f, n) for f, _, n in c.fail.values()], c.samples


def main():
    ap = argparse.ArgumentParser()
    ap.add_argument("--out")
    a = ap.parse_args()
    qs = H.tier() == "quick"
    nkeys = 5 if qs else 6
    sizes = (2, 2)
    s = Standin(
        name="setop_rt",
        bound="all pairs (A, B) of subsets of %d keys (incl. the key extremes of the family) x all pairs of operand "
              "kinds {Set, TreeSet, Bucket, BTree at node sizes 2/2, sorted list, reversed list, list with a "
              "duplicate, generator, None, the target itself} x {union, intersection, difference as functions; "
              "| & - ^ with the BTrees operand left and (reflected) right; |= &= -= ^= on Set / TreeSet}; "
              "C and Python; families %s" % (nkeys, ",".join(H.fams())),
        rule="case = one call and its contract (kind, newness, keys sorted / duplicate-free / mathematical, len and "
             "membership, difference values, operands unmodified); distinct non-trivial = cases with two non-empty "
             "operands (the enumeration never repeats a case)",
        exhaustive=True,
        functions=["set_operation", "initSetIteration", "copyRemaining", "union_m", "intersection_m", "difference_m",
                   "bucket_sub/or/and", "Generic_set_xor", "set_ior/iand/isub/ixor", "TreeSet_ior/iand/isub/ixor",
                   "_base.union/intersection/difference", "_ArithmeticMixin", "_MutableSetMixin.__i*__ (run-time)"])
    jobs = [(fam, impl, nkeys, sizes) for impl in ("py", "c") for fam in H.fams()]
    merged = {}                                     # one Failure per key: first case + where else it fired
    with cf.ProcessPoolExecutor(max_workers=min(16, len(jobs))) as ex:
        for (fam, impl, _, _), (ev, nt, fails, samples) in zip(jobs, ex.map(run_config, jobs)):
            if fam == H.fams()[-1]:
                s.samples += samples[:1] if impl == "py" else samples[1:2]   # one measured case per implementation
            s.evaluations += ev
            s.distinct_nontrivial += nt
            for f, n in fails:
                merged.setdefault(f.key, (f, []))[1].append("%s: %d cases" % (fam, n))
    for f, where in merged.values():
        f.desc += "  [" + ", ".join(where) + "]"
        s.failures.append(f)
    write_standin(a.out, s)


if __name__ == "__main__":
    main()
