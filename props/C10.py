"""C10 - union / intersection / difference compute the mathematical result."""
from props import _generic as g

# every function of the set algebra that touches a node's vectors (whichever do, on the tree under test)
SETALG = (r"^(set_i|TreeSet_i|set_op|Set_isdisjoint|TreeSet_isdisjoint|bucket_sub|bucket_or|bucket_and|Generic_set_xor|"
          r"initSetIteration|next(Bucket|Set|BTreeItems|TreeSetItems)|copyRemaining|merge_output|set_item|_Set_update|_TreeSet_update)")


def run(ctx):
    fns = g.run_pyvc(ctx, "C10")
    ctx.cvc(["II"] if ctx.tier == "quick" else ["II", "OO", "fs"], ["T-USE"], match=SETALG)
    ctx.standin("setop_rt", families=tuple("OO,II".split(",")))
    return "proof", (
        "Engine P: union, intersection and difference of _base.py are proved from their real bodies against the mathematical "
        "result over keys (new strictly sorted container, exact key set, None rules, operands unmodified), with the cursor "
        "(_SetIteration.advance) proved against its abstraction and the prefix-set lemmas proved by induction (%d targets); every "
        "loop head carries a vacuity guard. Engine C, T-USE on the operator / in-place entry points of the set algebra: the "
        "operands' vectors are only accessed on activated nodes (operators are type slots: entered on possible ghosts). "
        "C results, operators, in-place forms, plain iterables, lazy views and stored/ghost operands are the bounded stand-in setop_rt."
        % len(fns))
