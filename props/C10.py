from props import _generic as g


def run(ctx):
    fns = g.run_pyvc(ctx, "C10")
    ctx.standin("setop_rt", families=tuple("OO,II".split(",")))
    return "exploration", "bounded stand-in setop_rt (no obligation of the deductive engines serves C10 yet)"
