"""C19 - Length is a conflict-free counter (DESIGN.md section 7, C19)."""
from props import _generic as g


def run(ctx):
    g.run_pyvc(ctx, "C19")
    ctx.standin("length_rt", families=("OO",))
    return "proof", (
        "Every method of BTrees.Length is under contract and discharged by z3 over "
        "unbounded mathematical integers (Python int semantics): "
        "_p_resolveConflict(old, s1, s2) == old + (s1-old) + (s2-old) in both orders; "
        "set/change/__call__/__getstate__/__setstate__/__init__ behave as a plain cell. "
        "Pickle/copy survival is outside the engine (library code) and is a bounded run-time check.")
