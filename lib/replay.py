"""Replay of refuted obligations against the real code (DESIGN.md 6.2)."""
import json
import os
import subprocess
import sys

VERIF = os.path.dirname(os.path.dirname(os.path.abspath(__file__)))
PY = os.path.join(VERIF, ".venv", "bin", "python")


def replay_python(ctx, res):
    """For each refuted Engine-P obligation: turn the counter-model into a
    native call of the real function on the current tree and evaluate the
    contract concretely (rtc/replay_py.py).  Sets o.replay."""
    todo = [o for o in res.obligations if o.status == "refuted" and o.model]
    if not todo:
        return
    from lib import build
    bdir = build.pure_python_tree()
    for o in todo:
        job = {"function": o.function, "obligation": o.name, "model": o.model}
        e = dict(os.environ)
        e["PYTHONPATH"] = bdir + os.pathsep + VERIF
        e["PURE_PYTHON"] = "1"
        try:
            p = subprocess.run([PY, "-m", "rtc.replay_py"], input=json.dumps(job), text=True,
                               capture_output=True, env=e, cwd=VERIF, timeout=120)
            out = json.loads(p.stdout.strip().splitlines()[-1]) if p.stdout.strip() else \
                {"reproduced": False, "outcome": "replayer crashed: " + p.stderr[-800:]}
        except Exception as ex:      # replay is best effort; never turns into a verdict
            out = {"reproduced": False, "outcome": "replayer error: %r" % (ex,)}
        o.replay = out


def main(prop, path):
    with open(path) as f:
        d = json.load(f)
    print(json.dumps(d, indent=1)[:4000])
    if d.get("script"):
        from lib import build
        bdir = build.build(tuple(d.get("families", ["OO"])))
        e = dict(os.environ)
        e["PYTHONPATH"] = bdir + os.pathsep + VERIF
        p = subprocess.run([PY, "-c", d["script"]], env=e, cwd=VERIF)
        return 1 if p.returncode else 0
    if d.get("model") is not None and d.get("function"):
        class O:
            pass
        o = O()
        o.function, o.name, o.model, o.status, o.replay = d["function"], d["obligation"], d["model"], "refuted", None

        class R:
            obligations = [o]
        replay_python(None, R)
        print(json.dumps(o.replay, indent=1))
        return 1 if o.replay and o.replay.get("reproduced") else 0
    return 0


# --------------------------------------------------------------------------
# Engine C replays

FCONV_SCRIPT = r'''
import sys, importlib
fam, v = %(fam)r, %(v)r
M = importlib.import_module("BTrees._%%sBTree" %% fam)
rng = {"I": (-2**31, 2**31-1), "U": (0, 2**32-1), "L": (-2**63, 2**63-1), "Q": (0, 2**64-1)}
bad = []
for kind in ("BTree", "Bucket", "TreeSet", "Set"):
    cls = getattr(M, fam + kind)
    for role in (("key", "value") if kind in ("BTree", "Bucket") else ("key",)):
        code = fam[0] if role == "key" else fam[1]
        if code not in rng:
            continue
        lo, hi = rng[code]
        rep = isinstance(v, int) and lo <= v <= hi
        t = cls()
        try:
            if kind in ("BTree", "Bucket"):
                if role == "key":
                    t[v] = 1
                else:
                    t[1] = v
                got = list(t.items())
                want = [(v, 1)] if role == "key" else [(1, v)]
            else:
                t.add(v)
                got, want = list(t), [v]
            out = "stored %%r" %% (got,)
            ok = rep and got == want
        except TypeError:
            out, ok = "TypeError", not rep
            if (list(t.items()) if kind in ("BTree", "Bucket") else list(t)):
                ok, out = False, out + " but the container was modified"
        except Exception as e:
            out, ok = "%%s: %%s" %% (type(e).__name__, e), False
        if not ok:
            bad.append("%%s as %%s of %%s%%s: %%s (representable=%%s)" %% (v, role, fam, kind, out, rep))
print("\n".join(bad) or "no violation")
sys.exit(1 if bad else 0)
'''


def replay_fconv(ctx, res):
    """F-CONV counter-model -> offer the model's Python integer as key and as
    value to the real extension of that family."""
    import re
    from lib import build
    for o in res.obligations:
        if o.status != "refuted" or not o.name.startswith("F-CONV") or not o.model:
            continue
        m = re.search(r"pyint_value.*?else -> (-?\d+)", str(o.model))
        fm = re.match(r"\[(\w\w)\]", o.detail or "")
        if not m or not fm:
            continue
        fam, v = fm.group(1), int(m.group(1))
        script = FCONV_SCRIPT % {"fam": fam, "v": v}
        try:
            bdir = build.build((fam,))
            e = dict(os.environ, PYTHONPATH=bdir + os.pathsep + VERIF)
            p = subprocess.run([PY, "-c", script], env=e, capture_output=True, text=True, timeout=120)
            o.replay = {"reproduced": p.returncode == 1, "outcome": (p.stdout + p.stderr)[-1500:],
                        "script": script, "families": [fam], "input": v}
        except Exception as ex:
            o.replay = {"reproduced": False, "outcome": "replayer error: %r" % (ex,)}


FSORT_SCRIPT = r'''
import sys, importlib
fam, x, y = %(fam)r, %(x)d, %(y)d
M = importlib.import_module("BTrees._%%sBTree" %% fam)
rng = {"I": (-2**31, 2**31-1), "U": (0, 2**32-1), "L": (-2**63, 2**63-1), "Q": (0, 2**64-1)}[fam[0]]
def dom(v):       # the model is a bit pattern: read it in the family's key type
    w = 32 if fam[0] in "IU" else 64
    v %%= 2**w
    return v - 2**w if (fam[0] in "IL" and v >= 2**(w-1)) else v
keys = sorted(set([dom(x), dom(y)] + [rng[0] + 3*i for i in range(450)] + [rng[1] - 5*i for i in range(450)]))
got = list(M.multiunion([list(reversed(keys))]))
print("multiunion of %%d keys incl. %%d and %%d: %%s" %% (len(keys), dom(x), dom(y), "sorted" if got == keys else "NOT the sorted union"))
sys.exit(0 if got == keys else 1)
'''


def replay_fsort(ctx, res):
    import re
    from lib import build
    for o in res.obligations:
        if o.status != "refuted" or not o.name.startswith("F-SORT") or not o.model:
            continue
        fm = re.match(r"\[(\w\w)\]", o.detail or "")
        try:
            x, y = int(o.model.get("x", 0)), int(o.model.get("y", 0))
        except (TypeError, ValueError):
            continue
        if not fm:
            continue
        fam = fm.group(1)
        script = FSORT_SCRIPT % {"fam": fam, "x": x, "y": y}
        try:
            bdir = build.build((fam,))
            e = dict(os.environ, PYTHONPATH=bdir + os.pathsep + VERIF)
            p = subprocess.run([PY, "-c", script], env=e, capture_output=True, text=True, timeout=120)
            o.replay = {"reproduced": p.returncode == 1, "outcome": (p.stdout + p.stderr)[-800:],
                        "script": script, "families": [fam]}
        except Exception as ex:
            o.replay = {"reproduced": False, "outcome": "replayer error: %r" % (ex,)}


FSEARCH_SCRIPT = r'''
import sys, importlib, itertools
fam = %(fam)r
M = importlib.import_module("BTrees._%%sBTree" %% fam)
isset_only = False
def mk(kind, keys):
    cls = getattr(M, fam + kind)
    class T(cls):
        max_leaf_size, max_internal_size = 2, 2
    t = T() if kind in ("BTree", "TreeSet") else cls()
    for k in keys:
        (t.add(k) if kind in ("Set", "TreeSet") else t.__setitem__(k, %(val)s))
    return t
bad = []
universe = list(range(0, 15))
for n in range(0, 8):
    for keys in ([2 * i + 1 for i in range(n)], [2 * i + 1 for i in reversed(range(n))]):
        for kind in ("Bucket", "Set", "BTree", "TreeSet"):
            t = mk(kind, keys)
            ks = sorted(keys)
            for probe in universe:
                want = probe in ks
                try:
                    got = probe in t
                except Exception as e:
                    got = "raised %%s" %% type(e).__name__
                if got != want:
                    bad.append("%%s%%s(%%r): %%r in t -> %%r, the key set says %%r" %% (fam, kind, ks, probe, got, want))
                try:
                    got = list(t.keys(probe))
                except Exception as e:
                    got = "raised %%s" %% type(e).__name__
                if got != [k for k in ks if k >= probe]:
                    bad.append("%%s%%s(%%r).keys(min=%%r) -> %%r" %% (fam, kind, ks, probe, got))
                for args, want in (((probe, None, True), [k for k in ks if k > probe]),
                                   ((None, probe), [k for k in ks if k <= probe]),
                                   ((None, probe, False, True), [k for k in ks if k < probe])):
                    try:
                        got = list(t.keys(*args))
                    except Exception as e:
                        got = "raised %%s" %% type(e).__name__
                    if got != want:
                        bad.append("%%s%%s(%%r).keys%%r -> %%r, expected %%r" %% (fam, kind, ks, args, got, want))
                for fn, cand in (("minKey", [k for k in ks if k >= probe]), ("maxKey", [k for k in ks if k <= probe])):
                    want = (min(cand) if fn == "minKey" else max(cand)) if cand else "ValueError"
                    try:
                        got = getattr(t, fn)(probe)
                    except ValueError:
                        got = "ValueError"
                    except Exception as e:
                        got = "raised %%s" %% type(e).__name__
                    if got != want:
                        bad.append("%%s%%s(%%r).%%s(%%r) -> %%r, expected %%r" %% (fam, kind, ks, fn, probe, got, want))
            if list(t.keys()) != ks:
                bad.append("%%s%%s built from %%r iterates as %%r" %% (fam, kind, keys, list(t.keys())))
print("\n".join(bad[:12]) or "no violation on vectors of up to 7 keys")
sys.exit(1 if bad else 0)
'''


def replay_fsearch(ctx, res):
    """F-SEARCH gives no input of its own (the counter-model is a loop-head state): the replay offers every
    probe key to leaves and trees (node sizes 2) of up to 7 keys of that family and compares with the key set."""
    import re
    from lib import build
    done = {}
    for o in res.obligations:
        if o.status not in ("refuted", "unknown") or not o.name.startswith("F-SEARCH"):
            continue
        fm = re.match(r"\[(\w\w)\]", o.detail or "")
        if not fm:
            continue
        fam = fm.group(1)
        if fam not in done:
            val = {"O": "'v'", "F": "1.5"}.get(fam[1], "7")
            script = FSEARCH_SCRIPT % {"fam": fam, "val": val}
            try:
                bdir = build.build((fam,))
                e = dict(os.environ, PYTHONPATH=bdir + os.pathsep + VERIF)
                p = subprocess.run([PY, "-c", script], env=e, capture_output=True, text=True, timeout=300)
                crashed = p.returncode < 0
                done[fam] = {"reproduced": p.returncode == 1 or crashed,
                             "outcome": ("the interpreter was killed by signal %d while running the probe script: "
                                         % -p.returncode if crashed else "") + (p.stdout + p.stderr)[-1500:],
                             "script": script, "families": [fam]}
            except Exception as ex:
                done[fam] = {"reproduced": False, "outcome": "replayer error: %r" % (ex,)}
        o.replay = done[fam]


FUNIQ_SCRIPT = r'''
import sys, importlib
fam = %(fam)r
M = importlib.import_module("BTrees._%%sBTree" %% fam)
lo, hi = {"I": (-2**31, 2**31-1), "U": (0, 2**32-1), "L": (-2**63, 2**63-1), "Q": (0, 2**64-1)}[fam[0]]
bad = []
def probe(name, xs):
    want = sorted(set(xs))
    try:
        r = M.multiunion([list(xs)])
        got = list(r)
    except Exception as e:
        bad.append("%%s: raised %%s" %% (name, type(e).__name__)); return
    if got != want:
        k = next((i for i, (a, b) in enumerate(zip(got, want)) if a != b), min(len(got), len(want)))
        bad.append("%%s (%%d elements): multiunion differs from the sorted duplicate-free union at index %%d: got %%r..., expected %%r... (len %%d vs %%d)"
                   %% (name, len(xs), k, got[k:k+4], want[k:k+4], len(got), len(want)))
    elif want and not all(x in r for x in (want[0], want[-1], want[len(want) // 2])):
        bad.append("%%s: membership fails on the result" %% name)
for n in (0, 1, 2, 5, 100, 799, 801, 1000, 3000):
    for shift in (0, 8, 16, 24):
        base = [((k * 37) %% 1009) << shift for k in range(n)]
        base = [min(hi, max(lo, x)) for x in base]
        probe("distinct<<%%d" %% shift, sorted(set(base), reverse=True))
        probe("with-repeats<<%%d" %% shift, base + base[: n // 3])
        probe("all-equal", [7] * n)
    # keys that differ in 1, 2, 3 and 4 byte positions (the radix sort ends in either buffer)
    for span in (8, 12, 20, 28):
        xs = sorted({(k * 104729) %% (1 << span) for k in range(n)})
        probe("distinct-span%%d" %% span, list(reversed(xs)))
        probe("repeats-span%%d" %% span, xs + xs[::3])
print("\n".join(bad[:10]) or "no violation on the probe vectors")
sys.exit(1 if bad else 0)
'''


def replay_funiq(ctx, res):
    """F-UNIQ has no input of its own: the replay runs multiunion natively on vectors on both sides of the
    800-element switch, with and without repeats, keys differing in 1..4 byte positions."""
    import re
    from lib import build
    done = {}
    for o in res.obligations:
        if o.status not in ("refuted", "unknown") or not o.name.startswith("F-UNIQ"):
            continue
        fm = re.match(r"\[(\w\w)\]", o.detail or "")
        if not fm:
            continue
        fam = fm.group(1)
        if fam not in done:
            script = FUNIQ_SCRIPT % {"fam": fam}
            try:
                bdir = build.build((fam,))
                e = dict(os.environ, PYTHONPATH=bdir + os.pathsep + VERIF)
                p = subprocess.run([PY, "-c", script], env=e, capture_output=True, text=True, timeout=300)
                crashed = p.returncode < 0
                done[fam] = {"reproduced": p.returncode == 1 or crashed,
                             "outcome": ("the interpreter was killed by signal %d: " % -p.returncode if crashed else "") +
                             (p.stdout + p.stderr)[-1500:], "script": script, "families": [fam]}
            except Exception as ex:
                done[fam] = {"reproduced": False, "outcome": "replayer error: %r" % (ex,)}
        o.replay = done[fam]


FUNLINK_SCRIPT = r'''
import sys, importlib, random
fam = %(fam)r
M = importlib.import_module("BTrees._%%sBTree" %% fam)
bad = []
def run(kind, sizes, order_name, order, n):
    base = getattr(M, fam + kind)
    class T(base):
        max_leaf_size, max_internal_size = sizes
    t = T()
    isset = kind == "TreeSet"
    for k in range(n):
        t.add(k) if isset else t.__setitem__(k, %(val)s)
    model = set(range(n))
    for step, k in enumerate(order):
        try:
            t.remove(k) if isset else t.__delitem__(k)
        except Exception as e:
            bad.append("%%s%%s %%s/%%d keys, %%s: deleting %%r raised %%s" %% (fam, kind, sizes, n, order_name, k, type(e).__name__)); return
        model.discard(k)
        try:
            got = list(t.keys())
            t._check()
        except Exception as e:
            bad.append("%%s%%s %%s/%%d keys, %%s: after deleting %%r (step %%d): %%s: %%s" %% (fam, kind, sizes, n, order_name, k, step, type(e).__name__, e)); return
        if got != sorted(model):
            miss = sorted(model - set(got))[:6]
            bad.append("%%s%%s %%s/%%d keys, %%s: after deleting %%r (step %%d) iteration misses %%r... (%%d keys instead of %%d)"
                       %% (fam, kind, sizes, n, order_name, k, step, miss, len(got), len(model))); return
for kind in ("BTree", "TreeSet"):
    for sizes in ((2, 2), (2, 3), (3, 2)):
        for n in (24, 96):
            rnd = random.Random(7)
            orders = {"ascending": list(range(n)), "descending": list(range(n - 1, -1, -1)),
                      "leaf-by-leaf-from-the-middle": sorted(range(n), key=lambda k: (abs(k // 2 - n // 4), k)),
                      "seeded": rnd.sample(range(n), n)}
            for nm, o in orders.items():
                run(kind, sizes, nm, o, n)
print("\n".join(bad[:10]) or "no violation on the deletion histories")
sys.exit(1 if bad else 0)
'''


def replay_funlink(ctx, res):
    """F-UNLINK has no input of its own: the replay deletes every key of 3- and 4-level trees (node sizes 2 / 3)
    of the family in four orders, comparing iteration and _check() with a set model after every step."""
    import re
    from lib import build
    done = {}
    for o in res.obligations:
        if o.status not in ("refuted", "unknown") or not o.name.startswith("F-UNLINK"):
            continue
        fm = re.match(r"\[(\w\w)\]", o.detail or "")
        if not fm:
            continue
        fam = fm.group(1)
        if fam not in done:
            script = FUNLINK_SCRIPT % {"fam": fam, "val": {"O": "'v'", "F": "1.5"}.get(fam[1], "7")}
            try:
                bdir = build.build((fam,))
                e = dict(os.environ, PYTHONPATH=bdir + os.pathsep + VERIF)
                p = subprocess.run([PY, "-c", script], env=e, capture_output=True, text=True, timeout=300)
                crashed = p.returncode < 0
                done[fam] = {"reproduced": p.returncode == 1 or crashed,
                             "outcome": ("the interpreter was killed by signal %d: " % -p.returncode if crashed else "") +
                             (p.stdout + p.stderr)[-1500:], "script": script, "families": [fam]}
            except Exception as ex:
                done[fam] = {"reproduced": False, "outcome": "replayer error: %r" % (ex,)}
        o.replay = done[fam]


FLEAF_SCRIPT = r'''
import sys, importlib, itertools
fam = %(fam)r
M = importlib.import_module("BTrees._%%sBTree" %% fam)
bad = []
def val(k, gen=0):
    return %(valexpr)s
def check(t, model, isset, what):
    got = list(t.keys()) if isset else list(t.items())
    want = sorted(model) if isset else sorted(model.items())
    if got != want:
        bad.append("%%s: contents %%r, the model has %%r" %% (what, got[:8], want[:8]))
        return False
    if len(t) != len(model):
        bad.append("%%s: len %%d, the model has %%d" %% (what, len(t), len(model))); return False
    return True
for kind in ("Bucket", "Set"):
    isset = kind == "Set"
    cls = getattr(M, fam + kind)
    for n in (1, 2, 3, 5, 17, 40):
        for order_name, order in (("ascending", list(range(n))), ("descending", list(range(n - 1, -1, -1))),
                                  ("inside-out", sorted(range(n), key=lambda k: (abs(k - n // 2), k)))):
            t, model = cls(), ({} if not isset else set())
            ok = True
            for k in order:
                key = 3 * k + 1
                try:
                    (t.add(key) if isset else t.__setitem__(key, val(key)))
                except Exception as e:
                    bad.append("%%s%%s insert %%r (%%s, n=%%d): raised %%s" %% (fam, kind, key, order_name, n, type(e).__name__)); ok = False; break
                (model.add(key) if isset else model.__setitem__(key, val(key)))
                if not check(t, model, isset, "%%s%%s after inserting %%r (%%s, n=%%d)" %% (fam, kind, key, order_name, n)):
                    ok = False; break
            if not ok:
                continue
            if not isset:
                for k in order[::2]:
                    key = 3 * k + 1
                    t[key] = val(key, 1); model[key] = val(key, 1)
                    if not check(t, model, isset, "%%s%%s after replacing the value of %%r" %% (fam, kind, key)):
                        ok = False; break
            for k in (order[1::2] + order[::2]) if ok else ():
                key = 3 * k + 1
                try:
                    (t.remove(key) if isset else t.__delitem__(key))
                except Exception as e:
                    bad.append("%%s%%s delete %%r: raised %%s" %% (fam, kind, key, type(e).__name__)); break
                (model.discard(key) if isset else model.pop(key))
                if not check(t, model, isset, "%%s%%s after deleting %%r (%%s, n=%%d)" %% (fam, kind, key, order_name, n)):
                    break
print("\n".join(bad[:10]) or "no violation on the leaf histories")
sys.exit(1 if bad else 0)
'''


def replay_fleaf(ctx, res):
    """F-LEAF has no input of its own: the replay drives leaves (Bucket, Set) of the family through inserts in three
    orders (across the growth of the vectors), value replacements and deletions, comparing with a dict / set model."""
    import re
    from lib import build
    done = {}
    for o in res.obligations:
        if o.status not in ("refuted", "unknown") or not o.name.startswith("F-LEAF"):
            continue
        fm = re.match(r"\[(\w\w)\]", o.detail or "")
        if not fm:
            continue
        fam = fm.group(1)
        if fam not in done:
            valexpr = {"O": "'v%d.%d' % (k, gen)", "F": "k + 0.5 + gen"}.get(fam[1], "k * 7 + gen")
            script = FLEAF_SCRIPT % {"fam": fam, "valexpr": valexpr}
            try:
                bdir = build.build((fam,))
                e = dict(os.environ, PYTHONPATH=bdir + os.pathsep + VERIF)
                p = subprocess.run([PY, "-c", script], env=e, capture_output=True, text=True, timeout=300)
                crashed = p.returncode < 0
                done[fam] = {"reproduced": p.returncode == 1 or crashed,
                             "outcome": ("the interpreter was killed by signal %d: " % -p.returncode if crashed else "") +
                             (p.stdout + p.stderr)[-1500:], "script": script, "families": [fam]}
            except Exception as ex:
                done[fam] = {"reproduced": False, "outcome": "replayer error: %r" % (ex,)}
        o.replay = done[fam]


FSTATE_SCRIPT = r'''
import sys, importlib
fam = %(fam)r
M = importlib.import_module("BTrees._%%sBTree" %% fam)
bad = []
def val(k):
    return %(valexpr)s
for n in (0, 1, 2, 5, 40):
    keys = [3 * k + 1 for k in range(n)]
    b, s = getattr(M, fam + "Bucket")(), getattr(M, fam + "Set")()
    for k in keys:
        b[k] = val(k); s.add(k)
    want_b = (tuple(x for k in keys for x in (k, val(k))),)
    want_s = (tuple(keys),)
    for obj, want, nm in ((b, want_b, "Bucket"), (s, want_s, "Set")):
        got = obj.__getstate__()
        if got != want or [type(x) for x in got[0]] != [type(x) for x in want[0]]:
            bad.append("%%s%%s of %%d entries: __getstate__() == %%r, documented %%r" %% (fam, nm, n, got, want))
        nxt = type(obj)()
        obj2 = type(obj)()
        obj2.__setstate__(want + (nxt,))
        got2 = obj2.__getstate__()
        if len(got2) != 2 or got2[0] != want[0] or got2[1] is not nxt:
            bad.append("%%s%%s of %%d entries with a successor: __getstate__() == %%r" %% (fam, nm, n, got2))
# allocation failures inside __getstate__ (CPython's own allocator: _testcapi.set_nomemory) must surface as MemoryError
try:
    import _testcapi
except ImportError:
    _testcapi = None
if _testcapi is not None and fam[0] != "O":
    class T(getattr(M, fam + "BTree")):
        max_leaf_size = 2; max_internal_size = 4
    t = T()
    for k in range(1000, 1008):
        t[k] = val(k)
    for n in range(0, 40):
        try:
            _testcapi.set_nomemory(n, n + 1)
            try:
                t.__getstate__()
            finally:
                _testcapi.remove_mem_hooks()
        except MemoryError:
            pass
        except BaseException as e:
            bad.append("%%sBTree.__getstate__ with allocation %%d failing: %%s: %%s (expected MemoryError)" %% (fam, n, type(e).__name__, e)); break
print("\n".join(bad[:8]) or "no violation")
sys.exit(1 if bad else 0)
'''


def replay_fstate(ctx, res):
    """F-STATE has no input of its own: the replay compares __getstate__ of C leaves (with and without a successor)
    with the documented tuples."""
    import re
    from lib import build
    done = {}
    for o in res.obligations:
        if o.status not in ("refuted", "unknown") or not o.name.startswith("F-STATE"):
            continue
        fm = re.match(r"\[(\w\w)\]", o.detail or "")
        if not fm:
            continue
        fam = fm.group(1)
        if fam not in done:
            valexpr = {"O": "'v%d' % k", "F": "k + 0.5"}.get(fam[1], "k * 7")
            script = FSTATE_SCRIPT % {"fam": fam, "valexpr": valexpr}
            try:
                bdir = build.build((fam,))
                e = dict(os.environ, PYTHONPATH=bdir + os.pathsep + VERIF)
                p = subprocess.run([PY, "-c", script], env=e, capture_output=True, text=True, timeout=300)
                crashed = p.returncode < 0
                done[fam] = {"reproduced": p.returncode == 1 or crashed,
                             "outcome": ("the interpreter was killed by signal %d: " % -p.returncode if crashed else "") +
                             (p.stdout + p.stderr)[-1500:], "script": script, "families": [fam]}
            except Exception as ex:
                done[fam] = {"reproduced": False, "outcome": "replayer error: %r" % (ex,)}
        o.replay = done[fam]


MNULL_SCRIPT = r'''
import sys, importlib
fam = %(fam)r
M = importlib.import_module("BTrees._%%sBTree" %% fam)
bad = []
key = (lambda k: k) if fam[0] != "f" else (lambda k: bytes([0, k]))
val = %(valexpr)s
class T(getattr(M, fam + "BTree")):
    max_leaf_size = 2; max_internal_size = 4
def build():
    t = T()
    for k in range(100, 110):
        t[key(k)] = val(k)
    return t
# 1. arguments whose protocol methods fail at every stage (an exception is fine, a crash is not)
class ItemsNotIterable:
    def items(self): return 5
class ItemsRaises:
    def items(self): raise ValueError("x")
class IterRaises:
    def __iter__(self): raise ValueError("x")
    def __len__(self): return 1
    def __getitem__(self, i): raise ValueError("x")
for kind in ("BTree", "Bucket"):
    for arg in (ItemsNotIterable(), ItemsRaises(), IterRaises(), [1], [(1,)], 5, None):
        c = getattr(M, fam + kind)()
        try:
            c.update(arg)
        except Exception:
            pass
for kind in ("TreeSet", "Set"):
    for arg in (IterRaises(), 5, None):
        c = getattr(M, fam + kind)()
        try:
            c.update(arg)
        except Exception:
            pass
# 2. CPython's allocator failing at the n-th allocation inside an operation: MemoryError or the result, nothing else
try:
    import _testcapi
except ImportError:
    _testcapi = None
if _testcapi is not None:
    ops = {"__getstate__": lambda t: t.__getstate__(), "keys": lambda t: list(t.keys()), "items": lambda t: list(t.items()),
           "values": lambda t: list(t.values()), "minKey": lambda t: t.minKey(), "repr": lambda t: repr(t),
           "byValue": (lambda t: t.byValue(val(100))) if fam[1] in "IFLUQ" else (lambda t: None),
           "get": lambda t: t.get(key(105)), "pop": lambda t: t.pop(key(105), None), "setdefault": lambda t: t.setdefault(key(120), val(1))}
    for name, op in ops.items():
        for n in range(0, 25):
            t = build()
            try:
                _testcapi.set_nomemory(n, n + 1)
                try:
                    op(t)
                finally:
                    _testcapi.remove_mem_hooks()
            except MemoryError:
                pass
            except SystemError as e:
                bad.append("%%sBTree.%%s with allocation %%d failing: SystemError: %%s" %% (fam, name, n, e)); break
            except Exception:
                pass
print("\n".join(bad[:8]) or "no violation")
sys.exit(1 if bad else 0)
'''


def replay_mnull(ctx, res):
    """M-NULL has no input of its own: the replay offers arguments whose protocol methods fail at every stage and lets
    CPython's allocator fail at the n-th allocation inside a dozen operations (_testcapi.set_nomemory); a crash of the
    interpreter or a SystemError counts as reproduced."""
    import re
    from lib import build
    done = {}
    for o in res.obligations:
        if o.status not in ("refuted", "unknown") or not o.name.startswith("M-NULL"):
            continue
        fm = re.match(r"\[(\w\w)\]", o.detail or "")
        if not fm:
            continue
        fam = fm.group(1)
        if fam not in done:
            valexpr = {"O": "(lambda k: 'v%d' % k)", "F": "(lambda k: k + 0.5)", "s": "(lambda k: b'v%05d' % k)"}.get(fam[1], "(lambda k: k * 7)")
            script = MNULL_SCRIPT % {"fam": fam, "valexpr": valexpr}
            try:
                bdir = build.build((fam,))
                e = dict(os.environ, PYTHONPATH=bdir + os.pathsep + VERIF)
                p = subprocess.run([PY, "-c", script], env=e, capture_output=True, text=True, timeout=300)
                crashed = p.returncode < 0
                done[fam] = {"reproduced": p.returncode == 1 or crashed,
                             "outcome": ("the interpreter was killed by signal %d while running the fault probes: " % -p.returncode if crashed else "") +
                             (p.stdout + p.stderr)[-1500:], "script": script, "families": [fam]}
            except Exception as ex:
                done[fam] = {"reproduced": False, "outcome": "replayer error: %r" % (ex,)}
        o.replay = done[fam]
