from props import _generic as g


def run(ctx):
    fns = g.run_pyvc(ctx, "C06")
    ctx.standin("pickle_rt", families=tuple("OO,II,LF,fs".split(",")))
    return "exploration", "bounded stand-in pickle_rt (no obligation of the deductive engines serves C06 yet)"
