"""Bounded stand-in for C06 (serialized state round-trips, identically in C
and Python).  Oracle = the property statement:

  "For every reachable container, __getstate__/__setstate__, pickle (all
   protocols) and copy reproduce a container with equal ordered contents that
   is itself sound and fully usable.  The C and pure-Python implementations
   emit byte-identical pickles for the same history and each loads the
   other's pickles, so a database can be read and written by either."

The C and the Python container are driven in lockstep through histories of
public calls (rtc.harness); the reference sorted map gives the expected
ordered contents.  For every distinct state reached, every way of
serializing is tried and the reproduced container is judged by
  contents : list(items) / len equal the reference's,
  sound    : the independent walker (harness.walk), _check() and
             BTrees.check.check() accept it,
  usable   : a fixed series of inserts / deletes / lookups on it (enough to
             split a leaf) gives the reference's results and leaves it sound.
A Python-only deployment is emulated by an Unpickler that resolves the class
names in a pickle (always the C names) to the *Py classes.

Containers reachable only IN A DATABASE (db_sweep; rtc.stubdb is the stated
model of a ZODB connection: one record per oid = pickle of __getstate__() with
persistent references, written for exactly the registered + newly reachable
objects).  A C tree and a Python tree, each in a database of its own, are
driven through the same history of calls and commits: filled (one leaf ..
several levels), optionally committed (then every leaf is a stored object with
its OWN oid; otherwise no leaf ever had one), shrunk by deletions to ONE leaf
(the lowest / highest / a middle one), committed, and that leaf is then
modified further (value replaced, key added, key removed, grown until it
splits again, emptied, refilled), with a commit after every step.  After every
commit, from the statement:
  "byte-identical pickles for the same history": the two trees use the same
      state form (None | inlined leaf | children + firstbucket) with the same
      typed items, and the records the two commits wrote are the same bytes
      under the same oids;
  "reproduce a container with equal ordered contents that is itself sound and
   fully usable": a FRESH connection that loads the records sees exactly the
      reference contents (= the writer's), in a sound, usable tree; so does
      the writer itself after its cache was swept (every second scenario);
  "each loads the other's ... a database can be read and written by either":
      the same for a reader of the OTHER implementation on a copy of the
      storage; at the end that reader adds a key to the leaf and commits, and
      the first implementation reads the result.
"""
import argparse
import concurrent.futures as cf
import copy
import io
import multiprocessing
import os
import pickle
import sys

from lib.common import Standin, Failure, write_standin
from rtc import harness as H

PROTOCOLS = range(0, pickle.HIGHEST_PROTOCOL + 1)


class FloatSub(float):
    """A float subclass instance is a legal value of the F families; both
    implementations must store (and pickle) the plain number."""


class PyUnpickler(pickle.Unpickler):
    """What a deployment without the C extensions does: BTrees.XXBTree.XXBTree
    names the pure-Python class there."""

    def find_class(self, module, name):
        cls = super().find_class(module, name)
        if module.startswith("BTrees.") and not name.endswith("Py"):
            return getattr(sys.modules[module], name + "Py", cls)
        return cls


def loads_as(impl, data):
    return pickle.loads(data) if impl == "c" else PyUnpickler(io.BytesIO(data)).load()


def typed_state(t):
    """__getstate__ walked recursively; class names normalised (no Py), every
    key/value with its exact type: equal typed states must pickle equally."""
    def rec(x):
        if isinstance(x, tuple):
            return tuple(rec(y) for y in x)
        if hasattr(x, "__getstate__") and type(x).__module__.startswith("BTrees"):
            return (type(x).__name__.replace("Py", ""), rec(x.__getstate__()))
        return (type(x).__name__, x)
    return rec(t.__getstate__())


def implementations(u):
    """The set of implementations ('c' / 'py') of the nodes named by the state
    of u.  A reproduced container must be of ONE implementation: a C node
    reads its children as C structs, so a mixture cannot be used at all (the
    walk only calls __getstate__, which is safe on such a mixture)."""
    from BTrees._base import _Base
    out = set()

    def rec(x):
        if isinstance(x, tuple):
            for y in x:
                rec(y)
        elif hasattr(x, "__getstate__") and hasattr(x, "_p_oid"):
            out.add("py" if isinstance(x, _Base) else "c")
            rec(x.__getstate__())
    rec(u)
    return out


def inlined_nonroot_leaf(t):
    """True if some NON-root interior node serializes its only leaf inline
    (the C04/C06 finding: the previous leaf's next pointer names that leaf as
    a separate object, so the serialized chain is broken).  Used only to give
    that finding its own failure key, never to silence it."""
    def rec(node, root):
        st = node.__getstate__()
        if st is None:
            return False
        if len(st) == 1:
            return not root
        return any(rec(k, False) for k in st[0][0::2] if type(k) is type(t))
    return rec(t, True)


def make_subclasses(fam, kind, impl, sizes):
    """A tree subclass whose leaves are a subclass of the stock leaf type (the
    supported `_bucket_type` override of tests/test_btreesubclass.py).  The
    classes are registered in this module so that pickle finds them."""
    base = H.get_class(fam, kind, impl)
    leafbase = H.get_class(fam, "Bucket" if kind == "BTree" else "Set", impl)
    sfx = "%s%s_%s" % (fam, kind, impl)
    leaf = type("Leaf_" + sfx, (leafbase,), {"__module__": __name__})
    tree = type("Tree_" + sfx, (base,), {"__module__": __name__, "_bucket_type": leaf,
                                         "max_leaf_size": sizes[0], "max_internal_size": sizes[1]})
    g = sys.modules[__name__].__dict__
    g[leaf.__name__], g[tree.__name__] = leaf, tree
    return tree


class Config:
    def __init__(self, fam, kind, sizes, sub):
        self.fam, self.kind, self.sizes, self.sub = fam, kind, sizes, sub
        self.is_set = kind in ("Set", "TreeSet")
        self.is_tree = kind in ("BTree", "TreeSet")
        if sub:
            self.cls = {i: make_subclasses(fam, kind, i, sizes) for i in ("c", "py")}
        else:
            self.cls = {i: H.get_class(fam, kind, i, *(sizes if self.is_tree else (None, None))) for i in ("c", "py")}
        self.universe = H.keys_of(fam, 15)            # 0..11 used by histories, 12..14 kept fresh
        self.vals = H.values_of(fam)
        self.failed = {}                              # key -> count (at most 2 reports per key and configuration)

    def tag(self):
        return "%s%s%s sizes=%s" % (self.fam, self.kind, " (leaf subclass)" if self.sub else "", self.sizes)

    def alphabet(self):
        keys = self.universe[:12]
        core = H.alphabet(self.fam, self.is_set, keys[:5], self.vals, rich=False, tree=self.is_tree)
        full = H.alphabet(self.fam, self.is_set, keys, self.vals, rich=True, tree=self.is_tree)
        # inputs that are instances of int / float *subclasses* (bool, FloatSub)
        if self.fam[0] in "ILUQ":
            full += [("add", True)] if self.is_set else [("setitem", True, self.vals[0])]
        if not self.is_set and self.fam[1] in "ILUQ":
            full += [("setitem", keys[2], True)]
        if not self.is_set and self.fam[1] == "F":
            full += [("setitem", keys[2], FloatSub(1.5))]
        return core, full

    def ramps(self):
        """fill n keys in order, then thin out: every state form on purpose."""
        put = (lambda k: ("add", k)) if self.is_set else (lambda k: ("setitem", k, self.vals[0]))
        rem = (lambda k: ("remove", k)) if self.is_set else (lambda k: ("delitem", k))
        keys = self.universe[:12]
        for n in range(0, 13):
            yield tuple(put(k) for k in keys[:n])
            yield tuple(put(k) for k in reversed(keys[:n]))
            yield tuple(put(k) for k in keys[:n]) + tuple(rem(k) for k in keys[1:n:2])
            yield tuple(put(k) for k in keys[:n]) + tuple(rem(k) for k in keys[:n // 2])


class Reporter:
    def __init__(self, s, cfg, hist):
        self.s, self.cfg, self.hist = s, cfg, hist

    def fail(self, impl, clause, via, desc, **extra):
        cfg = self.cfg
        key = "pickle:%s:%s:%s:%s" % (impl, cfg.kind + ("-leafsubclass" if cfg.sub else ""), clause, via)
        cfg.failed[key] = cfg.failed.get(key, 0) + 1
        if cfg.failed[key] > 2:
            return
        repro = {"family": cfg.fam, "kind": cfg.kind, "sizes": list(cfg.sizes), "leaf_subclass": cfg.sub,
                 "history": [list(map(repr, o)) for o in self.hist]}
        repro.update(extra)
        self.s.failures.append(Failure(key=key, desc="%s: %s" % (cfg.tag(), desc), repro=repro))


def judge(cfg, u, expected, mutate):
    """-> None | (clause, text).  contents / sound / usable, from the statement."""
    is_set, is_tree = cfg.is_set, cfg.is_tree

    def sound(when, want):
        try:
            if is_tree:
                c, _, _ = H.walk(u, is_set)
                if c != want:
                    return ("unsound", "%s the leaf chain holds %r, expected %r" % (when, c, want))
                u._check()
                if not cfg.sub:                       # BTrees.check knows the stock classes only
                    from BTrees.check import check
                    check(u)
        except H.Damage as e:
            return ("unsound", "%s: %s" % (when, e))
        except AssertionError as e:
            return ("unsound", "%s a package checker rejects it: %s" % (when, e))
        return None

    try:
        if len(implementations(u)) > 1:
            return ("mixed-implementations", "a %s whose children are %s objects (using it crashes the interpreter; not used)"
                    % (type(u).__name__, type(u._firstbucket).__name__))
        got = H.contents(u, is_set)
        if got != expected or len(u) != len(expected) or bool(u) != bool(expected):
            return ("contents", "contents %r (len %d), expected %r" % (got, len(u), expected))
        bad = sound("as reproduced", expected)
        if bad or not mutate:
            return bad
        # usable: lookups, three inserts of fresh keys (splits a leaf of size <= 3), two deletes
        ref = H.RefMap(is_set)
        for e in expected:
            ref.d[e if is_set else e[0]] = None if is_set else e[1]
        fresh, have = cfg.universe[12:15], ref.keys()
        ops = [("contains", k) for k in have[:2] + fresh[:1]]
        ops += [("add", k) if is_set else ("setitem", k, cfg.vals[1]) for k in fresh]
        ops += [("remove", k) if is_set else ("delitem", k) for k in (have[:1] + have[len(have) // 2:][:1])]
        ops += [("len",)] + ([] if is_set else [("get", k) for k in have[-1:]])
        for op in ops:
            r_ref, r_imp = H.apply_ref(ref, op), H.apply_impl(u, op)
            if not H.same_result(r_imp, r_ref):
                return ("unusable", "call %r on it returned %r, expected %r" % (op, r_imp, r_ref))
        got = H.contents(u, is_set)
        if got != ref.contents():
            return ("unusable", "after %r contents %r, expected %r" % (ops, got, ref.contents()))
        bad = sound("after further use", ref.contents())
        return bad and ("unusable", bad[1])
    except Exception as e:
        return ("unusable", "using it raised %s: %s" % (type(e).__name__, e))


def sweep(s, cfg, trees, expected, hist):
    """All serializations of one reached state (trees: impl -> container)."""
    rep = Reporter(s, cfg, hist)
    suffix = ":inlined-nonroot-leaf" if cfg.is_tree and inlined_nonroot_leaf(trees["c"]) else ""

    def attempt(impl, via, make, mutate, **extra):
        s.evaluations += 1
        try:
            u = make()
        except Exception as e:
            rep.fail(impl, "raises", via, "%s raised %s: %s" % (via, type(e).__name__, e), **extra)
            return None
        if type(u) not in cfg.cls.values():           # (the Python classes reduce to the C classes by design)
            rep.fail(impl, "class", via, "%s gave a %s" % (via, type(u).__name__), **extra)
            return None
        bad = judge(cfg, u, expected, mutate)
        if bad:
            rep.fail(impl, bad[0], via + (suffix if bad[0] in ("contents", "unsound", "unusable") else ""),
                     "%s (%s): %s" % (via, impl, bad[1]), **extra)
        return None if bad else u

    shared = {}
    for impl, t in trees.items():
        # these two share the children of `t`: read-only judgement here, mutation at the very end
        def via_setstate(t=t, impl=impl):
            u = cfg.cls[impl]()
            u.__setstate__(t.__getstate__())
            return u
        attempt(impl, "setstate(getstate)", via_setstate, False)
        shared[impl] = attempt(impl, "copy.copy", lambda t=t: copy.copy(t), False)
        attempt(impl, "copy.deepcopy", lambda t=t: copy.deepcopy(t), True)
    for proto in PROTOCOLS:
        data = {}
        for impl, t in trees.items():
            s.evaluations += 1
            try:
                data[impl] = pickle.dumps(t, proto)
            except Exception as e:
                rep.fail(impl, "raises", "dumps", "pickle.dumps protocol %d raised %s: %s" % (proto, type(e).__name__, e), protocol=proto)
        same = not cfg.sub and len(data) == 2 and data["c"] == data["py"]
        if not cfg.sub and len(data) == 2 and not same:
            # byte identity ("emit byte-identical pickles for the same history")
            # diagnosis for the key only: do the two pickles differ merely in which equal objects are shared (memo)?
            try:
                relay = [pickle.dumps(pickle.loads(data[i]), proto) for i in ("c", "py")]
                st = "object-sharing-only" if relay[0] == relay[1] else "content"
            except Exception:
                st = "content"
            rep.fail("twin", "bytes-differ", st, "protocol %d: C pickle %r, Python pickle %r" % (proto, data["c"], data["py"]), protocol=proto)
        for src, b in data.items():
            for loader in ("c", "py"):
                if cfg.sub and loader != src:
                    continue                          # the subclasses are per implementation
                if same and src == "py":
                    continue                          # identical bytes: both directions are the loads of src == 'c'
                via = "pickle" if loader == src or same else "pickle-%s-to-%s" % (src, loader)
                attempt(loader, via, lambda: loads_as(loader, b), True, protocol=proto, written_by=src if not same else "c=py")
    for impl, u in shared.items():                        # the copy.copy results that were fine so far: now use them
        if u is not None:
            s.evaluations += 1
            bad = judge(cfg, u, expected, True)
            if bad:
                rep.fail(impl, bad[0], "copy.copy" + suffix, "copy.copy (%s), then used: %s" % (impl, bad[1]))


def run_config(s, cfg, n_random, exhaustive_len):
    core, full = cfg.alphabet()
    seen = set()
    seed = H.seed() * 7919 + hash((cfg.fam, cfg.kind, cfg.sizes, cfg.sub)) % 1000
    gens = [cfg.ramps()]
    if not cfg.sub:
        gens.append(H.histories(core, full, seed, exhaustive_len, n_random, 40))
    for gen in gens:
        for h in gen:
            trees = {i: cfg.cls[i]() for i in ("c", "py")}
            ref = H.RefMap(cfg.is_set)
            ok = True
            a = typed_state(trees["c"])
            for i, op in enumerate(h):
                H.apply_ref(ref, op)
                H.apply_impl(trees["c"], op)
                H.apply_impl(trees["py"], op)
                s.evaluations += 1
                # same history => same typed state in both implementations (else the pickles cannot be equal)
                a, b = typed_state(trees["c"]), typed_state(trees["py"])
                if not cfg.sub and a != b:
                    Reporter(s, cfg, h[:i + 1]).fail("twin", "state-differs", op[0], "after %r the states differ: C %r, Python %r" % (op, a, b))
                    ok = False
                    break
            if not ok or (a, tuple(ref.keys())) in seen:
                continue
            seen.add((a, tuple(ref.keys())))
            if not s.samples and cfg.is_tree and len(trees["c"].__getstate__() or ()) == 2:    # one multi-level case, written out
                s.samples.append({"container": cfg.tag(), "history": [list(map(repr, o)) for o in h], "contents": repr(ref.contents()),
                                  "pickle_protocol_2_by_C": repr(pickle.dumps(trees["c"], 2)),
                                  "equal_to_pickle_by_Python": pickle.dumps(trees["c"], 2) == pickle.dumps(trees["py"], 2)})
            sweep(s, cfg, trees, ref.contents(), h)
    return len([x for x in seen if x[1]])                 # non-empty states swept


# ------------------------------------------------------- in a database
def form_of(t):
    """which of the documented state forms a tree uses"""
    st = t.__getstate__()
    if st is None:
        return "empty"
    return {1: "inlined-leaf", 2: "children+firstbucket"}.get(len(st), "undocumented(%d-tuple)" % len(st))


def situation_of(t):
    """The writer's tree, seen through its leaf chain only: empty / one leaf (that is or is not a stored object of
    its own) / several leaves."""
    b = t._firstbucket
    if b is None:
        return "empty"
    if b._next is not None:
        return "several-leaves"
    return "one-leaf-with-own-oid" if b._p_oid is not None else "one-leaf-never-stored"


def twin_class(fam, cls, impl):
    base = cls.__name__.replace("Py", "")
    return getattr(H.family_module(fam), base + ("Py" if impl == "py" else ""))


def storage_for(fam, st, impl):
    """A copy of the storage as a deployment of `impl` sees it (records name the classes; BTrees.XXBTree.XXBTree is
    the Python class where the C extension is missing)."""
    f = st.fork()
    f.cls = {oid: twin_class(fam, c, impl) for oid, c in f.cls.items()}
    return f


def records_of(st, tid):
    """{oid: (class name without Py, record bytes)} written by transaction tid"""
    return {oid: (st.cls[oid].__name__.replace("Py", ""), st.load_serial(oid, tid)) for oid in st.log.get(tid, ())}


def db_schedules(cfg):
    """-> (label, fill, commit after the fill?, shrink, steps); a step = (name, ops) followed by a commit.  See the
    module docstring."""
    is_set, vals = cfg.is_set, cfg.vals
    put = (lambda k, v=0: ("add", k)) if is_set else (lambda k, v=0: ("setitem", k, vals[v]))
    rem = (lambda k: ("remove", k)) if is_set else (lambda k: ("delitem", k))
    U = cfg.universe                                      # 15 values
    leaf = cfg.sizes[0]
    for n in (1, 2, 3, 4, 5, 7, 9, 13):
        ks = U[1:n + 1]                                   # U[0] and U[n+1:] stay free
        for order in ("asc", "desc"):
            fill = tuple(put(k) for k in (ks if order == "asc" else ks[::-1]))
            for stored in (True, False):
                for m in (1, 2):
                    if m > n or m > leaf:
                        continue
                    for where in ("lowest", "highest", "middle"):
                        lo = {"lowest": 0, "highest": n - m, "middle": (n - m) // 2}[where]
                        keep = ks[lo:lo + m]
                        gone = [k for k in ks if k not in keep]
                        if not gone and (where != "lowest" or not stored):
                            continue                      # nothing to shrink: one variant is enough
                        for dorder in ("asc", "desc"):
                            if dorder == "desc" and len(gone) < 2:
                                continue
                            shrink = tuple(rem(k) for k in (gone if dorder == "asc" else gone[::-1]))
                            fresh = [k for k in U if k not in ks]
                            steps = [("after-shrink-to-one-leaf", shrink)]
                            if not is_set:
                                steps.append(("after-value-change-in-that-leaf", (put(keep[0], 1),)))
                            steps.append(("after-insert-into-that-leaf", (put(fresh[0]),)))
                            steps.append(("after-delete-from-that-leaf", (rem(fresh[0]),)))
                            steps.append(("after-regrowing-that-leaf", tuple(put(k) for k in gone[:leaf + 1] + fresh[1:3])))
                            steps.append(("after-emptying", tuple(rem(k) for k in sorted(set(keep + gone[:leaf + 1] + fresh[1:3])))))
                            steps.append(("after-refill", (put(ks[0]), put(fresh[0], 1))))
                            label = "fill-%d-%s:%s:keep-%d-%s:delete-%s" % (n, order, "committed" if stored else "not-committed", m, where, dorder)
                            yield label, fill, stored, steps


def db_sweep(s, cfg):
    """-> number of distinct (situation, step, state form) combinations with a non-empty tree"""
    from rtc import stubdb
    is_set = cfg.is_set
    combos = set()
    done = cut = 0
    for idx, (label, fill, stored, steps) in enumerate(db_schedules(cfg)):
        evict = bool(idx % 2)
        sts = {i: stubdb.Storage() for i in ("c", "py")}
        conns = {i: sts[i].open() for i in sts}
        trees = {i: cfg.cls[i]() for i in sts}
        oids = {i: conns[i].add(trees[i]) for i in sts}
        ref = H.RefMap(is_set)
        hist = []
        rep = Reporter(s, cfg, hist)
        segments = [("after-fill", fill)] if stored else []
        segments += steps
        if not stored:
            segments[0] = (segments[0][0], fill + segments[0][1])
        ok = True
        for step, ops in segments:
            for op in ops:
                H.apply_ref(ref, op)
                for i in trees:
                    H.apply_impl(trees[i], op)
                hist.append(op)
            expected = ref.contents()
            sit = {i: situation_of(trees[i]) for i in trees}
            via = "%s:%s" % (sit["c"] if sit["c"] == sit["py"] else "c-%s/py-%s" % (sit["c"], sit["py"]), step)
            suffix = ":inlined-nonroot-leaf" if inlined_nonroot_leaf(trees["c"]) else ""
            extra = {"schedule": label, "step": step, "writer_cache_swept_after_commit": evict}
            # the writers themselves (guards the comparison below; a difference here is C01's, reported all the same)
            for i in trees:
                s.evaluations += 1
                if H.contents(trees[i], is_set) != expected:
                    rep.fail(i, "contents", "db-writer:" + via, "the writer itself holds %r, expected %r" % (H.contents(trees[i], is_set), expected), **extra)
                    ok = False
            if not ok:
                break
            # same history => same state form, same typed items
            s.evaluations += 1
            fc, fp = form_of(trees["c"]), form_of(trees["py"])
            if fc != fp or typed_state(trees["c"]) != typed_state(trees["py"]):
                rep.fail("twin", "state-differs", "db:" + via, "before the commit the C tree stores %s %r, the Python tree %s %r"
                         % (fc, typed_state(trees["c"]), fp, typed_state(trees["py"])), **extra)
            hist.append(("commit",))
            tids = {}
            for i in trees:
                s.evaluations += 1
                try:
                    tids[i] = conns[i].commit()
                except Exception as e:
                    rep.fail(i, "raises", "db-commit:" + via, "commit raised %s: %s" % (type(e).__name__, e), **extra)
                    ok = False
            if not ok:
                break
            if expected:
                combos.add((via, fc))
            # "byte-identical pickles for the same history": the records of this transaction
            s.evaluations += 1
            rc, rp = records_of(sts["c"], tids["c"]), records_of(sts["py"], tids["py"])
            if rc != rp:
                def plain(st, recs):
                    """the records un-pickled (references as placeholders), every item with its exact type"""
                    def typed(x):
                        if isinstance(x, tuple):
                            return tuple(typed(y) for y in x)
                        return ("ref", x.oid) if isinstance(x, stubdb.Ref) else (type(x).__name__, x)
                    return {oid: (name, typed(st.open()._loads(data, stubdb.Ref))) for oid, (name, data) in recs.items()}
                # diagnosis for the key only: equal states whose pickles differ merely in which equal objects are shared (memo)?
                try:
                    kind = "object-sharing-only" if plain(sts["c"], rc) == plain(sts["py"], rp) else "db-record:" + via
                except Exception:
                    kind = "db-record:" + via
                show = lambda r: {stubdb.u64(o): v for o, v in sorted(r.items())}
                rep.fail("twin", "bytes-differ", kind, "the records written by the commit differ: C %r, Python %r" % (show(rc), show(rp)), **extra)
            # fresh readers: the same implementation, and the other one on a copy of the storage
            for w in ("c", "py"):
                for r in ("c", "py"):
                    s.evaluations += 1
                    st = sts[w] if r == w else storage_for(cfg.fam, sts[w], r)
                    how = "db-reload" if r == w else "db-reload-%s-written-by-%s" % (r, w)
                    try:
                        u = st.open().get(oids[w])
                        bad = None
                        if type(u) is not cfg.cls[r]:
                            bad = ("class", "the reader got a %s" % type(u).__name__)
                        if not bad:
                            try:
                                H.walk(u, is_set)
                            except H.Damage as e:
                                bad = ("unsound", "as loaded: %s" % e)
                        bad = bad or judge(cfg, u, expected, True)
                    except Exception as e:
                        bad = ("raises", "loading raised %s: %s" % (type(e).__name__, e))
                    if bad:
                        rep.fail(r, bad[0], "%s:%s%s" % (how, via, suffix if bad[0] in ("contents", "unsound", "unusable") else ""),
                                 "a fresh %s reader of the records written by %s: %s" % (r, w, bad[1]), written_by=w, **extra)
                        ok = False
            if evict:
                for i in trees:
                    s.evaluations += 1
                    conns[i].sweep()
                    try:
                        got = H.contents(trees[i], is_set)
                        bad = None if got == expected else "holds %r, expected %r" % (got, expected)
                    except Exception as e:
                        bad = "raised %s: %s" % (type(e).__name__, e)
                    if bad:
                        rep.fail(i, "contents", "db-writer-after-cache-sweep:%s%s" % (via, suffix), "the writer after cache.minimize() " + bad, **extra)
                        ok = False
            if not ok:
                break                                     # what follows would be a consequence
        if not ok:
            cut += 1
            continue
        done += 1
        if not s.samples and stored and cfg.sizes[0] > 2 and len(fill) > 4 and not is_set:
            tc = trees["c"]
            s.samples.append({"database": "rtc.stubdb", "container": cfg.tag(), "schedule": label,
                              "history": [list(map(repr, o)) for o in hist], "final_contents": repr(ref.contents()),
                              "final_state_form_C_and_Python": form_of(tc),
                              "checked_after_every_commit": "state form + typed items C = Python; records byte-identical; fresh reader "
                              "(same and other implementation) sees the reference contents in a sound, usable tree"})
        # "read and written by either": the other implementation takes over the database, changes the leaf, hands it back
        fresh = [k for k in cfg.universe if k not in ref.d][0]
        op = ("add", fresh) if is_set else ("setitem", fresh, cfg.vals[1])
        H.apply_ref(ref, op)
        for w in ("c", "py"):
            o = "py" if w == "c" else "c"
            s.evaluations += 1
            try:
                st = storage_for(cfg.fam, sts[w], o)
                c = st.open()
                u = c.get(oids[w])
                H.apply_impl(u, op)
                c.commit()
                back = storage_for(cfg.fam, st, w).open().get(oids[w])
                bad = judge(cfg, back, ref.contents(), True)
            except Exception as e:
                bad = ("raises", "%s: %s" % (type(e).__name__, e))
            if bad:
                rep.fail(w, bad[0], "db-handover:written-by-%s-then-%s:%s" % (w, o, situation_of(trees[w])),
                         "database written by %s, then %r committed by %s, read again by %s: %s" % (w, op, o, w, bad[1]), schedule=label)
    s.samples.append({"db_counts": True, "schedules_run_to_the_end": done, "schedules_cut_short_by_a_failure": cut,
                      "situation_step_form_combinations": sorted("%s -> %s" % c for c in combos)})
    return len(combos)


def run_job(job):
    fam, kind, sizes, sub, n_random, exh = job
    part = Standin(name="part", bound="")
    if n_random == "db":
        distinct = db_sweep(part, Config(fam, kind, sizes, sub))
    else:
        distinct = run_config(part, Config(fam, kind, sizes, sub), n_random, exh)
    return part.evaluations, distinct, part.failures, part.samples


def main():
    ap = argparse.ArgumentParser()
    ap.add_argument("--out")
    a = ap.parse_args()
    qs = H.tier() == "quick"
    n_random, exh = (25, 2) if qs else (400, 3)
    s = Standin(name="pickle_rt",
                bound="per family, kind (BTree, TreeSet, Bucket, Set) and node sizes (3,3),(2,2): every distinct state reached by "
                      "(a) ordered fills of 0..12 keys, reversed fills, fills thinned by deleting every other key / the lower half, "
                      "(b) every history of <=%d set/del (add/remove) calls over 5 keys, (c) %d seeded histories of 20..40 calls over the "
                      "whole public alphabet on 12 keys incl. bool / float-subclass inputs; plus the ramps (a) on a tree subclass whose "
                      "`_bucket_type` is a leaf subclass (2,3).  Per state: setstate(getstate), copy.copy, copy.deepcopy, pickle protocols "
                      "0..%d written by C and by Python, loaded by C and by Python (class names resolved to *Py).  DATABASE (rtc.stubdb; "
                      "BTree and TreeSet, sizes (3,3),(2,2)): a C and a Python tree in lockstep, each in its own storage: fill 1,2,3,4,5,7,9,13 "
                      "keys (ascending / descending), commit or not (the leaves then have / never had an oid), delete down to the 1 or 2 "
                      "lowest / highest / middle keys (ascending / descending deletes) = ONE leaf, commit, then on that leaf: replace a value, "
                      "add a key, remove it, add leaf-size+3 keys (splits again), delete all, add two - a commit after every step; per commit: "
                      "state form and typed state C = Python, records byte-identical, fresh reader of the same and of the other implementation "
                      "(classes of a storage copy swapped) judged for contents / soundness / usability, writer re-read after cache.minimize() "
                      "in every second schedule; at the end the other implementation adds a key and commits, the first one reads it"
                      % (exh, n_random, PROTOCOLS[-1]),
                rule="case = one serialization (or one lockstep call) of one reached state, or one comparison / fresh reader after one commit; "
                     "distinct non-trivial = distinct non-empty typed states (shape + keys + values) swept + distinct (writer situation, "
                     "step, state form) combinations committed with a non-empty tree",
                functions=["bucket_getstate", "_bucket_setstate", "_set_setstate", "BTree_getstate", "_BTree_setstate",
                           "_Tree.__getstate__/__setstate__", "Bucket/Set.__getstate__/__setstate__", "_Base.__reduce__ (class swap)",
                           "_BTree_set / _Tree._set, _del (which object is marked changed when the single leaf changes)"])
    jobs = []
    for fam in H.fams():
        for kind in ("BTree", "TreeSet", "Bucket", "Set"):
            tree = kind in ("BTree", "TreeSet")
            jobs += [(fam, kind, sizes, False, n_random, exh) for sizes in ([(3, 3), (2, 2)] if tree else [(None, None)])]
            if tree:
                jobs.append((fam, kind, (2, 3), True, 0, 0))
                jobs += [(fam, kind, sizes, False, "db", 0) for sizes in ((3, 3), (2, 2))]
    # configurations are independent: spread them over the cores (results are merged in job order)
    ctx = multiprocessing.get_context("fork")
    with cf.ProcessPoolExecutor(max_workers=min(16, os.cpu_count() or 1, len(jobs)), mp_context=ctx) as ex:
        db = {"schedules_run_to_the_end": 0, "schedules_cut_short_by_a_failure": 0, "situation_step_form_combinations": set()}
        first = {}
        for evaluations, distinct, failures, samples in ex.map(run_job, jobs):
            s.evaluations += evaluations
            s.distinct_nontrivial += distinct
            s.failures.extend(failures)
            for x in samples:
                if x.get("db_counts"):
                    for k in db:
                        db[k] = db[k] + x[k] if isinstance(db[k], int) else db[k] | set(x[k])
                else:
                    first.setdefault("db" if "database" in x else "memory", x)
        s.samples = [first[k] for k in ("memory", "db") if k in first]
        db["situation_step_form_combinations"] = sorted(db["situation_step_form_combinations"])
        s.samples.append({"database_part": db})
    write_standin(a.out, s)


if __name__ == "__main__":
    main()
