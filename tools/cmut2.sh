#!/bin/bash
# cmut2.sh FILE 'sed-expr' <family> <analysis> [functions...]: canary - apply a sed edit to src/BTrees/FILE on a scratch
# worktree of /repo HEAD (outside /repo and /verif), run one Engine-C analysis against it, remove the worktree.
f=$1; ex=$2; fam=$3; kind=$4; shift 4
WT=/tmp/cmut2-$$
git -C /repo worktree add --detach $WT HEAD >/dev/null 2>&1 || exit 1
sed -i "$ex" $WT/src/BTrees/$f
(cd $WT && git diff --stat | tail -1)
cd /verif
VERIF_REPO=$WT .venv/bin/python -m cvc.run $fam $kind "$@" 2>&1 | grep -v "^  File\|^    " | cut -c1-200 | tail -6
git -C /repo worktree remove --force $WT >/dev/null 2>&1
