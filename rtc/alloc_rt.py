"""Bounded stand-in for C17 (running out of memory), C implementation only.

Oracle = the property statement: "If a memory allocation fails at any point
inside an operation of the C implementation, the caller gets MemoryError and
the container remains sound and usable with either its previous contents or
the completed change; no freed or unowned memory is referenced afterwards."

Uses the hook compiled in by lib/build.py (-DBTREES_VERIF):
`BTrees._XXBTree._verif_fail_alloc(n)` makes the n-th BTree_Malloc /
BTree_Realloc from now fail and returns the number of wrapped allocations since
the previous call.  A *scenario* builds fresh containers and names one call; it
is first run without fault (N allocations; its result and post-state define
"the completed change" - whether that is the right change is C01/C10/C07's
business), then once per n = 1..N+1 with the n-th allocation failing:
  wrong-exception  the call raised something other than MemoryError (or raised
                   although the failing allocation was never reached)
  result/contents  the call completed but result or post-state differ from the
                   unfaulted run; or it raised and some container holds neither
                   its previous contents nor the completed ones (for update /
                   constructors, which are a sequence of inserts: nor those of
                   a prefix of the inserts)
  garbage          a container holds keys that were never stored (stale memory)
  stale-pointer    using the containers afterwards changes an unrelated fresh
                   container (a freed block is still referenced)
  damage/checker   walker / _check() reject a container afterwards
  followup         20 inserts + 7 deletes afterwards do not behave like a dict
  crash            the interpreter died (freed memory referenced, double free;
                   glibc MALLOC_PERTURB_ is set so that stale reads show).  Every
                   faulted call runs in a forked process of its own, so a crash
                   is attributed to exactly one (scenario, n)
A call that completes with exactly the unfaulted result although the failing
allocation was reached (a fallback absorbed it) is accepted and counted.
"""
import argparse
import json
import pickle
import sys

from lib.common import Standin, Failure, write_standin
from rtc import harness as H

TREES = ("BTree", "TreeSet")
SETS = ("Set", "TreeSet")


def build(fam, kind, sizes, keys, val=0):
    cls = H.get_class(fam, kind, "c", *(sizes or (None, None)))
    t, v = cls(), H.values_of(fam)[val]
    for k in keys:
        if kind in SETS:
            t.add(k)
        else:
            t[k] = v
    return t


def scenarios(fam, group):
    """-> (op, kind, description, make) ; make() -> (objs [(label, container, kind, sizes)], run(), prefix_runs).
    All trees of one scenario share one pair of node sizes (they are class attributes)."""
    U = H.keys_of(fam, 120)
    v1, v2 = H.values_of(fam)
    mod = H.family_module(fam)

    def sc(op, desc, sz, parts, run, prefixes=(), prep=None, kind=None):
        # parts: [(label, kind, keys)] ; run / prefixes get the containers (+ prep()'s value, computed before arming)
        def make():
            cs = [build(fam, kd, sz if kd in TREES else None, keys) for _, kd, keys in parts]
            objs = [(p[0], c, p[1], sz if p[1] in TREES else None) for p, c in zip(parts, cs)]
            if prep:
                cs.append(prep())
            return objs, (lambda: run(*cs)), [(lambda f=f: f(*cs)) for f in prefixes]
        return op, kind or parts[0][1], "sizes=%s %s" % (sz, desc), make

    def put(t, kind, k, v=v2):
        return t.add(k) if kind in SETS else t.__setitem__(k, v)

    def arg(ks, kd):
        return list(ks) if kd in SETS else [(k, v2) for k in ks]

    if group.startswith("insert-"):         # insert incl. leaf growth, split at each level, root split
        if group == "insert-leaf":
            shapes = [(kd, None, n) for kd in ("Bucket", "Set") for n in (0, 1, 15, 16, 17, 32)]
        else:
            deep = H.tier() != "quick"      # thorough: more keys and one more pair of node sizes
            shapes = [(group[7:], sz, n) for sz in [[2, 2], [3, 2], [2, 3]] + ([[4, 3]] if deep else [])
                      for n in range(0, 16 if deep else 10)]
            shapes += [(group[7:], sz, n) for sz, n in (([40, 3], 16), ([40, 3], 32), ([20, 3], 20))]
        for kd, sz, n in shapes:
            for g in (range(0, 2 * n + 1, 2) if n < 12 else (0, n, 2 * n)):
                yield sc("insert", "%s of %d keys, insert slot %d" % (kd, n, g), sz, [("t", kd, U[1:2 * n:2])],
                         lambda t, kd=kd, g=g: put(t, kd, U[g]))
    elif group == "update":                 # update / constructor: a sequence of inserts (prefixes are acceptable states)
        for kd, sz in (("BTree", [2, 2]), ("TreeSet", [3, 2]), ("Bucket", None), ("Set", None)):
            for n, m in ((0, 5), (4, 5), (15, 6), (0, 20)):
                init, new = U[1:2 * n:2], U[0:2 * m:2][::-1]
                yield sc("update", "%s of %d keys .update(%d new keys, descending)" % (kd, n, m), sz, [("t", kd, init)],
                         lambda t, a=arg(new, kd): t.update(a),
                         [(lambda t, a=arg(new[:j], kd): t.update(a)) for j in range(1, m)])
                yield sc("update-tree", "%s of %d keys .update(tree of %d keys)" % (kd, n, m), sz,
                         [("t", kd, init), ("src", "TreeSet" if kd in SETS else "BTree", sorted(new))],
                         lambda t, s: t.update(s),
                         [(lambda t, s, ks=sorted(new)[:j]: [put(t, kd, k, v1) for k in ks]) for j in range(1, m)])
            yield sc("construct", "%s(20 keys)" % kd, sz, [], kind=kd,
                     run=lambda kd=kd, sz=sz, a=arg(U[:20], kd): H.get_class(fam, kd, "c", *(sz or (None, None)))(a))
    elif group == "algebra":                # union / intersection / difference, operators, in-place, weighted
        fns = [(n, getattr(mod, n)) for n in ("union", "intersection", "difference", "weightedUnion",
                                              "weightedIntersection") if hasattr(mod, n)]
        fns += [("or", lambda a, b: a | b), ("and", lambda a, b: a & b), ("sub", lambda a, b: a - b)]
        inpl = [("ior", lambda a, b: a.__ior__(b)), ("iand", lambda a, b: a.__iand__(b)),
                ("isub", lambda a, b: a.__isub__(b)), ("ixor", lambda a, b: a.__ixor__(b))]
        for ka, kb in (("Set", "Set"), ("Bucket", "Bucket"), ("TreeSet", "TreeSet"), ("BTree", "BTree"), ("BTree", "Set")):
            for na, nb in ((3, 3), (24, 30)):
                parts = [("a", ka, U[0:3 * na:3]), ("b", kb, U[0:2 * nb:2])]
                for name, f in fns + (inpl if ka in SETS and kb in SETS else []):
                    # |= and ^= are element-by-element like update: the states after a prefix of b are acceptable
                    pre = [(lambda a, b, f=f, j=j: f(a, list(b)[:j])) for j in range(1, nb)] if name in ("ior", "ixor") else ()
                    yield sc(name, "%s: %s of %d keys, %s of %d keys" % (name, ka, na, kb, nb), [3, 2], parts, f, pre)
    elif group == "merge":                  # conflict merge of leaf states (result is a state tuple)
        for kd in ("Bucket", "Set", "BTree", "TreeSet"):
            for n in (2, 12, 30):
                k0 = U[10:10 + 2 * n:2]
                parts = [("self", kd, []), ("s0", kd, k0), ("s1", kd, k0[1:] + U[0:4]), ("s2", kd, k0[:-1] + U[90:100])]
                yield sc("resolve", "%s._p_resolveConflict, old state %d keys, +4/-1 and +10/-1" % (kd, n), [60, 3], parts,
                         lambda t, a, b, c: t._p_resolveConflict(a.__getstate__(), b.__getstate__(), c.__getstate__()))
    elif group == "setstate":               # __setstate__ on a fresh and on a populated container
        # max_internal_size 2 is kept once: pickling such a tree is damaged without any fault (C04/C06 finding)
        for kd, sz in (("Bucket", None), ("Set", None), ("BTree", [2, 3]), ("TreeSet", [3, 3]), ("BTree", [2, 2]), ("BTree", [60, 3])):
            for n0 in (0, 3, 20):
                for n in (1, 5, 40):
                    if n0 and kd in TREES and sz[0] < 60:
                        continue            # replacing the state of a multi-node tree is not a public use
                    src = pickle.dumps(build(fam, kd, sz, U[0:2 * n:2], 1))
                    # fs leaves are restored from two bytes objects by a function of their own (bucket_fromBytes)
                    yield sc("setstate-" + ("bytes-" if fam == "fs" and kd in ("Bucket", "BTree") else "") + ("fresh" if not n0 else "populated"),
                             "%s of %d keys .__setstate__(state of %d keys)" % (kd, n0, n), sz, [("t", kd, U[1:2 * n0:2])],
                             lambda t, st: t.__setstate__(st), prep=lambda src=src: pickle.loads(src).__getstate__())
    elif group == "multiunion" and fam[0] in "IULQ" and hasattr(mod, "multiunion"):
        for ns in ((2, 3), (10, 20, 30), (60, 5, 40)):
            parts = [("s%d" % i, ("Set", "TreeSet", "BTree")[i % 3], U[i:i + 2 * n:2]) for i, n in enumerate(ns)]
            yield sc("multiunion", "multiunion of %s keys (Set, TreeSet, BTree)" % (ns,), [3, 2], parts,
                     lambda *cs: mod.multiunion(list(cs)))
            yield sc("multiunion", "multiunion of %d ints + Set" % ns[0], None, parts[:1],
                     lambda s, n=ns[0]: mod.multiunion([list(range(n, 0, -1)), s]))


def summ(x):
    """Result / state normalised for comparison with the unfaulted run."""
    if isinstance(x, (tuple, list)):
        return [summ(y) for y in x]
    if hasattr(x, "__getstate__") and type(x).__module__.startswith("BTrees"):
        return [type(x).__name__, summ(x.__getstate__())]
    return x


def sound(c, kind, sizes):
    """-> contents ; raises Damage / AssertionError."""
    is_set = kind in SETS
    if kind in TREES:
        cont, _, _ = H.walk(c, is_set)     # node-size limits are soft: a node whose split failed stays one over
        c._check()
        if cont != H.contents(c, is_set) or len(c) != len(cont):
            raise H.Damage("walk %r, iteration %r, len %d" % (cont, H.contents(c, is_set), len(c)))
        return cont
    cont = H.contents(c, is_set)
    ks = list(c.keys())
    if len(c) != len(ks) or any(not a < b for a, b in zip(ks, ks[1:])) or any(k not in c for k in ks) or \
            (not is_set and [c[k] for k in ks] != [v for _, v in cont]):
        raise H.Damage("leaf keys %r len %d not a sorted map" % (ks, len(c)))
    return cont


def garbage(c, kind, fam):
    """Keys found in the leaves that were never stored by any scenario (they come from freed memory)."""
    legit, out = set(H.keys_of(fam, 160)), []
    try:
        b, hops = (c._firstbucket if kind in TREES else c), 0
        while b is not None and hops < 500:
            out += [k for k in b.keys() if k not in legit]
            b, hops = (b._next if kind in TREES else None), hops + 1
    except Exception:
        pass
    return out[:4]


def followup(c, kind, fam):
    """The container is usable: 20 inserts and 7 deletes behave like a dict."""
    is_set = kind in SETS
    v = H.values_of(fam)[1]
    model = {k: None for k in c} if is_set else dict(c.items())
    extra = H.keys_of(fam, 160)[130:150]
    for k in extra:
        c.add(k) if is_set else c.__setitem__(k, v)
        model[k] = None if is_set else v
    for k in sorted(model)[::3][:7]:
        c.remove(k) if is_set else c.__delitem__(k)
        del model[k]
    want = sorted(model) if is_set else sorted(model.items())
    if H.contents(c, is_set) != want:
        return "after 20 inserts / 7 deletes contents %r, expected %r" % (H.contents(c, is_set), want)


def run_case(fam, fa, make, base, n):
    """-> ([(clause, detail)...], reached, absorbed) ; base = (before, after, result, accepts) of the unfaulted runs."""
    objs, run, _ = make()
    fa(n)
    exc = res = None
    try:
        res = run()
    except BaseException as e:
        exc = e
    calls = fa(0)
    reached = calls >= n
    before, after, result, accepts = base
    bads = []
    if exc is not None and (not reached or not isinstance(exc, MemoryError)):
        bads.append(("wrong-exception", "raised %s: %s (%d allocations, failing the %d-th)" % (type(exc).__name__, exc, calls, n)))
    if exc is None and summ(res) != result:
        bads.append(("result", "completed with %r, unfaulted run gave %r" % (summ(res), result)))

    def inspect(label, c, kind, sizes, when):
        try:
            return sound(c, kind, sizes)
        except H.Damage as e:
            junk = garbage(c, kind, fam)     # "no freed or unowned memory is referenced afterwards"
            bads.append(("garbage", "%s%s holds %r, never stored (stale memory): %s" % (label, when, junk, e)) if junk
                        else ("damage", "%s%s: %s" % (label, when, e)))
        except AssertionError as e:
            bads.append(("checker", "%s%s: _check(): %s" % (label, when, e)))
        except Exception as e:
            bads.append(("damage", "%s%s: inspecting raised %s: %s" % (label, when, type(e).__name__, e)))

    usable = []
    for i, (label, c, kind, sizes) in enumerate(objs):
        cont = inspect(label, c, kind, sizes, "")
        if cont is None:
            continue
        junk = garbage(c, kind, fam)
        if junk:
            bads.append(("garbage", "%s holds %r, never stored (stale memory)" % (label, junk)))
            continue
        ok = [after[i]] if exc is None else [before[i], after[i]] + [a[i] for a in accepts]
        if cont not in ok:
            bads.append(("contents", "%s holds %r after %s; previous %r, completed %r" % (
                label, cont, "MemoryError" if exc else "completing", before[i], after[i])))
        usable.append((label, c, kind, sizes))
    # witnesses: fresh containers whose arrays have the sizes BTrees frees most (16 slots, split halves); a block
    # that a faulted container freed but still points to is handed to one of them, and the follow-up then shows
    tsz = [sz for _, _, k, sz in objs if k in TREES][:1]
    wit = [build(fam, "Bucket", None, H.keys_of(fam, 16)) for _ in range(3)] + [build(fam, "BTree", tsz[0], H.keys_of(fam, 9)) for _ in tsz]
    wit0 = [H.contents(w, False) for w in wit]
    for label, c, kind, sizes in usable:     # "remains ... usable"
        try:
            msg = followup(c, kind, fam)
        except Exception as e:
            msg = "follow-up workload raised %s: %s" % (type(e).__name__, e)
        if msg:
            bads.append(("followup", "%s: %s" % (label, msg)))
        else:
            inspect(label, c, kind, sizes, " (after the follow-up workload)")
    if [H.contents(w, False) for w in wit] != wit0:
        bads.append(("stale-pointer", "using the containers afterwards changed an unrelated fresh container: freed memory is still referenced"))
    return bads, reached, exc is None and reached and not bads


def unfaulted(fa, make):
    """The call without fault -> (N, base) | None if it raises (not an allocating scenario) |
    ('unfaulted-damage', msg) if already the unfaulted call leaves an unsound container (not C17's finding)."""
    objs, run, prefixes = make()
    before = [H.contents(c, k in SETS) for _, c, k, _ in objs]
    fa(0)
    try:
        res = summ(run())
    except Exception:
        return None
    n = fa(0)
    try:
        after = [sound(c, k, sz) for _, c, k, sz in objs]
    except (H.Damage, AssertionError) as e:
        return "unfaulted-damage", "without any fault: %s" % e
    accepts = []
    for j in range(len(prefixes)):
        o2, _, p2 = make()
        p2[j]()
        accepts.append([H.contents(c, k in SETS) for _, c, k, _ in o2])
    return n, (before, after, res, accepts)


def forked(fn):
    """fn() -> json-able, evaluated in a forked process (a fault injected into one case cannot poison the heap
    of the next one) -> (value | None, wait status, tail of stderr)."""
    import os
    import signal
    import tempfile
    r, w = os.pipe()
    errf = tempfile.TemporaryFile()
    sys.stdout.flush()
    pid = os.fork()
    if pid == 0:
        os.close(r)
        os.dup2(errf.fileno(), 2)
        signal.alarm(60)                     # a hang ends as SIGALRM
        with os.fdopen(w, "w") as out:
            out.write(json.dumps(fn()))
        os._exit(0)                          # reached only after the containers of the case were released
    os.close(w)
    with os.fdopen(r) as f:
        data = f.read()
    status = os.waitpid(pid, 0)[1]
    errf.seek(0)
    err = errf.read().decode("utf-8", "replace")[-300:].strip().replace("\n", " | ")
    return (json.loads(data) if data and not status else None), status, err


def child():
    import importlib
    import signal
    spec = json.load(sys.stdin)
    fam, group = spec["fam"], spec["group"]
    fa = importlib.import_module("BTrees._%sBTree" % fam)._verif_fail_alloc
    evals = reached = absorbed = 0
    keys = set()

    def report(op, kind, desc, clause, detail, n, n_alloc):
        if (kind, clause, op) not in keys:   # first witness of each key of this batch
            keys.add((kind, clause, op))
            print(json.dumps({"op": op, "kind": kind, "desc": desc, "clause": clause, "detail": detail, "n": n,
                              "allocations": n_alloc}), flush=True)

    for op, kind, desc, make in scenarios(fam, group):
        u = unfaulted(fa, make)              # no fault injected: runs in this process
        if u is None:
            continue
        if isinstance(u[0], str):
            report(op, kind, desc, u[0], u[1], 0, 0)
            continue
        n_alloc, base = u
        for n in range(1, n_alloc + 2):
            res, status, err = forked(lambda: run_case(fam, fa, make, base, n))
            evals += 1
            if res is None:                  # the forked interpreter died
                sig = status & 0x7f
                what = "hang" if sig == signal.SIGALRM else "crash"
                reached += 1
                report(op, kind, desc, what, "the interpreter died (wait status %d) during the call, the checks after "
                       "it or releasing the containers: %s" % (status, err), n, n_alloc)
                continue
            bads, hit, absorb = res
            reached += bool(hit)
            absorbed += bool(absorb)
            for bad, detail in bads:
                report(op, kind, desc, bad, detail, n, n_alloc)
    print(json.dumps({"done": True, "evals": evals, "reached": reached, "absorbed": absorbed}), flush=True)


def main():
    ap = argparse.ArgumentParser()
    ap.add_argument("--out")
    ap.add_argument("--child", action="store_true")
    a = ap.parse_args()
    if a.child:
        return child()
    groups = ["insert-BTree", "insert-TreeSet", "insert-leaf", "update", "algebra", "merge", "setstate", "multiunion"]
    s = Standin(name="alloc_rt",
                bound="C only, per family: every scenario x every n in 1..N+1 (N = wrapped allocations of the unfaulted call, "
                      "n-th BTree_Malloc/BTree_Realloc fails): insert into every gap of trees of 0..9 keys (thorough: 0..15, + 4/3) at node sizes "
                      "2/2, 3/2, 2/3 (leaf split, interior split at each level, root split), of fat-leaf trees and of "
                      "Buckets/Sets of 0,1,15,16,17,32 keys; update / constructor from a list and from a tree; union, "
                      "intersection, difference, | & -, weighted*, |= &= -= ^= on 3..30-key operands of all kinds; "
                      "_p_resolveConflict on 2/12/30-key states; __setstate__ of 1/5/40-key states on fresh and populated "
                      "containers; multiunion; every faulted call in a forked process of its own (crash / hang = failure of "
                      "exactly that case)",
                rule="case = one call with the n-th allocation failing + soundness/contents/follow-up checks; distinct "
                     "non-trivial = (scenario, n) pairs in which the failing allocation was reached",
                exhaustive=True,
                functions=["Bucket_grow", "bucket_split", "BTree_grow", "BTree_split", "BTree_split_root", "_bucket_set",
                           "_BTree_set", "_Set_update", "_TreeSet_update", "set_operation", "copyRemaining", "merge_output",
                           "bucket_merge", "_bucket_setstate", "_set_setstate", "_BTree_setstate", "bucket_fromBytes",
                           "multiunion_m", "set_ior/iand/isub/ixor", "TreeSet_ior/iand/isub/ixor"])
    specs = [{"fam": f, "group": g} for f in H.fams() for g in groups]
    absorbed = 0
    for r in H.run_batches("alloc_rt", specs, timeout=300 if H.tier() == "quick" else 1500, max_restarts=0):
        fam, group = r["spec"]["fam"], r["spec"]["group"]
        for o in r["lines"]:
            if o.get("done"):
                s.evaluations += o["evals"]
                s.distinct_nontrivial += o["reached"]
                absorbed += o["absorbed"]
            elif "clause" in o:
                s.failures.append(Failure(
                    key="alloc:c:%s:%s:%s" % (o["kind"], o["clause"], o["op"]),
                    desc="%s %s, failing allocation %d of %d: %s" % (fam, o["desc"], o["n"], o["allocations"], o["detail"]),
                    repro={"family": fam, "group": group, "scenario": o["desc"], "fail_allocation": o["n"]}))
        for c in r["crashes"]:               # the batch process itself only forks; it is not expected to die
            s.error = "batch %s/%s died: rc=%s %s" % (fam, group, c["rc"], c["stderr"][-300:])
    s.samples = [{"family": "II", "scenario": "BTree sizes=[2, 2] of 7 keys, insert slot 14", "fail_allocation": 3,
                  "checked": "MemoryError; walk/_check; contents in {previous, completed}; 20 inserts + 7 deletes behave"},
                 {"calls that completed exactly although the failing allocation was reached (absorbed)": absorbed}]
    write_standin(a.out, s)


if __name__ == "__main__":
    main()
