"""Contracts and the spec-expression evaluator of Engine P.

A contract clause is a Python *expression string*.  It is parsed with `ast`
and evaluated by `SpecMixin.spec` into a single z3 term: total, pure, no
forking (list indexing is an array select, and/or are logical).  Extra
vocabulary: forall/exists(lo, hi, lambda j: ..), implies, iff, old(e), len,
sorted_strict(l), changed(o), fresh(o), is_cls(o, 'Bucket'), to_key(x),
list_eq(a, b), result, is_none(x).
"""
import ast
import z3

from .sym import (SV, Unsupported, NONE, MARKER, mk_int, mk_bool, fresh, INT,
                  BOOL, KS, ELEM_SORT, ELEM_KIND, KIND_SORT, US)
from .engine import FIELDS, CLASS_IDS

TK = z3.Function("to_key", INT, KS)
TV = z3.Function("to_value", INT, INT)
KARR = z3.ArraySort(INT, KS)
KSET = z3.ArraySort(KS, BOOL)
PE = z3.Function("prefix_elems", KARR, INT, KSET)     # axioms: pyvc.spec.pe_axioms()
KSEQ = z3.Function("keyseq", INT, INT)
VSEQ = z3.Function("valseq", INT, INT)
ISBT = z3.Function("is_btrees_container", INT, BOOL)
HASV = z3.Function("has_values", INT, BOOL)


def pe_axioms(full=False):
    """Definition of prefix_elems.  The unfolding at an arbitrary n (third
    axiom) can be instantiated without end, so it is only handed to the proof
    of the one function that needs it (_SetIteration.advance); callers reason
    with that function's contract and treat prefix_elems as opaque."""
    c = z3.Const("c!pe", KARR)
    n = z3.Int("n!pe")
    ax = [z3.ForAll([c], PE(c, 0) == z3.K(KS, z3.BoolVal(False)), patterns=[PE(c, 0)]),
          z3.ForAll([c, n], z3.Implies(n >= 0, PE(c, n + 1) == z3.Store(PE(c, n), z3.Select(c, n), True)),
                    patterns=[PE(c, n + 1)])]
    if full:
        ax.append(z3.ForAll([c, n], z3.Implies(n >= 1, PE(c, n) == z3.Store(PE(c, n - 1), z3.Select(c, n - 1), True)),
                            patterns=[PE(c, n)]))
    return ax


def pe_remaining_lemma():
    """L2 (proved by induction as obligations lemma:pe_remaining:*): in a
    strictly ascending sequence c[0:n], a key of the whole sequence that is
    not among the first p keys is >= c[p]."""
    c = z3.Const("c!l2", KARR)
    n, p = z3.Int("n!l2"), z3.Int("p!l2")
    k = z3.Real("k!l2")
    i, j = z3.Int("i!l2"), z3.Int("j!l2")
    srt = z3.ForAll([i, j], z3.Implies(z3.And(0 <= i, i < j, j < n), z3.Select(c, i) < z3.Select(c, j)))
    return z3.ForAll([c, n, p, k], z3.Implies(
        z3.And(0 <= p, p < n, srt, z3.Select(PE(c, n), k), z3.Not(z3.Select(PE(c, p), k))),
        z3.Select(c, p) <= k), patterns=[z3.MultiPattern(z3.Select(PE(c, n), k), z3.Select(PE(c, p), k))])


NUMERIC = z3.Function("numeric_valued_family", INT, BOOL)
CHECKED = z3.Function("check_returns_normally", INT, INT, BOOL)    # node._check(nextbucket) returned normally (heap unchanged)
VADD = z3.Function("vadd", INT, INT, INT)
VMUL = z3.Function("vmul", INT, INT, INT)
VSUB = z3.Function("vsub", INT, INT, INT)
VLOOK = z3.Function("vlookup", INT, INT, KS, INT)      # (key list, value list, key) -> value
REPK = z3.Function("representable_key", INT, BOOL)
REPV = z3.Function("representable_value", INT, BOOL)


class Contract:
    def __init__(self, name, cls=None, params=None, requires=None,
                 ensures=None, raises=None, returns=None, modifies=(),
                 loops=(), inline=False, cases=None, trusted=False,
                 props=(), may_raise_any=False, ghost=None):
        self.name = name
        self.cls = cls                  # static class of `self` (None: function)
        self.params = params or {}      # name -> kind spec
        self.requires = requires or {}
        self.ensures = ensures or {}
        self.raises = raises or {}      # ExcName -> {clause: expr}
        self.returns = returns
        self.modifies = list(modifies)
        self.loops = list(loops)
        self.inline = inline
        self.trusted = trusted          # no body verified (assumed contract)
        self.lemma = None               # callable -> [(name, [hyps], goal)]: a lemma proved by the solver
        self.props = list(props)        # property ids this contract serves
        self.ghost = ghost or {}


def parse_kind(spec):
    """'int' | 'K' | 'V' | 'bool' | 'ref' | 'ref:Bucket' | 'list:K' | 'any'
    | 'none' | 'marker' | ('tuple', [spec..])"""
    if isinstance(spec, tuple):
        return ("tuple", [parse_kind(s) for s in spec[1]])
    if ":" in spec:
        a, b = spec.split(":")
        return (a, b)
    return (spec, None)


class SpecCtx:
    def __init__(self, pre_state, post_state):
        self.pre = pre_state
        self.post = post_state


class SpecMixin:

    def mk_value(self, st, kspec, name="v"):
        """A fresh symbolic value of the given kind spec:
        'int' | 'ref:Bucket' | ... | ('tuple', [spec, ...]) (nested)."""
        if isinstance(kspec, tuple):
            assert kspec[0] == "tuple"
            return SV("tuple", None, [self.mk_value(st, k, name) for k in kspec[1]])
        kind, extra = parse_kind(kspec)
        if kind == "none":
            return NONE
        if kind == "marker":
            return MARKER
        if kind == "cls":
            return SV("cls", None, extra)
        if kind == "str":          # a string constant (e.g. the `itertype` of _Tree.keys)
            return SV("str", None, extra)
        z = fresh(name, KIND_SORT[kind])
        if kind == "list":
            st.assume(z > 0)
        if kind == "ref":
            st.assume(z >= 0)
            if extra:
                st.assume(z > 0)
        return SV(kind, z, extra)

    # ------------------------------------------------------------------ spec
    def spec_expr(self, text):
        return ast.parse(text.strip(), mode="eval").body

    def spec(self, text, ctx, env=None, state=None):
        """Evaluate a clause to a z3 Bool in ctx.post (old(..) in ctx.pre)."""
        node = self.spec_expr(text) if isinstance(text, str) else text
        st = state or ctx.post
        e = dict(st.env)
        if env:
            e.update(env)
        v = self.sp(node, st, e, ctx)
        return self.as_bool(st, v)

    def as_bool(self, st, v):
        if v.kind == "bool":
            return v.z
        return self.truth(st, v)

    def sp(self, n, st, env, ctx):
        t = type(n)
        if t is ast.Constant:
            v = n.value
            if v is None:
                return NONE
            if isinstance(v, bool):
                return mk_bool(v)
            if isinstance(v, int):
                return mk_int(v)
            if isinstance(v, str):
                return SV("str", None, v)
        if t is ast.Name:
            if n.id in env:
                return env[n.id]
            if n.id == "_marker":
                return MARKER
            if n.id in ("True", "False"):
                return mk_bool(n.id == "True")
            if n.id in ("max_leaf_size", "max_internal_size"):
                return mk_int(z3.Int("C_" + n.id))
            raise Unsupported("spec: unknown name " + n.id)
        if t is ast.Attribute:
            o = self.sp(n.value, st, env, ctx)
            if n.attr == "_p_changed":
                return mk_bool(self.hget(st, "$changed", o.z))
            return self.read_field(st, o, n.attr)
        if t is ast.Subscript:
            o = self.sp(n.value, st, env, ctx)
            i = self.sp(n.slice, st, env, ctx)
            if o.kind == "tuple":
                return o.x[z3.simplify(i.z).as_long()]
            if o.kind == "list":
                return SV(ELEM_KIND[o.x],
                          z3.Select(self.lcontent(st, o.z, o.x), i.z))
            raise Unsupported("spec subscript on " + o.kind)
        if t is ast.UnaryOp:
            v = self.sp(n.operand, st, env, ctx)
            if isinstance(n.op, ast.Not):
                return mk_bool(z3.Not(self.as_bool(st, v)))
            if isinstance(n.op, ast.USub):
                return SV(v.kind, -v.z)
        if t is ast.BoolOp:
            # static short-circuit: clauses about statically known shapes may
            # guard sub-expressions that only make sense under the guard
            vs = []
            is_and = isinstance(n.op, ast.And)
            for x in n.values:
                b = z3.simplify(self.as_bool(st, self.sp(x, st, env, ctx)))
                if is_and and z3.is_false(b):
                    return mk_bool(False)
                if (not is_and) and z3.is_true(b):
                    return mk_bool(True)
                vs.append(b)
            return mk_bool(z3.And(*vs) if is_and else z3.Or(*vs))
        if t is ast.BinOp:
            a = self.sp(n.left, st, env, ctx)
            b = self.sp(n.right, st, env, ctx)
            return self.binop(st, n.op, a, b)
        if t is ast.IfExp:
            c = self.as_bool(st, self.sp(n.test, st, env, ctx))
            cs = z3.simplify(c)
            if z3.is_true(cs):          # statically decided (shapes): only that arm is meaningful
                return self.sp(n.body, st, env, ctx)
            if z3.is_false(cs):
                return self.sp(n.orelse, st, env, ctx)
            a = self.sp(n.body, st, env, ctx)
            b = self.sp(n.orelse, st, env, ctx)
            if a.kind == "none" and b.kind == "ref":
                a = SV("ref", z3.IntVal(0))
            if b.kind == "none" and a.kind == "ref":
                b = SV("ref", z3.IntVal(0))
            return SV(a.kind, z3.If(c, a.z, b.z), a.x)
        if t is ast.Compare:
            parts = []
            left = self.sp(n.left, st, env, ctx)
            for op, rn in zip(n.ops, n.comparators):
                right = self.sp(rn, st, env, ctx)
                parts.append(self.sp_cmp(st, op, left, right))
                left = right
            return mk_bool(z3.And(*parts) if len(parts) > 1 else parts[0])
        if t is ast.Call:
            return self.sp_call(n, st, env, ctx)
        if t is ast.Tuple:
            return SV("tuple", None, [self.sp(x, st, env, ctx) for x in n.elts])
        raise Unsupported("spec expression " + t.__name__)

    def sp_cmp(self, st, op, a, b):
        if a.kind == "kset" and b.kind == "kset" and isinstance(op, (ast.Eq, ast.NotEq)):
            k = fresh("k", KS)
            e = z3.ForAll([k], z3.Select(a.z, k) == z3.Select(b.z, k))
            return z3.Not(e) if isinstance(op, ast.NotEq) else e
        if isinstance(op, (ast.Is, ast.IsNot, ast.Eq, ast.NotEq)):
            e = self.same(st, a, b)
            if e is None:
                if a.kind != b.kind:
                    e = z3.BoolVal(False)
                else:
                    raise Unsupported("spec equality on " + a.kind)
            return z3.Not(e) if isinstance(op, (ast.IsNot, ast.NotEq)) else e
        if a.z is None or b.z is None:
            return z3.BoolVal(False)     # order on None/marker: guarded out by the clause
        az, bz = a.z, b.z
        return {ast.Lt: az < bz, ast.LtE: az <= bz, ast.Gt: az > bz,
                ast.GtE: az >= bz}[type(op)]

    def sp_quant(self, n, st, env, ctx, universal):
        lo = self.sp(n.args[0], st, env, ctx).z
        hi = self.sp(n.args[1], st, env, ctx).z
        lam = n.args[2]
        names = [a.arg for a in lam.args.args]
        if self.ground is None:
            js = [fresh(nm, INT) for nm in names]
            e2 = dict(env)
            for nm, j in zip(names, js):
                e2[nm] = mk_int(j)
            body = self.as_bool(st, self.sp(lam.body, st, e2, ctx))
            rng = z3.And(*[z3.And(lo <= j, j < hi) for j in js])
            if universal:
                return mk_bool(z3.ForAll(js, z3.Implies(rng, body)))
            return mk_bool(z3.Exists(js, z3.And(rng, body)))
        import itertools
        parts = []
        for combo in itertools.product(range(-1, self.ground + 2),
                                       repeat=len(names)):
            e2 = dict(env)
            for nm, j in zip(names, combo):
                e2[nm] = mk_int(j)
            body = self.as_bool(st, self.sp(lam.body, st, e2, ctx))
            rng = z3.And(*[z3.And(lo <= j, j < hi) for j in combo])
            parts.append(z3.Implies(rng, body) if universal else z3.And(rng, body))
        return mk_bool(z3.And(*parts) if universal else z3.Or(*parts))

    def sp_call(self, n, st, env, ctx):
        f = n.func.id if isinstance(n.func, ast.Name) else None
        if f in ("forall", "exists"):
            return self.sp_quant(n, st, env, ctx, f == "forall")
        if f in ("forall_key", "exists_key"):
            # quantification over ALL keys of the (abstract, totally ordered) key type
            lam = n.args[0]
            kv = fresh(lam.args.args[0].arg, KS)
            e2 = dict(env)
            e2[lam.args.args[0].arg] = SV("K", kv)
            body = self.as_bool(st, self.sp(lam.body, st, e2, ctx))
            return mk_bool(z3.ForAll([kv], body) if f == "forall_key" else z3.Exists([kv], body))
        if f == "old":
            pre = ctx.pre
            e = dict(pre.env)
            for k, v in env.items():        # bound quantifier variables
                if k not in e or v.kind == "int" and k not in pre.env:
                    e[k] = v
            return self.sp(n.args[0], pre, e, ctx)
        if f == "implies":
            a0 = z3.simplify(self.as_bool(st, self.sp(n.args[0], st, env, ctx)))
            if z3.is_false(a0):
                return mk_bool(True)
            return mk_bool(z3.Implies(a0, self.as_bool(st, self.sp(n.args[1], st, env, ctx))))
        args = [self.sp(a, st, env, ctx) for a in n.args]
        if f == "iff":
            return mk_bool(self.as_bool(st, args[0]) == self.as_bool(st, args[1]))
        if f == "len":
            if args[0].kind == "tuple":
                return mk_int(len(args[0].x))
            return mk_int(self.llen(st, args[0].z))
        if f == "sorted_strict":
            l = args[0]
            c = self.lcontent(st, l.z, l.x)
            nn = self.llen(st, l.z)
            if self.ground is None:
                i, j = fresh("i", INT), fresh("j", INT)
                return mk_bool(z3.ForAll([i, j], z3.Implies(
                    z3.And(0 <= i, i < j, j < nn),
                    z3.Select(c, i) < z3.Select(c, j))))
            parts = []
            for i in range(self.ground + 1):
                for j in range(i + 1, self.ground + 1):
                    parts.append(z3.Implies(j < nn, z3.Select(c, i) < z3.Select(c, j)))
            return mk_bool(z3.And(*parts) if parts else z3.BoolVal(True))
        if f == "changed":
            return mk_bool(self.hget(st, "$changed", args[0].z))
        if f == "fresh":
            return mk_bool(z3.And(args[0].z >= ctx.pre.alloc, args[0].z < st.alloc))
        if f == "allocated":
            return mk_bool(z3.And(args[0].z > 0, args[0].z < st.alloc))
        if f == "is_cls":
            return mk_bool(self.hget(st, "$cls", args[0].z)
                           == CLASS_IDS[args[1].x])
        if f == "cls_id":
            return mk_int(self.hget(st, "$cls", args[0].z))
        if f == "to_key":
            if args[0].kind == "K":
                return args[0]
            if args[0].kind == "any":
                return SV("K", TK(args[0].z))
            return SV("K", z3.Real("nokey"))     # marker/None: never used
        if f == "to_value":
            return args[0] if args[0].kind == "V" else SV("V", TV(args[0].z))
        if f == "key_ok":      # representable(T_key, x): C13's predicate, abstract here
            return mk_bool(REPK(args[0].z) if args[0].kind == "any" else z3.BoolVal(args[0].kind == "K"))
        if f == "value_ok":
            return mk_bool(REPV(args[0].z) if args[0].kind == "any" else z3.BoolVal(args[0].kind in ("V", "none")))
        if f == "stored":      # has a jar, an oid and a serial: a stored node
            o = args[0].z
            return mk_bool(z3.And(self.hget(st, "_p_jar", o) != 0, self.hget(st, "_p_oid", o) != 0,
                                  self.hget(st, "_p_serial", o) != 0))
        if f == "rc":
            return mk_bool(z3.Select(st.ghost["RC"], args[0].z))
        if f == "rc_unchanged":
            return mk_bool(st.ghost["RC"] == ctx.pre.ghost["RC"])
        # ---- finite sets of keys (ghost): Array K -> Bool
        if f == "elems":       # ghost key set of a K-list (exact when grown by append)
            return SV("kset", self.hget(st, "$elems", args[0].z))
        if f == "prefix_elems":  # keys of l[0:n]
            l, nn = args
            return SV("kset", PE(self.lcontent(st, l.z, "K"), nn.z))
        if f == "keyseq":      # the ascending key sequence an operand iterates as (ghost list)
            return SV("list", KSEQ(args[0].z), "K")
        if f == "valseq":
            return SV("list", VSEQ(args[0].z), "V")
        if f == "is_btrees":   # operand is a BTrees container (iterates strictly ascending)
            return mk_bool(ISBT(args[0].z))
        if f == "has_values":
            return mk_bool(HASV(args[0].z))
        if f == "sunion":
            a, b = args
            k = fresh("k", KS)
            return SV("kset", z3.Lambda([k], z3.Or(z3.Select(a.z, k), z3.Select(b.z, k))))
        if f == "sinter":
            a, b = args
            k = fresh("k", KS)
            return SV("kset", z3.Lambda([k], z3.And(z3.Select(a.z, k), z3.Select(b.z, k))))
        if f == "sdiff":
            a, b = args
            k = fresh("k", KS)
            return SV("kset", z3.Lambda([k], z3.And(z3.Select(a.z, k), z3.Not(z3.Select(b.z, k)))))
        if f == "pe_remaining":
            # instance of lemma L2 (proved by induction, lemma:pe_remaining) for one sequence
            l = args[0]
            c = self.lcontent(st, l.z, "K")
            nn = self.llen(st, l.z)
            pp, kk = fresh("p", INT), fresh("k", KS)
            i, j = fresh("i", INT), fresh("j", INT)
            srt = z3.ForAll([i, j], z3.Implies(z3.And(0 <= i, i < j, j < nn), z3.Select(c, i) < z3.Select(c, j)))
            body = z3.ForAll([pp, kk], z3.Implies(
                z3.And(0 <= pp, pp < nn, z3.Select(PE(c, nn), kk), z3.Not(z3.Select(PE(c, pp), kk))),
                z3.Select(c, pp) <= kk),
                patterns=[z3.MultiPattern(z3.Select(PE(c, nn), kk), z3.Select(c, pp))])
            return mk_bool(z3.Implies(srt, body))
        if f == "pe_member":
            # instance of lemma L3 (lemma:pe_member): every key of c[0:n] is in prefix_elems(c, n)
            l = args[0]
            c = self.lcontent(st, l.z, "K")
            nn = self.llen(st, l.z)
            j = fresh("j", INT)
            return mk_bool(z3.ForAll([j], z3.Implies(z3.And(0 <= j, j < nn), z3.Select(PE(c, nn), z3.Select(c, j))),
                                     patterns=[z3.Select(c, j)]))
        if f == "all_below":   # every key of the set is < x
            k = fresh("k", KS)
            return mk_bool(z3.ForAll([k], z3.Implies(z3.Select(args[0].z, k), k < args[1].z)))
        if f == "subset":
            k = fresh("k", KS)
            return mk_bool(z3.ForAll([k], z3.Implies(z3.Select(args[0].z, k), z3.Select(args[1].z, k))))
        if f == "sempty":
            return SV("kset", z3.K(KS, z3.BoolVal(False)))
        if f == "sadd":
            return SV("kset", z3.Store(args[0].z, args[1].z, True))
        if f == "set_eq":
            a, b = args
            k = fresh("k", KS)
            return mk_bool(z3.ForAll([k], z3.Select(a.z, k) == z3.Select(b.z, k)))
        if f == "it_seq":
            return SV("list", self.hget(st, "$it_seq", args[0].z), "K")
        if f == "it_vals":
            return SV("list", self.hget(st, "$it_vals", args[0].z), "V")
        if f == "it_pos":
            return mk_int(self.hget(st, "$it_pos", args[0].z))
        if f == "it_pairs":
            return mk_bool(self.hget(st, "$it_pairs", args[0].z))
        if f in ("fst", "succ"):   # leftmost leaf of a node's subtree / what its rightmost leaf points to
            o = args[0].z
            cid = self.hget(st, "$cls", o)
            leaf = z3.Or(cid == CLASS_IDS["Bucket"], cid == CLASS_IDS["Set"])
            if f == "fst":
                return SV("ref", z3.If(leaf, o, self.hget(st, "$fst", o)))
            return SV("ref", z3.If(leaf, self.hget(st, "_next", o), self.hget(st, "$succ", o)))
        if f == "wfsub":           # the subtree below a node is well formed (leaves: their own invariant, stated apart)
            o = args[0].z
            cid = self.hget(st, "$cls", o)
            leaf = z3.Or(cid == CLASS_IDS["Bucket"], cid == CLASS_IDS["Set"])
            return mk_bool(z3.Or(leaf, self.hget(st, "$wf", o)))
        if f == "kset_of_children":     # { k | some child of the interior node holds k }
            o = args[0].z
            data = self.hget(st, "_data", o)
            n_ = self.llen(st, data)
            cR = self.lcontent(st, data, "R")
            k = fresh("k", KS)
            i = fresh("i", INT)
            child = self.hget(st, "child", z3.Select(cR, i))
            mem = self.sp_call(ast.parse("kmem(x, y)", mode="eval").body, st,
                               {"x": SV("ref", child), "y": SV("K", k)}, ctx).z
            return SV("kset", z3.Lambda([k], z3.Exists([i], z3.And(0 <= i, i < n_, mem))))
        if f in ("lo", "hi", "kmem", "owfsub"):
            # order view of a node: least key, greatest key, membership in its key set, "ordered subtree".
            # A (sorted, non-empty) leaf: its first / last key and its key list; an interior node: ghost summaries.
            o = args[0].z
            cid = self.hget(st, "$cls", o)
            leaf = z3.Or(cid == CLASS_IDS["Bucket"], cid == CLASS_IDS["Set"])
            keys = self.hget(st, "_keys", o)
            ck, nk = self.lcontent(st, keys, "K"), self.llen(st, keys)
            if f == "lo":
                return SV("K", z3.If(leaf, z3.Select(ck, 0), self.hget(st, "$lo", o)))
            if f == "hi":
                return SV("K", z3.If(leaf, z3.Select(ck, nk - 1), self.hget(st, "$hi", o)))
            if f == "owfsub":
                return mk_bool(z3.Or(leaf, self.hget(st, "$owf", o)))
            k = args[1].z
            if self.ground is None:
                j = fresh("j", INT)
                inleaf = z3.Exists([j], z3.And(0 <= j, j < nk, z3.Select(ck, j) == k))
            else:
                inleaf = z3.Or(*[z3.And(jj < nk, z3.Select(ck, jj) == k) for jj in range(self.ground + 1)])
            return mk_bool(z3.If(leaf, inleaf, z3.Select(self.hget(st, "$kset", o), k)))
        if f == "checked":     # node._check(next) returned normally (learnt at a call site; see ghost 'learn')
            b = args[1].z if args[1].kind == "ref" else z3.IntVal(0)
            return mk_bool(CHECKED(args[0].z, b))
        if f == "nsize":       # the `size` of a node: keys of a leaf, children of an interior node
            o = args[0].z
            cid = self.hget(st, "$cls", o)
            leaf = z3.Or(cid == CLASS_IDS["Bucket"], cid == CLASS_IDS["Set"])
            return mk_int(z3.If(leaf, self.llen(st, self.hget(st, "_keys", o)), self.llen(st, self.hget(st, "_data", o))))
        if f == "is_leaf":
            cid = self.hget(st, "$cls", args[0].z)
            return mk_bool(z3.Or(cid == CLASS_IDS["Bucket"], cid == CLASS_IDS["Set"]))
        if f == "is_tree":
            cid = self.hget(st, "$cls", args[0].z)
            return mk_bool(z3.Or(cid == CLASS_IDS["Tree"], cid == CLASS_IDS["TreeSet"]))
        if f == "bucket_cls_of":   # class id of self._bucket_type
            cid = self.hget(st, "$cls", args[0].z)
            return mk_int(z3.If(cid == CLASS_IDS["Tree"], CLASS_IDS["Bucket"], CLASS_IDS["Set"]))
        if f == "numeric":     # operand of a numeric-valued family (MERGE* attached)
            return mk_bool(NUMERIC(args[0].z))
        if f == "one":         # the family's multiplication identity (1 / 1.0)
            return SV("V", z3.Int("C_ONE"))
        if f == "vlookup":     # value stored with key k in the parallel sequences (keys, values)
            return SV("V", VLOOK(args[0].z, args[1].z, args[2].z))
        if f == "vlookup_def":
            # definition of vlookup for one pair of parallel sequences; conservative
            # because the key sequence is strictly ascending (hence injective)
            ks, vs = args
            j = fresh("j", INT)
            ck, cv = self.lcontent(st, ks.z, "K"), self.lcontent(st, vs.z, "V")
            if self.ground is None:
                return mk_bool(z3.ForAll([j], z3.Implies(z3.And(0 <= j, j < self.llen(st, ks.z)),
                                                         VLOOK(ks.z, vs.z, z3.Select(ck, j)) == z3.Select(cv, j)),
                                         patterns=[z3.Select(ck, j)]))
            return mk_bool(z3.And(*[z3.Implies(jj < self.llen(st, ks.z),
                                               VLOOK(ks.z, vs.z, z3.Select(ck, jj)) == z3.Select(cv, jj))
                                    for jj in range(self.ground + 1)]))
        if f == "is_tuple":    # the sequence object is a Python tuple
            return mk_bool(self.hget(st, "$istuple", args[0].z)) if args[0].kind == "list" \
                else mk_bool(args[0].kind == "tuple")
        if f in ("is_key", "is_val", "is_ref"):
            return mk_bool({"is_key": US.is_UK, "is_val": US.is_UV, "is_ref": US.is_UR}[f](args[0].z))
        if f == "key_of":
            return SV("K", US.uk(args[0].z))
        if f == "val_of":
            return SV("V", US.uv(args[0].z))
        if f == "ref_of":
            return SV("ref", US.ur(args[0].z))
        if f == "kind_of":     # static shape of a value: 'none', 'int', 'tuple2', ...
            a = args[0]
            return SV("str", None, a.kind + (str(len(a.x)) if a.kind == "tuple" else ""))
        if f == "istuple":
            return mk_bool(args[0].kind == "tuple")
        if f == "last_ret":       # what the most recent havocked call of that name returned (typestate views)
            v = st.ghost.get("ret:" + args[0].x)
            if v is None:
                raise Unsupported("no call of %s on this path" % args[0].x)
            return v
        if f == "called":         # was there a (havocked) call of that name on this path?
            return mk_bool(("ret:" + args[0].x) in st.ghost)
        if f == "is_omitted":     # an omitted bound: the marker or None
            return mk_bool(args[0].kind in ("marker", "none"))
        if f == "is_none":
            return mk_bool(self.same(st, args[0], NONE))
        if f == "list_eq":
            a, b = args
            ca, cb = self.lcontent(st, a.z, a.x), self.lcontent(ctx.pre if False else st, b.z, b.x)
            raise Unsupported("list_eq: use forall")
        if f == "ghost":
            return st.ghost[args[0].x] if args[0].x in st.ghost else ctx.pre.ghost[args[0].x]
        if f == "mem":          # mem(setvalue, key) for ghost sets (Array K->Bool)
            return mk_bool(z3.Select(args[0].z, args[1].z))
        r = self.dt_spec(f, args) if hasattr(self, "dt_spec") else None
        if r is not None:
            return r
        raise Unsupported("spec function %s" % f)


def _unparse(k):
    kind, extra = k
    if kind == "tuple":
        return ("tuple", [_unparse(e) for e in extra])
    return kind if extra is None else "%s:%s" % (kind, extra)
