#!/bin/bash
# run_seeded.sh <seeded-id> : apply the seeded change to a scratch worktree of /repo's HEAD and run the
# quick check of its property against that tree (VERIF_REPO).  Output: one summary line + log in /tmp/seedrun/.
id=$1
prop=${id%%-*}
WT=/tmp/seedrun/wt-$id
mkdir -p /tmp/seedrun
git -C /repo worktree remove --force $WT >/dev/null 2>&1
git -C /repo worktree add --detach $WT HEAD >/dev/null 2>&1 || { echo "$id WORKTREE-FAILED"; exit 1; }
cd $WT
if ! git apply /verif/seeded/$id/patch.diff 2>/dev/null; then
  if ! git apply --3way /verif/seeded/$id/patch.diff >/dev/null 2>&1; then
     echo "$id PATCH-DOES-NOT-APPLY (source changed by a fix commit)"; cd /; git -C /repo worktree remove --force $WT; exit 0
  fi
fi
cd /verif
VERIF_REPO=$WT ./check $prop --tier quick > /tmp/seedrun/$id.log 2>&1
rc=$?
keys=$(grep "violated:" /tmp/seedrun/$id.log | sed 's/ -- .*//; s/  violated: //' | sort -u | head -4 | tr '\n' ';')
echo "$id rc=$rc $keys"
cd /; git -C /repo worktree remove --force $WT >/dev/null 2>&1
