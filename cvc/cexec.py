"""Engine C: symbolic execution of one C function from clang's JSON AST with
state merging at joins (ite), loops cut at inferred/declared invariants, calls
by contract (DESIGN.md section 4).

Values are z3 Ints (pointers, integers; floating values are opaque).  Heap:
one array per struct field name (pointer -> value) and one per pointee type
for *p / p[i] (address = p + i, unit stride per element).  Anything not
interpreted is havocked with a fresh symbol and listed in `self.havocs`.
"""
import itertools
import z3

INT = z3.IntSort()
BOOL = z3.BoolSort()
_ctr = itertools.count()


def fresh(prefix="v", sort=INT):
    return z3.Const("%s!%d" % (prefix, next(_ctr)), sort)


class Unsupported(Exception):
    pass


class CState:
    __slots__ = ("vars", "heap", "guard", "ghost")

    def __init__(self):
        self.vars = {}
        self.heap = {}
        self.guard = z3.BoolVal(True)
        self.ghost = {}

    def clone(self):
        s = CState()
        s.vars = dict(self.vars)
        s.heap = dict(self.heap)
        s.guard = self.guard
        s.ghost = dict(self.ghost)
        return s

    def become(self, other):
        self.vars, self.heap, self.guard, self.ghost = other.vars, other.heap, other.guard, other.ghost


def merge(a, b):
    """Join of two states with mutually exclusive guards."""
    if a is None:
        return b
    if b is None:
        return a
    m = CState()
    m.guard = z3.simplify(z3.Or(a.guard, b.guard))
    for dst, da, db in ((m.vars, a.vars, b.vars), (m.heap, a.heap, b.heap), (m.ghost, a.ghost, b.ghost)):
        for k in set(da) | set(db):
            if k in da and k in db:
                va, vb = da[k], db[k]
                if va is vb or (hasattr(va, "eq") and hasattr(vb, "eq") and va.eq(vb)):
                    dst[k] = va
                elif isinstance(va, (set, frozenset, list, tuple)) or isinstance(vb, (set, frozenset, list, tuple)):
                    dst[k] = va
                else:
                    dst[k] = z3.If(a.guard, va, vb)
            else:
                dst[k] = da.get(k, db.get(k))
    return m


def merge_all(states):
    out = None
    for s in states:
        out = merge(out, s)
    return out


def is_false(g):
    return z3.is_false(z3.simplify(g))


class Oblig:
    def __init__(self, name, hyps, goal, detail=""):
        self.name, self.hyps, self.goal, self.detail = name, hyps, goal, detail


class CExec:
    """Base executor: analyses subclass it and override the hooks
    `on_call`, `on_return`, `on_entry`, `loop_invariant`."""

    def __init__(self, tu, fname):
        self.tu = tu
        self.fname = fname
        self.fn = tu.functions[fname]
        self.assumptions = []      # global facts about fresh symbols
        self.obls = []
        self.havocs = []
        self.returns = []
        self.pending = {}          # label decl id -> [states]
        self.brk, self.cont = [], []
        self.locals_addr_taken = set()
        self.decisions = []
        self.lvrefs = {}
        self.out_values = {}

    CANDIDATE_PTR_TYPES = ("Bucket *", "BTree *", "Sized *", "cPersistentObject *", "PyObject *", "struct Bucket_s *")
    allowed = ()

    def pointer_locals(self):
        out = []
        todo = [self.fn]
        while todo:
            n = todo.pop()
            if n.get("kind") in ("VarDecl", "ParmVarDecl") and \
                    n.get("type", {}).get("qualType", "") in self.CANDIDATE_PTR_TYPES:
                out.append((n["id"], n.get("name")))
            todo.extend(n.get("inner", []))
        return out

    def flag_locals(self):
        """int locals that are only ever assigned integer literals (flags)."""
        decls, bad = {}, set()
        todo = [self.fn]
        while todo:
            n = todo.pop()
            k = n.get("kind")
            if k == "VarDecl" and n.get("type", {}).get("qualType") == "int":
                decls[n["id"]] = n.get("name")
                init = [c for c in n.get("inner", []) if "kind" in c]
                if init and not self._is_lit(init[0]):
                    bad.add(n["id"])
            tgt = val = None
            if k == "BinaryOperator" and n.get("opcode") == "=":
                tgt, val = n["inner"]
            elif k == "CompoundAssignOperator" or (k == "UnaryOperator" and n.get("opcode") in ("++", "--", "&")):
                tgt = n["inner"][0]
            if tgt is not None:
                t = tgt
                while t["kind"] in ("ParenExpr", "ImplicitCastExpr"):
                    t = t["inner"][0]
                if t["kind"] == "DeclRefExpr":
                    if val is None or not self._is_lit(val):
                        bad.add(t["referencedDecl"]["id"])
            todo.extend(n.get("inner", []))
        return [(i, nm) for i, nm in decls.items() if i not in bad]

    def _is_lit(self, n):
        while n.get("kind") in ("ParenExpr", "ImplicitCastExpr", "ConstantExpr"):
            n = n["inner"][0]
        if n.get("kind") == "UnaryOperator" and n.get("opcode") == "-":
            n = n["inner"][0]
        return n.get("kind") == "IntegerLiteral"

    def sketch(self, n, limit=6):
        """A few identifying tokens of an expression (names it mentions)."""
        out, todo = [], [n]
        while todo and len(out) < limit:
            x = todo.pop(0)
            k = x.get("kind")
            if k == "DeclRefExpr":
                out.append(x["referencedDecl"].get("name", "?"))
            elif k == "MemberExpr":
                out.append("." + x.get("name", "?"))
            elif k in ("BinaryOperator", "UnaryOperator"):
                out.append(x.get("opcode"))
            elif k == "IntegerLiteral":
                out.append(x.get("value"))
            todo.extend(x.get("inner", []))
        return " ".join(str(o) for o in out)

    def describe_model(self, model, obl):
        taken = []
        for label, guard, c in self.decisions:
            try:
                if z3.is_true(model.eval(guard, model_completion=True)):
                    taken.append("%s=%s" % (label, "T" if z3.is_true(model.eval(c, model_completion=True)) else "F"))
            except z3.Z3Exception:
                pass
        return {"path": taken[:60]}

    # ------------------------------------------------------------ helpers
    def hread(self, st, field, ptr):
        if field not in st.heap:
            st.heap[field] = z3.Const("H0_" + field, z3.ArraySort(INT, INT))
        return z3.Select(st.heap[field], ptr)

    def hwrite(self, st, field, ptr, val):
        self.hread(st, field, ptr)
        st.heap[field] = z3.Store(st.heap[field], ptr, val)

    def oblige(self, st, name, goal, detail=""):
        self.obls.append(Oblig(name, [st.guard] + list(self.assumptions), goal, detail))

    def b2i(self, b):
        return z3.If(b, z3.IntVal(1), z3.IntVal(0))

    def truth(self, v):
        if z3.is_bool(v):
            return v
        return v != 0

    def havoc(self, why):
        self.havocs.append(why)
        return fresh("hv")

    # ------------------------------------------------------------ lvalues
    def lvalue(self, n, st):
        """-> ('var', key) | ('field', name, ptr) | ('mem', tname, addr)"""
        k = n["kind"]
        if k == "ParenExpr":
            return self.lvalue(n["inner"][0], st)
        if k == "DeclRefExpr":
            rd = n["referencedDecl"]
            return ("var", rd["id"], rd.get("name"))
        if k == "MemberExpr":
            base = n["inner"][0]
            fname = self.tu.fieldmap.get(n.get("referencedMemberDecl"), n["name"])
            if n.get("isArrow"):
                p = self.rvalue(base, st)
                return ("field", fname, p)
            b = self.lvalue(base, st)
            if b[0] == "var":
                return ("var", (b[1], n["name"]), "%s.%s" % (b[2], n["name"]))
            if b[0] == "mem":          # a[i].f  ==  (a+i)->f
                return ("field", fname, b[2])
            if b[0] == "field":        # p->s.f : nested struct by value
                return ("field", b[1] + "." + n["name"], b[2])
        if k == "ArraySubscriptExpr":
            a = self.rvalue(n["inner"][0], st)
            i = self.rvalue(n["inner"][1], st)
            return ("mem", self.tname(n), a + i)
        if k == "UnaryOperator" and n.get("opcode") == "*":
            sub = n["inner"][0]
            while sub["kind"] in ("ParenExpr", "ImplicitCastExpr"):
                sub = sub["inner"][0]
            if sub["kind"] == "DeclRefExpr" and sub["referencedDecl"]["id"] in self.lvrefs:
                return self.lvrefs[sub["referencedDecl"]["id"]]     # out-parameter of an inlined callee
            p = self.rvalue(n["inner"][0], st)
            return ("mem", self.tname(n), p)
        if k in ("ImplicitCastExpr", "CStyleCastExpr"):
            return self.lvalue(n["inner"][0], st)
        if k in ("StringLiteral", "PredefinedExpr"):
            return ("mem", "char", z3.Int("str_%d" % (abs(hash(str(n.get("value", n.get("name", ""))))) % 10**8)))
        if k == "CompoundLiteralExpr":
            return ("var", n["id"], "compound_literal")
        raise Unsupported("lvalue " + k)

    def tname(self, n):
        t = n.get("type", {}).get("desugaredQualType") or n.get("type", {}).get("qualType", "?")
        return t.replace("const ", "").replace(" ", "")

    def load(self, lv, st):
        if lv[0] == "var":
            if lv[1] not in st.vars:
                if lv[1] in self.tu.globals or (isinstance(lv[1], str) and lv[2] and lv[1] not in self.local_ids):
                    st.vars[lv[1]] = z3.Int("G_%s" % lv[2])
                else:
                    st.vars[lv[1]] = fresh("uninit_%s" % lv[2])
            return st.vars[lv[1]]
        if lv[0] == "field":
            return self.hread(st, lv[1], lv[2])
        if lv[0] == "mem":
            return self.hread(st, "*" + lv[1], lv[2])
        raise Unsupported("load")

    def store(self, lv, st, val):
        if z3.is_bool(val):
            val = self.b2i(val)
        if lv[0] == "var":
            st.vars[lv[1]] = val
        elif lv[0] == "field":
            self.on_field_write(st, lv[1], lv[2], val)
            self.hwrite(st, lv[1], lv[2], val)
        elif lv[0] == "mem":
            self.on_mem_write(st, lv[1], lv[2], val)
            self.hwrite(st, "*" + lv[1], lv[2], val)

    def on_field_write(self, st, field, ptr, val):
        pass

    def on_mem_write(self, st, tname, addr, val):
        pass

    def on_field_read(self, st, field, ptr):
        pass

    # ------------------------------------------------------------ rvalues
    def rvalue(self, n, st):
        k = n["kind"]
        m = getattr(self, "rv_" + k, None)
        if m is None:
            return self.havoc("expression " + k)
        return m(n, st)

    def rv_ParenExpr(self, n, st):
        return self.rvalue(n["inner"][0], st)

    def rv_ConstantExpr(self, n, st):
        return self.rvalue(n["inner"][0], st)

    def rv_IntegerLiteral(self, n, st):
        return z3.IntVal(int(n["value"]))

    def rv_CharacterLiteral(self, n, st):
        return z3.IntVal(int(n["value"]))

    def rv_FloatingLiteral(self, n, st):
        return self.float_literal(n)

    def float_literal(self, n):
        return z3.Int("flit_%s" % str(n.get("value")).replace(".", "_").replace("-", "m").replace("+", ""))

    def rv_StringLiteral(self, n, st):
        return z3.Int("str_%d" % (abs(hash(n.get("value", ""))) % 10**8))

    def rv_DeclRefExpr(self, n, st):
        rd = n["referencedDecl"]
        if rd["kind"] == "FunctionDecl":
            return z3.Int("fn_" + rd["name"])
        if rd["kind"] == "EnumConstantDecl":
            return z3.Int("enum_" + rd["name"])
        return self.load(self.lvalue(n, st), st)

    def rv_MemberExpr(self, n, st):
        lv = self.lvalue(n, st)
        if lv[0] == "field":
            self.on_field_read(st, lv[1], lv[2])
        return self.load(lv, st)

    def rv_ArraySubscriptExpr(self, n, st):
        lv = self.lvalue(n, st)
        self.on_mem_read(st, lv[1], lv[2], n)
        return self.load(lv, st)

    def on_mem_read(self, st, tname, addr, n):
        pass

    def rv_ImplicitCastExpr(self, n, st):
        ck = n.get("castKind")
        if ck == "LValueToRValue":
            inner = n["inner"][0]
            lv = self.lvalue(inner, st)
            if lv[0] == "field":
                self.on_field_read(st, lv[1], lv[2])
            elif lv[0] == "mem":
                self.on_mem_read(st, lv[1], lv[2], inner)
            return self.load(lv, st)
        if ck in ("ArrayToPointerDecay",):
            inner = n["inner"][0]
            if inner["kind"] == "StringLiteral":
                return self.rv_StringLiteral(inner, st)
            lv = self.lvalue(inner, st)
            return self.addr_of(lv, st)
        if ck == "FunctionToPointerDecay":
            return self.rvalue(n["inner"][0], st)
        v = self.rvalue(n["inner"][0], st)
        return self.cast(n, v, ck)

    rv_CStyleCastExpr = rv_ImplicitCastExpr

    def cast(self, n, v, ck):
        if ck == "NullToPointer":
            return z3.IntVal(0)
        if ck in ("IntegralToBoolean", "PointerToBoolean"):
            return self.b2i(v != 0)
        return v        # NoOp, BitCast, IntegralCast (mathematical unless overridden)

    def addr_of(self, lv, st):
        if lv[0] == "var":
            self.locals_addr_taken.add(lv[1])
            return z3.Int("addr_%s" % (lv[2] if isinstance(lv[2], str) else "x"))
        if lv[0] == "field":
            return z3.Int("fieldoff_" + lv[1].replace(".", "_")) + lv[2] * 0 + self.field_addr(lv[1], lv[2])
        if lv[0] == "mem":
            return lv[2]
        raise Unsupported("addr_of")

    def field_addr(self, field, ptr):
        f = z3.Function("addr_field_" + field.replace(".", "_"), INT, INT)
        return f(ptr)

    def rv_UnaryOperator(self, n, st):
        op = n["opcode"]
        sub = n["inner"][0]
        if op == "&":
            if sub["kind"] == "DeclRefExpr" and sub["referencedDecl"]["kind"] == "FunctionDecl":
                return z3.Int("fn_" + sub["referencedDecl"]["name"])
            return self.addr_of(self.lvalue(sub, st), st)
        if op == "*":
            lv = self.lvalue(n, st)
            self.on_mem_read(st, lv[1], lv[2], n)
            return self.load(lv, st)
        if op in ("++", "--"):
            lv = self.lvalue(sub, st)
            old = self.load(lv, st)
            new = old + (1 if op == "++" else -1)
            self.store(lv, st, new)
            return old if n.get("isPostfix") else new
        v = self.rvalue(sub, st)
        if op == "!":
            return self.b2i(z3.Not(self.truth(v)))
        if op == "-":
            return -v
        if op == "+":
            return v
        if op == "~":
            return -v - 1
        return self.havoc("unary " + op)

    def rv_BinaryOperator(self, n, st):
        op = n["opcode"]
        a, b = n["inner"]
        if op == "=":
            v = self.rvalue(b, st)
            lv = self.lvalue(a, st)
            self.store(lv, st, v)
            return v
        if op == ",":
            self.rvalue(a, st)
            return self.rvalue(b, st)
        if op in ("&&", "||"):
            va = self.truth(self.rvalue(a, st))
            c = va if op == "&&" else z3.Not(va)
            sb = st.clone()
            sb.guard = z3.And(st.guard, c)
            vb = self.truth(self.rvalue(b, sb))
            se = st.clone()
            se.guard = z3.And(st.guard, z3.Not(c))
            g = st.guard
            st.become(merge(sb, se))
            st.guard = g
            return self.b2i(z3.And(va, vb) if op == "&&" else z3.Or(va, vb))
        va = self.rvalue(a, st)
        vb = self.rvalue(b, st)
        return self.arith(op, va, vb, n)

    def arith(self, op, va, vb, n):
        if z3.is_bool(va):
            va = self.b2i(va)
        if z3.is_bool(vb):
            vb = self.b2i(vb)
        if op == "+":
            return va + vb
        if op == "-":
            return va - vb
        if op == "*":
            return va * vb
        if op in ("==", "!=", "<", "<=", ">", ">="):
            f = {"==": va == vb, "!=": va != vb, "<": va < vb, "<=": va <= vb,
                 ">": va > vb, ">=": va >= vb}[op]
            return self.b2i(f)
        if op in ("<<", ">>", "&", "|", "^"):
            a, b = z3.simplify(va), z3.simplify(vb)
            if z3.is_int_value(a) and z3.is_int_value(b):
                x, y = a.as_long(), b.as_long()
                return z3.IntVal({"<<": x << y, ">>": x >> y, "&": x & y, "|": x | y, "^": x ^ y}[op])
        if op == "/":
            vbs = z3.simplify(vb)
            if z3.is_int_value(vbs) and vbs.as_long() > 0:
                # C truncates toward zero; equal to floor for non-negative dividends
                return z3.If(va >= 0, va / vb, -((-va) / vb))
        if op == "%":
            vbs = z3.simplify(vb)
            if z3.is_int_value(vbs) and vbs.as_long() > 0:
                return z3.If(va >= 0, va % vb, -((-va) % vb))
        return self.havoc("binary " + op)

    def rv_CompoundAssignOperator(self, n, st):
        op = n["opcode"][:-1]
        a, b = n["inner"]
        vb = self.rvalue(b, st)
        lv = self.lvalue(a, st)
        v = self.arith(op, self.load(lv, st), vb, n)
        self.store(lv, st, v)
        return v

    def rv_ConditionalOperator(self, n, st):
        c = self.truth(self.rvalue(n["inner"][0], st))
        s1 = st.clone()
        s1.guard = z3.And(st.guard, c)
        v1 = self.rvalue(n["inner"][1], s1)
        s2 = st.clone()
        s2.guard = z3.And(st.guard, z3.Not(c))
        v2 = self.rvalue(n["inner"][2], s2)
        g = st.guard
        st.become(merge(s1, s2))
        st.guard = g
        if z3.is_bool(v1):
            v1 = self.b2i(v1)
        if z3.is_bool(v2):
            v2 = self.b2i(v2)
        return z3.If(c, v1, v2)

    def rv_UnaryExprOrTypeTraitExpr(self, n, st):
        return z3.Int("sizeof_" + (n.get("argType", {}).get("qualType", "") or
                                   self.tname(n["inner"][0]) if n.get("inner") else "x").replace(" ", "").replace("*", "p"))

    def rv_StmtExpr(self, n, st):
        return self.havoc("statement expression")

    def rv_CallExpr(self, n, st):
        callee = n["inner"][0]
        name = self.callee_name(callee)
        args = [self.rvalue(a, st) for a in n["inner"][1:]]
        self.out_values = {}
        if name in self.inline_functions and name in self.tu.functions:
            return self.inline(name, n["inner"][1:], args, st)
        r = self.on_call(name, args, n, st)
        outv = self.out_values
        # out-parameters: a local whose address is passed may be written by the
        # callee (callees are assumed not to retain pointers to caller locals)
        for a in n["inner"][1:]:
            x = a
            while x.get("kind") in ("ParenExpr", "ImplicitCastExpr", "CStyleCastExpr"):
                x = x["inner"][0]
            if x.get("kind") == "UnaryOperator" and x.get("opcode") == "&":
                t = x["inner"][0]
                while t.get("kind") == "ParenExpr":
                    t = t["inner"][0]
                if t.get("kind") == "DeclRefExpr" and t["referencedDecl"].get("kind") in ("VarDecl", "ParmVarDecl"):
                    vid = t["referencedDecl"]["id"]
                    pos = n["inner"][1:].index(a)
                    if pos in outv:
                        st.vars[vid] = outv[pos]
                        continue
                    st.vars[vid] = fresh("out_%s" % t["referencedDecl"].get("name", "x"))
                    for kk in list(st.vars):
                        if isinstance(kk, tuple) and kk[0] == vid:
                            st.vars[kk] = fresh("out")
                elif t.get("kind") == "MemberExpr" and not t.get("isArrow"):
                    lv = self.lvalue(t, st)
                    if lv[0] == "var":
                        st.vars[lv[1]] = fresh("out")
        return r

    inline_functions = ()

    def inline(self, name, arg_nodes, args, st):
        """Execute the body of a small TU function in place (same heap and
        ghost state); `&local` arguments become references to the caller's
        lvalue."""
        fn = self.tu.functions[name]
        params = [p for p in fn.get("inner", []) if p["kind"] == "ParmVarDecl"]
        for p, an, av in zip(params, arg_nodes, args):
            x = an
            while x.get("kind") in ("ParenExpr", "ImplicitCastExpr", "CStyleCastExpr"):
                x = x["inner"][0]
            if x.get("kind") == "UnaryOperator" and x.get("opcode") == "&":
                self.lvrefs[p["id"]] = self.lvalue(x["inner"][0], st)
            st.vars[p["id"]] = av
            self.local_ids.add(p["id"])
        saved = (self.returns, self.pending, self.brk, self.cont)
        self.returns, self.pending, self.brk, self.cont = [], {}, [], []
        body = [c for c in fn["inner"] if c["kind"] == "CompoundStmt"][0]
        out = self.stmt(body, st.clone())
        rets = self.returns + ([(out, None)] if out is not None and not is_false(out.guard) else [])
        self.returns, self.pending, self.brk, self.cont = saved
        if not rets:
            raise Unsupported("inlined %s never returns" % name)
        val = None
        for s1, v in rets:
            v = v if v is not None else z3.IntVal(0)
            val = v if val is None else z3.If(s1.guard, v, val)
        g = st.guard
        st.become(merge_all([r[0] for r in rets]))
        st.guard = g
        return val

    def callee_name(self, c):
        while c["kind"] in ("ImplicitCastExpr", "ParenExpr", "CStyleCastExpr"):
            c = c["inner"][0]
        if c["kind"] == "DeclRefExpr":
            return c["referencedDecl"].get("name")
        if c["kind"] == "MemberExpr":
            return "->" + c["name"]
        if c["kind"] == "UnaryOperator" and c.get("opcode") == "*":
            return self.callee_name(c["inner"][0])
        return "?"

    def on_call(self, name, args, n, st):
        """Default: unknown effects -> havoc the heap, fresh result."""
        self.havoc_heap(st, "call " + str(name))
        return fresh("ret_" + str(name).strip("->"))

    def havoc_heap(self, st, why, keep=()):
        for f in list(st.heap):
            if f in keep or f.startswith("SetIteration."):
                continue
            st.heap[f] = fresh("H_" + f.replace("*", "deref_").replace(".", "_"), z3.ArraySort(INT, INT))

    # ---------------------------------------------------------- statements
    def run(self):
        st = CState()
        self.local_ids = set()
        for p in self.fn.get("inner", []):
            if p["kind"] == "ParmVarDecl":
                st.vars[p["id"]] = z3.Int("arg_" + p.get("name", "p"))
                self.local_ids.add(p["id"])
        body = [c for c in self.fn["inner"] if c["kind"] == "CompoundStmt"][0]
        self.collect_addr_taken(body)
        self.on_entry(st)
        self.entry = st.clone()
        out = self.stmt(body, st)
        if out is not None and not is_false(out.guard):
            self.returns.append((out, None))
        for s, v in self.returns:
            self.on_return(s, v)
        left = [l for l, ss in self.pending.items() if ss]
        if left:
            raise Unsupported("goto to a label that was never reached (backward goto?)")

    def collect_addr_taken(self, node):
        todo = [node]
        while todo:
            n = todo.pop()
            if n.get("kind") == "UnaryOperator" and n.get("opcode") == "&":
                sub = n["inner"][0]
                while sub["kind"] == "ParenExpr":
                    sub = sub["inner"][0]
                if sub["kind"] == "DeclRefExpr":
                    self.locals_addr_taken.add(sub["referencedDecl"]["id"])
                elif sub["kind"] == "MemberExpr" and not sub.get("isArrow"):
                    b = sub["inner"][0]
                    while b["kind"] == "ParenExpr":
                        b = b["inner"][0]
                    if b["kind"] == "DeclRefExpr":
                        self.locals_addr_taken.add((b["referencedDecl"]["id"], sub["name"]))
            todo.extend(n.get("inner", []))

    def on_entry(self, st):
        pass

    def on_return(self, st, v):
        pass

    def stmt(self, n, st):
        """Execute statement n from state st (None = unreachable) -> state|None."""
        k = n["kind"]
        if st is None and k not in ("LabelStmt", "CompoundStmt", "IfStmt", "ForStmt",
                                    "WhileStmt", "DoStmt", "SwitchStmt", "CaseStmt", "DefaultStmt"):
            return None
        m = getattr(self, "st_" + k, None)
        if m is None:
            if st is None:
                return None
            self.rvalue(n, st)     # expression statement
            return st
        return m(n, st)

    def st_CompoundStmt(self, n, st):
        for c in n.get("inner", []):
            st = self.stmt(c, st)
        return st

    def st_NullStmt(self, n, st):
        return st

    def st_DeclStmt(self, n, st):
        for d in n.get("inner", []):
            if d["kind"] != "VarDecl":
                continue
            self.local_ids.add(d["id"])
            init = [c for c in d.get("inner", []) if "kind" in c and c["kind"] not in ("FullComment",)]
            if init and st is not None:
                if init[0]["kind"] == "InitListExpr":
                    continue
                st.vars[d["id"]] = self.as_int(self.rvalue(init[0], st))
        return st

    def as_int(self, v):
        return self.b2i(v) if z3.is_bool(v) else v

    def st_ReturnStmt(self, n, st):
        v = None
        if n.get("inner"):
            v = self.as_int(self.rvalue(n["inner"][0], st))
        if not is_false(st.guard):
            self.returns.append((st, v))
        return None

    def st_GotoStmt(self, n, st):
        self.pending.setdefault(n["targetLabelDeclId"], []).append(st)
        return None

    def st_LabelStmt(self, n, st):
        inc = self.pending.pop(n["declId"], [])
        st = merge_all(([st] if st is not None else []) + inc)
        self.seen_labels = getattr(self, "seen_labels", set()) | {n["declId"]}
        for c in n.get("inner", []):
            st = self.stmt(c, st)
        return st

    def st_IfStmt(self, n, st):
        if st is None:
            # still walk the branches: they may contain labels
            parts = n["inner"]
            a = self.stmt(parts[1], None)
            b = self.stmt(parts[2], None) if len(parts) > 2 else None
            return merge(a, b)
        parts = n["inner"]
        c = self.truth(self.rvalue(parts[0], st))
        self.decisions.append(("if#%d[%s]" % (len(self.decisions), self.sketch(parts[0])), st.guard, c))
        s1 = st.clone()
        s1.guard = z3.simplify(z3.And(st.guard, c))
        s2 = st.clone()
        s2.guard = z3.simplify(z3.And(st.guard, z3.Not(c)))
        o1 = self.stmt(parts[1], None if is_false(s1.guard) else s1)
        o2 = s2 if not is_false(s2.guard) else None
        if len(parts) > 2:
            o2 = self.stmt(parts[2], o2)
        return merge(o1, o2)

    def st_BreakStmt(self, n, st):
        self.brk[-1].append(st)
        return None

    def st_ContinueStmt(self, n, st):
        self.cont[-1].append(st)
        return None

    def st_DoStmt(self, n, st):
        body, cond = n["inner"][0], n["inner"][1]
        cs = cond
        while cs["kind"] in ("ParenExpr", "ImplicitCastExpr"):
            cs = cs["inner"][0]
        if cs["kind"] == "IntegerLiteral" and int(cs["value"]) == 0:
            # do { ... } while (0): exactly once; break/continue leave it
            self.brk.append([])
            self.cont.append([])
            out = self.stmt(body, st)
            b = self.brk.pop()
            c = self.cont.pop()
            return merge_all([x for x in [out] + b + c if x is not None])
        return self.loop(n, st, None, cond, None, body, test_first=False)

    def st_WhileStmt(self, n, st):
        return self.loop(n, st, None, n["inner"][0], None, n["inner"][1])

    def st_ForStmt(self, n, st):
        init, _, cond, inc, body = n["inner"]
        if st is not None and init and init.get("kind"):
            st = self.stmt(init, st)
        return self.loop(n, st, None, cond if cond and cond.get("kind") else None,
                         inc if inc and inc.get("kind") else None, body)

    def assigned_in(self, nodes):
        vars_, fields, calls = set(), set(), False
        todo = list(nodes)
        while todo:
            n = todo.pop()
            if not isinstance(n, dict):
                continue
            k = n.get("kind")
            if k == "CallExpr":
                calls = True
            tgt = None
            if k == "BinaryOperator" and n.get("opcode") == "=" or k == "CompoundAssignOperator":
                tgt = n["inner"][0]
            elif k == "UnaryOperator" and n.get("opcode") in ("++", "--"):
                tgt = n["inner"][0]
            elif k == "VarDecl":
                vars_.add(n["id"])
            if tgt is not None:
                t = tgt
                while t["kind"] in ("ParenExpr", "ImplicitCastExpr", "CStyleCastExpr"):
                    t = t["inner"][0]
                if t["kind"] == "DeclRefExpr":
                    vars_.add(t["referencedDecl"]["id"])
                elif t["kind"] == "MemberExpr":
                    if t.get("isArrow"):
                        fields.add(t["name"])
                    else:
                        b = t["inner"][0]
                        while b["kind"] in ("ParenExpr",):
                            b = b["inner"][0]
                        if b["kind"] == "DeclRefExpr":
                            vars_.add((b["referencedDecl"]["id"], t["name"]))
                        else:
                            fields.add(t["name"])
                else:
                    fields.add("*")
            todo.extend(n.get("inner", []))
        return vars_, fields, calls

    def loop(self, n, st, init, cond, inc, body, test_first=True):
        """Cut the loop: the state at the loop head is havocked on everything
        the loop may write and constrained by the invariant of the analysis
        (`loop_invariant`); one symbolic iteration checks its preservation."""
        if st is None:
            return self.stmt(body, None)
        parts = [x for x in (cond, inc, body) if x]
        vars_, fields, calls = self.assigned_in(parts)
        if not getattr(self, "_trial", False) and vars_:
            vars_ = self.refine_havoc(n, st, init, cond, inc, body, test_first, vars_)
        elif getattr(self, "_trial", False) and getattr(self, "_keep", None) is not None:
            vars_ = set(vars_) - self._keep
        entry = st.clone()
        self.check_invariant(n, "init", entry, st)
        head = st.clone()
        for v in list(head.vars):
            if v in vars_ or (isinstance(v, tuple) and v[0] in vars_) or \
                    (calls and v in self.locals_addr_taken):
                head.vars[v] = fresh("lv")
        for v in vars_:
            if v not in head.vars:
                head.vars[v] = fresh("lv")
        if calls or "*" in fields:
            self.havoc_heap(head, "loop")
        else:
            for f in list(head.heap):
                # memory reached through array subscripts / dereferences ("*T" maps) is written only by an
                # assignment whose target is such an expression ("*" in fields: handled above) or by a call;
                # analyses that reason about vector CONTENTS (F-SEARCH) keep those maps across a loop without either
                if f in fields or (f.startswith("*") and not getattr(self, "precise_mem_havoc", False)):
                    head.heap[f] = fresh("H_" + f.replace("*", "deref_").replace(".", "_"), z3.ArraySort(INT, INT))
        self.assume_invariant(n, entry, head)
        s = head.clone()
        exit_states = []
        self.brk.append([])
        self.cont.append([])
        if cond is not None and test_first:
            c = self.truth(self.rvalue(cond, s))
            ex = s.clone()
            ex.guard = z3.simplify(z3.And(s.guard, z3.Not(c)))
            exit_states.append(ex)
            s.guard = z3.simplify(z3.And(s.guard, c))
        out = self.stmt(body, s)
        conts = self.cont.pop()
        out = merge_all([x for x in [out] + conts if x is not None])
        if out is not None:
            if inc is not None:
                self.rvalue(inc, out)
            if cond is not None and not test_first:
                c = self.truth(self.rvalue(cond, out))
                ex = out.clone()
                ex.guard = z3.simplify(z3.And(out.guard, z3.Not(c)))
                exit_states.append(ex)
                out.guard = z3.simplify(z3.And(out.guard, c))
            if getattr(self, "_trial", False) and getattr(self, "_probe", None) and self._probe[0] == id(n):
                self._backedge = out
            self.check_invariant(n, "preserve", entry, out)
        exit_states.extend(self.brk.pop())
        return merge_all([x for x in exit_states if x is not None and not is_false(x.guard)])

    def refine_havoc(self, n, st, init, cond, inc, body, test_first, vars_):
        """Which of the variables assigned in the loop really differ at the
        back edge?  A variable that is only assigned on paths leaving the loop
        (result = f(..); break;) keeps its entry value at every loop head.
        Greatest fixpoint: assume a set is preserved, execute the body once
        from the cut state, drop the variables whose back-edge value is not
        provably the head value (dropping is always sound)."""
        plain = {v for v in vars_ if not isinstance(v, tuple) and v in st.vars}
        keep = set(plain)
        saved = (list(self.obls), list(self.returns), {k: list(v) for k, v in self.pending.items()},
                 [list(b) for b in self.brk], [list(c) for c in self.cont], list(self.assumptions),
                 list(self.decisions), list(self.havocs), dict(self.lvrefs))
        self._trial = True
        try:
            for _ in range(4):
                if not keep:
                    break
                self._keep = keep
                self._backedge = None
                trial = st.clone()
                self._probe = (id(n), {v: trial.vars[v] for v in keep})
                self.loop(n, trial, init, cond, inc, body, test_first)
                back = self._backedge
                bad = set()
                if back is not None:
                    for v in keep:
                        if v not in back.vars:
                            bad.add(v)
                            continue
                        if back.vars[v] is self._probe[1][v] or back.vars[v].eq(self._probe[1][v]):
                            continue
                        sol = z3.Solver()
                        sol.set("timeout", 1000)
                        sol.add(back.guard, *self.assumptions)
                        sol.add(back.vars[v] != self._probe[1][v])
                        if sol.check() != z3.unsat:
                            bad.add(v)
                (self.obls, self.returns, self.pending, self.brk, self.cont, self.assumptions,
                 self.decisions, self.havocs, self.lvrefs) = (
                    list(saved[0]), list(saved[1]), {k: list(v) for k, v in saved[2].items()},
                    [list(b) for b in saved[3]], [list(c) for c in saved[4]], list(saved[5]),
                    list(saved[6]), list(saved[7]), dict(saved[8]))
                if not bad:
                    break
                keep -= bad
        except Unsupported:
            keep = set()
        finally:
            self._trial = False
            self._keep = None
            (self.obls, self.returns, self.pending, self.brk, self.cont, self.assumptions,
             self.decisions, self.havocs, self.lvrefs) = (
                list(saved[0]), list(saved[1]), {k: list(v) for k, v in saved[2].items()},
                [list(b) for b in saved[3]], [list(c) for c in saved[4]], list(saved[5]),
                list(saved[6]), list(saved[7]), dict(saved[8]))
        return set(vars_) - keep

    def check_invariant(self, n, phase, entry, st):
        pass

    def assume_invariant(self, n, entry, head):
        pass

    def st_SwitchStmt(self, n, st):
        if st is None:
            return None
        v = self.rvalue(n["inner"][0], st)
        body = n["inner"][1]
        # first pass: the case constants, to know when `default` is taken
        consts = []
        todo = list(body.get("inner", []))
        while todo:
            c = todo.pop()
            if c.get("kind") == "CaseStmt":
                consts.append(self.rvalue(c["inner"][0], st))
                todo.append(c["inner"][-1])
            elif c.get("kind") == "DefaultStmt":
                todo.append(c["inner"][-1])
        nomatch = z3.And(*[v != c for c in consts]) if consts else z3.BoolVal(True)
        has_default = False
        self.brk.append([])
        cur = None
        for c in body.get("inner", []):
            node = c
            while node.get("kind") in ("CaseStmt", "DefaultStmt"):
                e = st.clone()
                if node["kind"] == "CaseStmt":
                    cv = self.rvalue(node["inner"][0], st)
                    e.guard = z3.simplify(z3.And(st.guard, v == cv))
                else:
                    has_default = True
                    e.guard = z3.simplify(z3.And(st.guard, nomatch))
                cur = merge(cur, e)
                node = node["inner"][-1]
            cur = self.stmt(node, cur)
        outs = [cur] + self.brk.pop()
        if not has_default:
            rest = st.clone()
            rest.guard = z3.simplify(z3.And(st.guard, nomatch))
            outs.append(rest)
        return merge_all([x for x in outs if x is not None and not is_false(x.guard)])
