"""C04 - every change reaches the database: commit + reload reproduces the contents."""
from props import _generic as g


def run(ctx):
    # the node-level proof (several minutes of solver time) runs for C04 in the thorough tier; C03 runs it in both
    fns = g.run_pyvc(ctx, "C04", skip=(lambda n: "#struct" in n) if ctx.tier == "quick" else None)
    ctx.cvc(["II", "OO"] if ctx.tier == "quick" else ["II", "OO", "fs", "LF", "IO"], ["T-DIRTY"])
    ctx.standin("persist_rt", families=("OO", "II") if ctx.tier == "quick" else ("OO", "II", "LF", "QQ", "fs", "IO"))
    return "proof", (
        "Engine P: every leaf mutator of the Python implementation (%d functions: Bucket/Set _set, _del, _split, "
        "clear, _deleteNextBucket) is proved to request registration (_p_changed) exactly when the serialised "
        "state of the leaf changes, and to leave the flag alone otherwise (clauses flagged/unflagged; list "
        "mutation in place does not flag by itself, A3). Interior nodes: _Tree._del is proved (struct view, thorough tier here, "
        "both tiers under C03) to register every change of the node's own serialised state and of an embedded leaf. "
        "C implementation, T-DIRTY: on every success exit of every function, every node whose serialised state (len, next, "
        "firstbucket, an element of keys/values/data) was written in the activation has had the `changed` callback succeed, or was "
        "constructed in the activation, or is handed back as a debt by a function whose protocol is 'caller must call PER_CHANGED' "
        "(inferred; the debt must be discharged by the callers' own exit obligations). "
        "The "
        "end-to-end sentence (commit, reload in a fresh cache, abort) are the bounded stand-in persist_rt with the "
        "stub data manager rtc/stubdb.py." % len(fns))
