"""Bounded stand-in for C12: weightedUnion / weightedIntersection.

Oracle (property C12, /verif/properties.jsonl): "weightedUnion and
weightedIntersection return the documented weight and a container whose keys
are the union / intersection of the operands' keys and whose values are
v1*w1 + v2*w2 under the documented conventions (a key missing from one side
counts 0 in a union, a set member counts 1, both-sets yields a plain set with
weight 1 resp. w1+w2, None operands short-circuit), for every numeric-valued
family and every operand kind."

The conventions are the table in BTrees/Interfaces.py (IMergeIntegerKey...
weightedUnion / weightedIntersection): (None, None) -> (0, None); (None, c2) ->
(weight2, c2); (c1, None) -> (weight1, c1); both sets -> (1, union) resp.
(weight1 + weight2, intersection) as a Set; otherwise (1, Bucket).

A case is (function, kind of c1, kind of c2, A, B, weights).  Expected values
are computed here with Python arithmetic; values and weights are chosen so that
every product and sum is exact in the value type (small dyadic floats; integer
cases whose products or sums leave the value type's range are not generated -
the statement does not speak of overflow).

Object-keyed families (OI, OL, OU, OQ): None is a legal object key and sorts
before every other key, so - like the extremes of the integer key types - it is
a member of the key universe ("for all operand pairs"): every pair (A, B) with
None in A, in B, in both or in neither is enumerated for every operand kind.
A failure that needs the None key (the same case with None replaced by another
smallest key, 0, in both operands passes that clause) carries the suffix
":key-None"; one that does not need it is reported under the plain key.
"""
import argparse
import concurrent.futures as cf
import itertools

from lib.common import Standin, Failure, write_standin
from rtc import harness as H

BT = ("Set", "TreeSet", "Bucket", "BTree")
SETS = ("Set", "TreeSet")
VRANGE = {"I": (-2**31, 2**31 - 1), "U": (0, 2**32 - 1), "L": (-2**63, 2**63 - 1), "Q": (0, 2**64 - 1)}


def weights_of(fam):
    """Pairs (w1, w2) of the value type; None = call without weights (documented default 1, 1)."""
    v = fam[1]
    if v == "F":      # dyadic rationals: exact in C float and Python float
        return [None, (2.0, 3.0), (0.25, 2.5), (2.5, 0.25), (0.0, 1.0), (-1.5, 0.5), (1.0, -4.0)]
    w = [None, (2, 3), (3, 2), (0, 1), (1, 0), (7, 1)]
    if v in "IL":
        w += [(-1, 2), (3, -2)]
    if v in "LQ":     # weights that need more than 32 bits
        w += [(2**32 + 3, 1), (1, 2**33 + 5)]
    else:
        w += [(2**20 + 1, 5), (5, 2**21 + 3)]
    return w


def skey(k):
    """Documented key order of the object-keyed families: None before everything else."""
    return (0, 0) if k is None else (1, k)


def value(fam, side, i):
    if fam[1] == "F":
        return (i + 0.5) if side == 1 else (i * 2 + 1.25)
    return (i + 1) if side == 1 else (2 * i + 11)


class Config:
    def __init__(self, fam, impl, nkeys, sizes):
        self.fam, self.impl, self.sizes = fam, impl, sizes
        ex = list(H.extremes(fam))                   # incl. None for object keys
        self.U = sorted(set(ex + [k for k in range(1, nkeys + 1)][:nkeys - len(ex)]), key=skey)
        self.idx = {k: i for i, k in enumerate(self.U)}
        if None in self.idx:
            self.idx[0] = self.idx[None]             # stand-in for None when a failure is attributed (report)
        self.cls = {k: H.get_class(fam, k, impl, *sizes) for k in BT}
        m = H.family_module(fam)
        sfx = "Py" if impl == "py" else ""
        self.fn = {"weightedUnion": getattr(m, "weightedUnion" + sfx),
                   "weightedIntersection": getattr(m, "weightedIntersection" + sfx)}
        if impl == "c" and self.fn["weightedUnion"] is getattr(m, "weightedUnionPy"):
            raise RuntimeError("C extension for %s not built" % fam)
        self.cache, self.fail, self.evals, self.nontrivial, self.nonekey, self.sample = {}, {}, 0, 0, 0, None

    def items(self, kind, A, side):
        return list(A) if kind in SETS else [(k, value(self.fam, side, self.idx[k])) for k in A]

    def operand(self, kind, A, side):
        if kind == "None":
            return None
        o = self.cache.get((kind, A, side))
        if o is None:
            o = self.cls[kind](A) if kind in SETS else self.cls[kind](dict(self.items(kind, A, side)))
            self.cache[(kind, A, side)] = o
        return o

    def expected(self, fname, k1, k2, A, B, w1, w2):
        """-> (weight, kind, keys, values|None) from the documented table, or None when an
        intermediate result leaves the value type (not generated)."""
        union = fname == "weightedUnion"
        sA, sB = set(A), set(B)
        keys = sorted(sA | sB, key=skey) if union else sorted(sA & sB, key=skey)
        if k1 in SETS and k2 in SETS:
            wt = 1 if union else w1 + w2
            return (wt, "Set", keys, None) if self.inrange(wt) else None
        vals = []
        for k in keys:
            v1 = 0 if k not in sA else 1 if k1 in SETS else value(self.fam, 1, self.idx[k])
            v2 = 0 if k not in sB else 1 if k2 in SETS else value(self.fam, 2, self.idx[k])
            if not all(self.inrange(x) for x in (v1 * w1, v2 * w2, v1 * w1 + v2 * w2)):
                return None
            vals.append(v1 * w1 + v2 * w2)
        return 1, "Bucket", keys, vals

    def inrange(self, x):
        if self.fam[1] == "F":
            return True
        lo, hi = VRANGE[self.fam[1]]
        return lo <= x <= hi

    def report(self, fname, k1, k2, clause, A, B, w, msg):
        wk = "default" if w is None else "frac" if any(x != int(x) for x in w) else \
            "neg" if min(w) < 0 else "zero" if 0 in w else "big" if max(w) >= 2**31 else "int"
        key = "weighted:%s:%s~%s:%s:%s:w-%s" % (self.impl, k1, k2, clause, fname, wk)
        if None in A or None in B:
            # does the clause need the None key?  the same call with another smallest key (0, same value) decides
            A0, B0 = tuple(0 if k is None else k for k in A), tuple(0 if k is None else k for k in B)
            if clause not in [c for c, _ in self.check(fname, k1, k2, A0, B0, w, [0] + self.U)[0]]:
                key += ":key-None"
        if key in self.fail:
            self.fail[key][1] += 1
            return
        sfx = "Py" if self.impl == "py" else ""
        lit = lambda kind, X, side: "None" if kind == "None" else "%s%s%s(%r)" % (
            self.fam, kind, sfx, list(X) if kind in SETS else dict(self.items(kind, X, side)))
        wargs = "" if w is None else ", %r, %r" % w
        script = ("from BTrees.%sBTree import %s\n" % (self.fam, ", ".join(
            ["%s%s%s" % (self.fam, k, sfx) for k in BT] + ["%s%s as %s" % (f, sfx, f) for f in self.fn])) +
            "".join("%s%s%s.max_leaf_size, %s%s%s.max_internal_size = %d, %d\n" % (
                (self.fam, k, sfx) * 2 + tuple(self.sizes)) for k in ("BTree", "TreeSet")) +
            "w, res = %s(%s, %s%s)\nprint(w, type(res).__name__, list(res.items()) if hasattr(res, 'items') else list(res))\n" % (
                fname, lit(k1, A, 1), lit(k2, B, 2), wargs))
        self.fail[key] = [Failure(
            key=key, desc="%s %s sizes=%s: %s(%s%r, %s%r%s): %s" % (
                self.fam, self.impl, self.sizes, fname, k1, self.items(k1, A, 1) if k1 != "None" else "",
                k2, self.items(k2, B, 2) if k2 != "None" else "", wargs, msg),
            repro={"family": self.fam, "impl": self.impl, "sizes": list(self.sizes), "function": fname,
                   "c1": [k1, list(A)], "c2": [k2, list(B)], "weights": w},
            script=script), 1]

    def check(self, fname, k1, k2, A, B, w, U=None):
        """One call and its contract -> ([(clause, message)], (weight, result) | None); None as
        the first component: the case is outside the scope (would overflow the value type)."""
        w1, w2 = w or (1, 1)
        c1, c2 = self.operand(k1, A, 1), self.operand(k2, B, 2)
        none = k1 == "None" or k2 == "None"
        exp = None if none else self.expected(fname, k1, k2, A, B, w1, w2)
        if not none and exp is None:
            return None, None
        out = []
        bad = lambda clause, msg: out.append((clause, msg))
        try:
            got = self.fn[fname](c1, c2) if w is None else self.fn[fname](c1, c2, w1, w2)
            wt, res = got
        except Exception as e:
            bad("raised", "raised %s: %s" % (type(e).__name__, e))
            return out, None
        if none:                                     # None operands short-circuit
            want = (0, None) if k1 == k2 else (w2, c2) if k1 == "None" else (w1, c1)
            if wt != want[0] or res is not want[1]:
                bad("none", "returned (%r, %r), documented (%r, %s)" % (
                    wt, res, want[0], "None" if want[1] is None else "the other operand itself"))
            return out, (wt, res)
        ewt, ekind, ekeys, evals = exp
        if wt != ewt:
            bad("weight", "returned weight %r, documented %r" % (wt, ewt))
        if type(res) is not self.cls[ekind]:
            bad("kind", "result is a %s, documented %s" % (type(res).__name__, ekind))
            return out, (wt, res)
        if res is c1 or res is c2:
            bad("new", "the result is one of the operands")
        try:
            ks = list(res.keys())
            if ks != ekeys:
                bad("keys", "keys %r, expected %r" % (ks, ekeys))
            elif len(res) != len(ekeys) or [k for k in (U or self.U) if k in res] != ekeys:
                bad("member", "len / membership disagree with the keys %r" % (ekeys,))
            elif evals is not None and list(res.values()) != evals:
                bad("values", "values %r, expected v1*w1 + v2*w2 = %r" % (list(res.values()), evals))
            elif evals is not None and [res[k] for k in ekeys] != evals:
                bad("values", "lookups disagree with values()")
        except Exception as e:
            bad("raised", "inspecting the result raised %s: %s" % (type(e).__name__, e))
        try:
            same = list(c1.keys() if k1 in SETS else c1.items()) == self.items(k1, A, 1) and \
                list(c2.keys() if k2 in SETS else c2.items()) == self.items(k2, B, 2)
        except Exception:
            same = False
        if not same:
            bad("operand-modified", "an operand was modified")
            self.cache.pop((k1, A, 1), None)
            self.cache.pop((k2, B, 2), None)
        return out, (wt, res)

    def deep_cases(self):
        """Tree operands of three and more levels THINNED by deletions (16 keys at node sizes 2/2, then all but a few
        removed from the top / from the bottom / from both ends: a root with one interior child over several leaves,
        emptied first leaves, single-child chains) against every operand kind - shapes the subset enumeration (at most
        5 keys) never reaches."""
        base = list(range(101, 117))
        for k in base:
            self.idx[k] = (k - 101) % 5
        plans = {"top": [k for k in reversed(base) if k > 104],
                 "bottom": [k for k in base if k < 113],
                 "both-ends": [k for k in base if k < 106] + [k for k in reversed(base) if k > 110],
                 "every-other-then-top": base[1::2] + [k for k in reversed(base[0::2]) if k > 107]}
        ws = weights_of(self.fam)[:4]
        for plan, dels in plans.items():
            rest = tuple(k for k in base if k not in dels)
            for kind in ("BTree", "TreeSet"):
                for side in (1, 2):
                    t = self.cls[kind](base) if kind in SETS else self.cls[kind](dict(self.items(kind, tuple(base), side)))
                    for k in dels:
                        (t.remove(k) if kind in SETS else t.__delitem__(k))
                    self.cache[(kind, rest, side)] = t
            small = [(rest[0], rest[-1]), (rest[1], 116 if 116 not in rest else 101), rest]
            for fname in self.fn:
                for kind in ("BTree", "TreeSet"):
                    for k2 in BT:
                        for B in small:
                            B = tuple(sorted(set(B)))
                            for w in ws:
                                for (a, ka, b, kb) in ((rest, kind, B, k2), (B, k2, rest, kind)):
                                    fails, got = self.check(fname, ka, kb, a, b, w, U=base)
                                    if fails is None:
                                        continue
                                    self.evals += 1
                                    self.nontrivial += 1
                                    for clause, msg in fails:
                                        self.report(fname, ka, kb, "thinned-deep-tree:" + clause, a, b, w,
                                                    msg + " [operand of %d keys thinned from 16 (%s) at node sizes 2/2]" % (len(rest), plan))

    def case(self, fname, k1, k2, A, B, w):
        fails, got = self.check(fname, k1, k2, A, B, w)
        if fails is None:
            return                                   # would overflow the value type: outside the scope
        self.evals += 1
        if A and B and k1 != "None" and k2 != "None":
            self.nontrivial += 1
            if None in A or None in B:
                self.nonekey += 1
        for clause, msg in fails:
            self.report(fname, k1, k2, clause, A, B, w, msg)
        if self.sample is None and got and len(A) == 3 and len(B) == 3 and k1 == "TreeSet" and k2 == "BTree" and \
                w == weights_of(self.fam)[2] and (self.fam[0] != "O" or (None in A) != (None in B)):
            wt, res = got
            w1, w2 = w
            self.sample = {"call": "%s%s(%s%r, %s%r, %r, %r)" % (self.fam, fname, k1, list(A), k2, self.items(k2, B, 2), w1, w2),
                           "returned": "(%r, %s %r)" % (wt, type(res).__name__, list(res.items()))}


def run_config(args):
    fam, impl, nkeys, sizes = args
    c = Config(fam, impl, nkeys, sizes)
    subsets = [s for n in range(nkeys + 1) for s in itertools.combinations(c.U, n)]
    ws = weights_of(fam)
    for fname in c.fn:
        for k1 in BT + ("None",):
            for k2 in BT + ("None",):
                for A in (subsets if k1 != "None" else [()]):
                    for B in (subsets if k2 != "None" else [()]):
                        for w in ws:
                            c.case(fname, k1, k2, A, B, w)
    c.deep_cases()
    return c.evals, c.nontrivial, [(f, n) for f, n in c.fail.values()], c.sample, c.nonekey


def main():
    ap = argparse.ArgumentParser()
    ap.add_argument("--out")
    a = ap.parse_args()
    quick = H.tier() == "quick"
    nkeys = 4 if quick else 5
    fams = [f for f in H.fams() if f != "fs" and f[1] in "IULQF"]
    s = Standin(
        name="weighted_rt",
        bound="weightedUnion and weightedIntersection x all pairs of operand kinds {Set, TreeSet, Bucket, BTree at node "
              "sizes 2/2, None} x all pairs (A, B) of subsets of %d keys (incl. the key extremes; object keys: incl. None, the "
              "smallest object key, in A, in B, in both, in neither) x weights {default, small, "
              "0, negative (signed), > 32 bit (64-bit values) / > 2**20 (32-bit), fractional (float values)}; cases whose "
              "products or sums leave the value type are not generated; PLUS tree operands of 3+ levels thinned by deletions "
              "(16 keys, four deletion plans: a root with one interior child, emptied first leaves) against every operand kind, "
              "both argument orders, four weight pairs; C and Python; families %s" % (nkeys, ",".join(fams)),
        rule="case = one call and its contract (weight, kind, newness, keys, len/membership, values == v1*w1 + v2*w2 by the "
             "documented table, lookups, operands unmodified); distinct non-trivial = cases with two non-empty operands "
             "(the enumeration never repeats a case)",
        exhaustive=True,
        functions=["wunion_m", "wintersection_m", "set_operation (MERGE)", "copyRemaining", "_base.weightedUnion",
                   "_base.weightedIntersection", "_prepMergeIterators", "MERGE / MERGE_WEIGHT (run-time)"])
    jobs = [(fam, impl, nkeys, (2, 2)) for impl in ("py", "c") for fam in fams]
    merged = {}
    nonekey = 0
    with cf.ProcessPoolExecutor(max_workers=min(16, len(jobs) or 1)) as ex:
        for (fam, impl, _, _), (ev, nt, fails, sample, nk) in zip(jobs, ex.map(run_config, jobs)):
            s.evaluations += ev
            s.distinct_nontrivial += nt
            nonekey += nk
            if sample and fam == fams[-1]:           # one measured case per implementation
                s.samples.append(sample)
            for f, n in fails:
                merged.setdefault(f.key, (f, []))[1].append("%s: %d cases" % (fam, n))
    for f, where in merged.values():
        f.desc += "  [" + ", ".join(where) + "]"
        s.failures.append(f)
    s.rule += "; %d of the non-trivial cases have None among the keys of an operand (measured)" % nonekey
    write_standin(a.out, s)


if __name__ == "__main__":
    main()
