"""Bounded stand-in for C16 (reference ownership), C extension, object-keyed
and / or object-valued families.

Oracle (properties.jsonl, C16): "The C implementation holds exactly one
reference to each stored key and value object for as long as it is stored and
releases it when the entry is removed, overwritten, cleared, evicted or the
container is destroyed.  No history of operations leaks user objects, frees
one that is still reachable ..."

Run-time contract (DESIGN 7, C16), evaluated after EVERY call of a history, for
every tracked key / value object o (heap objects K, V, and the key Bad whose
comparisons raise):
    refcount'(o) - refcount(o) == slots'(o) - slots(o) + returned(o)
slots = number of container slots holding o (H.slot_counts over the container,
the second operand, a copy made with __setstate__ and the stub jar's saved
state), returned = occurrences of o in the result of the call.  It is checked
twice: while the result is held ("held") and after dropping it ("after").  The
containers themselves must not gain references ("container").  At the end of a
history everything is dropped: counts are back to the initial ones and weak
references to all objects are dead ("end").
"""
import argparse
import gc
import os
import pickle
import sys
import weakref

from lib.common import Standin, Failure, write_standin
from rtc import harness as H


class CmpError(Exception):
    pass


class K:
    """Totally ordered heap object used as key (and, as V, as value)."""
    __slots__ = ("v", "__weakref__")

    def __init__(self, v):
        self.v = v

    def __lt__(self, o): return self.v < o.v
    def __le__(self, o): return self.v <= o.v
    def __gt__(self, o): return self.v > o.v
    def __ge__(self, o): return self.v >= o.v
    def __eq__(self, o): return self.v == o.v
    def __ne__(self, o): return self.v != o.v
    def __hash__(self): return hash(self.v)
    def __repr__(self): return "%s(%r)" % (type(self).__name__, self.v)


class V(K):
    __slots__ = ()


class Bad(K):
    """A key every comparison with which raises (error paths inside searches)."""
    __slots__ = ()

    def __init__(self):
        pass

    def _v(self):
        raise CmpError("comparison refused")

    v = property(_v)
    __hash__ = object.__hash__

    def __repr__(self):
        return "Bad()"


class R:
    """Placeholder in an operation: the i-th key / value object of the history."""

    def __init__(self, pool, i):
        self.pool, self.i = pool, i

    def __repr__(self):
        return "%s%d" % (self.pool, self.i)


class Jar:
    """Stub data manager: keeps the state of an evicted container until it is loaded again."""

    def __init__(self):
        self.states = {}

    def setstate(self, obj):
        obj.__setstate__(self.states.pop(obj._p_oid))

    def register(self, obj):
        pass

    def readCurrent(self, obj):
        pass


KEEP = []        # after a failure nothing of that history is ever released (counts may be too low)


def extra_ops(is_set, is_tree, kr, vr, mod):
    """Operations beyond H.alphabet: range sequences, queries returning stored
    objects, set algebra, conflict merges, pickling / state copies, eviction, error paths."""
    ops = [("keys", kr[1], kr[4]), ("keys", kr[0], kr[5]), ("iter",), ("minKey",), ("maxKey", kr[3]),
           ("union",), ("intersection",), ("difference",), ("op_or",), ("op_and",), ("op_sub",),
           ("resolve", 0), ("resolve", 1), ("pickle",), ("copystate",), ("dropcopy",), ("restate",),
           ("evict",), ("evict",), ("invalidate",), ("badkey",), ("cmpraise", "get"), ("cmpraise", "set"),
           ("cmpraise", "del"), ("cmpraise", "update", kr[2]), ("cmpraise", "range", kr[1])]
    if is_set:
        ops += [("cmpraise", "isdisjoint", kr[5]), ("cmpraise", "ior", kr[2]), ("isdisjoint", kr[0], kr[3])]
    else:
        ops += [("items", kr[1], kr[4]), ("values", kr[0], kr[5]), ("byValue", vr[0]), ("byValue", vr[1]), ("badval", kr[2])]
    if hasattr(mod, "weightedUnion"):
        ops += [("weightedUnion",), ("weightedIntersection",)]
    return ops


def with_key(flat, k, v, is_set):
    """Leaf state data `flat` with the entry k (-> v) stored / replaced."""
    items = list(flat) if is_set else list(zip(flat[0::2], flat[1::2]))
    items = [x for x in items if (x if is_set else x[0]) != k] + [k if is_set else (k, v)]
    items.sort(key=lambda x: x if is_set else x[0])
    return tuple(items) if is_set else tuple(y for x in items for y in x)


def apply_extra(W, op):
    """-> the result to hold (anything), or raises.  W: the world of this history."""
    t, name, a = W.t, op[0], op[1:]
    if name in ("keys", "items", "values"):
        r = getattr(t, name)(a[0], a[1])
        got = list(r)
        return (r, got, r[0] if got else None, r[-1] if got else None)
    if name == "iter":
        it = iter(t) if W.is_set else t.iteritems()       # holds leaves, not keys
        return (it, next(it, None))
    if name == "minKey": return t.minKey()
    if name == "maxKey": return t.maxKey(a[0])
    if name == "byValue": return t.byValue(a[0])
    if name == "isdisjoint": return t.isdisjoint(list(a))
    if name in ("union", "intersection", "difference", "weightedUnion", "weightedIntersection"):
        return getattr(W.mod, name)(t, W.u)
    if name == "op_or": return t | W.u
    if name == "op_and": return t & W.u
    if name == "op_sub": return t - W.u
    if name == "resolve":
        st = t.__getstate__()
        if st is None or (W.is_tree and len(st) != 1):
            return None
        flat = st[0][0][0] if W.is_tree else st[0]
        wrap = (lambda f: ((((f,),),))) if W.is_tree else (lambda f: (f,))
        k1, k2 = W.kk[4], (W.kk[5] if a[0] == 0 else W.kk[4])         # variant 1: both sides store k4 -> conflict
        return t._p_resolveConflict(wrap(flat), wrap(with_key(flat, k1, W.vv[0], W.is_set)),
                                    wrap(with_key(flat, k2, W.vv[1], W.is_set)))
    if name == "pickle": return pickle.loads(pickle.dumps(t, 2))
    if name == "copystate":
        W.copy = type(t)()
        W.copy.__setstate__(t.__getstate__())
        return None
    if name == "dropcopy":
        W.copy = None
        return None
    if name == "restate": return t.__setstate__(t.__getstate__())
    if name in ("evict", "invalidate"):
        if t._p_jar is None:
            t._p_jar, t._p_oid = W.jar, b"\0" * 7 + b"\1"
        if t._p_changed is not None:                 # not a ghost already
            W.jar.states[t._p_oid] = t.__getstate__()
            if name == "evict":
                t._p_changed = False                 # as after a commit
                t._p_deactivate()
            else:
                t._p_invalidate()
        return None
    if name == "badkey": return t.add(W.badkey) if W.is_set else t.__setitem__(W.badkey, W.vv[0])
    if name == "badval": return t.__setitem__(a[0], W.badval)
    if name == "cmpraise":
        how, bad = a[0], W.bad
        if how == "get": return bad in t
        if how == "set": return t.add(bad) if W.is_set else t.__setitem__(bad, W.vv[0])
        if how == "del": return t.remove(bad) if W.is_set else t.__delitem__(bad)
        if how == "update": return t.update([a[1], bad] if W.is_set else [(a[1], W.vv[1]), (bad, W.vv[0])])
        if how == "range": return list(t.keys(a[1], bad))
        if how == "isdisjoint": return t.isdisjoint([bad, a[1]])
        if how == "ior":
            t |= [a[1], bad]
            return None
    raise ValueError(name)


class World:
    def __init__(self, fam, kind, cls, mod):
        self.is_set, self.is_tree, self.mod = kind in ("Set", "TreeSet"), kind in ("BTree", "TreeSet"), mod
        okey, oval = fam[0] == "O", fam[1] == "O" and not self.is_set
        self.kk = [K(i) for i in range(6)] if okey else list(range(6))
        self.vv = [V(i) for i in range(3)] if oval else ([0.5, 1.5, 2.5] if fam[1] == "F" else [1, 2, 3])
        self.bad = Bad() if okey else "x"
        self.badkey = object() if okey else "x"           # O: default comparison is refused; int: not an int
        self.badval = None if fam[1] == "O" else "x"
        self.tracked = ([k for k in self.kk] + [self.bad] if okey else []) + (list(self.vv) if oval else [])
        self.base0 = self.refs()
        self.t, self.u, self.copy, self.jar = cls(), cls(), None, Jar()
        for i in (1, 3, 4):
            self.u.add(self.kk[i]) if self.is_set else self.u.__setitem__(self.kk[i], self.vv[1])

    def refs(self):
        return [sys.getrefcount(o) for o in self.tracked]

    def crefs(self):
        return [sys.getrefcount(c) for c in (self.t, self.u)]

    def slots(self, extra=None):
        return H.slot_counts([self.t, self.u, self.copy, self.jar.states, extra], self.tracked)

    def subst(self, x):
        if isinstance(x, R):
            return (self.kk if x.pool == "k" else self.vv)[x.i]
        if isinstance(x, tuple):
            return tuple(self.subst(y) for y in x)
        return x


def run_history(s, fam, kind, sizes, cls, mod, h, reported, shapes):
    """-> True when no contract fired.  A surplus reference (leak) is reported and
    the history goes on (the equation is about the change made by each call);
    a missing reference stops it, and its objects are never released."""
    W = World(fam, kind, cls, mod)
    tag, clean = fam + kind, True

    def fail(clause, i, desc, bad=()):
        key = "refcount:c:%s:%s:%s" % (kind, clause, h[i][0] + ("-" + h[i][1] if h[i][0] == "cmpraise" else ""))
        reported[key] = reported.get(key, 0) + 1
        if reported[key] <= 2:          # two witnesses per contract and configuration
            s.failures.append(Failure(key=key, desc="%s sizes=%s call #%d %r: %s" % (tag, sizes, i + 1, h[i], desc),
                                      repro={"family": fam, "kind": kind, "impl": "c", "sizes": list(sizes),
                                             "history": [list(map(repr, o)) for o in h[:i + 1]],
                                             "legend": "kN / vN: N-th key / value object; operand u = {k1,k3,k4 -> v1}"}))
        return any(d < 0 for _, d in bad)          # under-referenced: unsafe to go on

    def diff(now, exp):
        return [(repr(o), x - e) for o, x, e in zip(W.tracked, now, exp) if x != e]

    sl2 = None
    for i, op0 in enumerate(h):
        rc, sl, cr = W.refs(), W.slots(), W.crefs()
        try:
            op = W.subst(op0)
            res = H.apply_impl(W.t, op) if op[0] in H_OPS else ("ret", apply_extra(W, op))
        except Exception as e:
            res = ("exc", type(e).__name__)
        op = None
        s.evaluations += 1
        sl2 = W.slots()
        held = H.slot_counts([res], W.tracked)
        bad = diff(W.refs(), [r + b - a + x for r, a, b, x in zip(rc, sl, sl2, held)])
        if bad:
            clean = False
            if fail("held", i, "while the result %.80r is held: (object, surplus references) %r" % (res, bad[:4]), bad):
                KEEP.append((W, res))
                return False
        res = None
        bad2 = diff(W.refs(), [r + b - a for r, a, b in zip(rc, sl, sl2)])
        if bad2 and bad2 != bad:
            clean = False
            if fail("after", i, "after dropping the result: (object, surplus references) %r" % (bad2[:4],), bad2):
                KEEP.append(W)
                return False
        if W.crefs() != cr:
            clean = False
            fail("container", i, "the containers (self, operand) gained %r references" % ([b - a for a, b in zip(cr, W.crefs())],))
    if not clean:           # only surplus references: releasing ours is safe, the end check is pointless
        return False
    shapes.add(repr(H.shape(W.t, W.is_set)) if W.is_tree and W.t._p_changed is not None else repr(sl2))
    # destroying the containers releases everything
    W.t = W.u = W.copy = W.jar = None
    gc.collect()
    bad = diff(W.refs(), W.base0)
    wr = [weakref.ref(o) for o in W.tracked]
    W.tracked, W.kk, W.vv, W.bad = [], [], [], None
    alive = [repr(r()) for r in wr if r() is not None]
    if bad or alive:
        s.failures.append(Failure(key="refcount:c:%s:end" % kind, repro={"family": fam, "kind": kind, "sizes": list(sizes),
                                  "history": [list(map(repr, o)) for o in h]},
                                  desc="%s sizes=%s: after destroying all containers (object, surplus references) %r; finalizers "
                                       "that did not fire: %r" % (tag, sizes, bad[:4], alive[:4])))
        return False
    return True


H_OPS = ("setitem", "delitem", "insert", "setdefault", "pop", "popitem", "update", "clear", "get", "getitem", "contains",
         "has_key", "len", "bool", "add", "remove", "discard", "spop", "supdate", "ior", "iand", "isub", "ixor")


def run_config(s, fam, kind, sizes, n_random, samples):
    is_set, is_tree = kind in ("Set", "TreeSet"), kind in ("BTree", "TreeSet")
    cls = H.get_class(fam, kind, "c", *(sizes if is_tree else (None, None)))
    mod = H.family_module(fam)
    kr, vr = [R("k", i) for i in range(6)], [R("v", i) for i in range(3)]
    core = H.alphabet(fam, is_set, kr, vr, rich=False, tree=is_tree)
    full = H.alphabet(fam, is_set, kr, vr, rich=True, tree=is_tree) + 2 * extra_ops(is_set, is_tree, kr, vr, mod)
    put = (lambda i: ("add", kr[i])) if is_set else (lambda i: ("setitem", kr[i], vr[i % 3]))
    rem = (lambda i: ("remove", kr[i])) if is_set else (lambda i: ("delitem", kr[i]))
    up, down = list(range(6)), list(range(5, -1, -1))
    scripted = [tuple([put(i) for i in a] + [rem(i) for i in b]) for a in (up, down) for b in (up, down)]
    scripted += [tuple([put(i) for i in up] + [x]) for x in extra_ops(is_set, is_tree, kr, vr, mod)]
    reported, shapes = {}, set()
    gen = H.histories(core, full, H.seed() * 7919 + hash((fam, kind, sizes)) % 1000,
                      exhaustive_len=2, n_random=n_random, random_len=24)
    for n, h in enumerate(scripted + list(gen)):
        gc.freeze()              # keeps the gc.collect() of run_history cheap
        ok = run_history(s, fam, kind, sizes, cls, mod, h, reported, shapes)
        if len(samples) < 2 and ok and len(h) > 12:
            samples.append({"family": fam, "kind": kind, "sizes": list(sizes), "history": [list(map(repr, o)) for o in h]})
    s.distinct_nontrivial += len(shapes)


def main():
    ap = argparse.ArgumentParser()
    ap.add_argument("--out")
    a = ap.parse_args()
    quick = H.tier() == "quick"
    sizes = [(2, 2), (3, 2)] if quick else [(2, 2), (3, 2), (2, 3), (4, 3)]
    n_random = 1500 if quick else 10000
    s = Standin(name="refcount_rt",
                bound="C extension, families with object keys and/or object values; per (family, kind, node sizes %s): 4 scripted "
                      "fill/empty histories over 6 keys, one fill + each extra operation, every history of <= 2 core mutators, %d "
                      "seeded histories of 12..24 calls over the public alphabet + range sequences, byValue, set algebra "
                      "(functions and operators), conflict merges, pickling, __setstate__ copies, eviction / invalidation with a "
                      "stub jar, error paths (unusable key / value, a key whose comparisons raise); ownership equation checked "
                      "after every call" % (sizes, n_random),
                rule="case = one call of one history with the ownership equation evaluated twice (result held / dropped) on every "
                     "tracked object; distinct non-trivial = distinct final shapes (trees) / final slot vectors (leaves) reached",
                functions=["_bucket_set", "_BTree_set", "BTree_grow", "BTree_split", "_BTree_clear", "_bucket_clear", "bucket_pop",
                           "BTree_pop", "Set_pop", "TreeSet_pop", "bucket_byValue", "BTree_byValue", "BTree_rangeSearch",
                           "BTreeItems_*", "set_operation", "bucket_merge", "_bucket_setstate", "_BTree_setstate",
                           "bucket_getstate", "BTree_getstate", "BTree__p_deactivate", "bucket__p_deactivate", "update_from_seq",
                           "set_i*/TreeSet_i*", "Set_isdisjoint"])
    gc.disable()
    samples = []
    for fam in H.fams():
        if "O" not in fam:
            continue
        for kind in ("BTree", "TreeSet", "Bucket", "Set"):
            if kind in ("TreeSet", "Set") and fam[0] != "O":
                continue                           # nothing tracked in an int-keyed set
            for sz in (sizes if kind in ("BTree", "TreeSet") else [(None, None)]):
                run_config(s, fam, kind, sz, n_random, samples)
    s.samples = samples
    write_standin(a.out, s)
    if s.failures:
        sys.stdout.flush()
        os._exit(0)          # objects of failed histories may be under-referenced: no interpreter teardown


if __name__ == "__main__":
    main()
