"""Sidecar contracts for the leaf layer of /repo/src/BTrees/_base.py
(_BucketBase, Bucket, Set).  Clause text is Python expression syntax, see
pyvc/spec.py.  Postconditions are taken from the property statements
(properties.jsonl), shapes and frames from the code (DESIGN.md 5.2, 5.3)."""
from pyvc.spec import Contract

WF_KEYS = "sorted_strict(self._keys)"
WF_BUCKET = {
    "sorted": WF_KEYS,
    "paired": "len(self._values) == len(self._keys)",
    # shape of the heap, not of the data: the two lists are distinct objects
    "noalias": "self._keys is not self._values",
}
WF_SET = {"sorted": WF_KEYS}

SEARCH_ENS = {
    "found": "implies(result >= 0, result < len(self._keys) and self._keys[result] == key)",
    "absent_range": "implies(result < 0, 0 <= -result - 1 and -result - 1 <= len(self._keys))",
    "absent_left": "implies(result < 0, forall(0, -result - 1, lambda j: self._keys[j] < key))",
    "absent_right": "implies(result < 0, forall(-result - 1, len(self._keys), lambda j: key < self._keys[j]))",
}

CONTRACTS = []
LEAF = ["Bucket", "Set"]


def C(*a, **k):
    c = Contract(*a, **k)
    CONTRACTS.append(c)
    return c


for cls in ("Bucket", "Set"):
    pass

# The leaf search: same body for Bucket and Set (defined on _BucketBase); it
# is verified once with the receiver's class left symbolic.
C("_BucketBase._search", cls=LEAF, params={"key": "K"},
  requires={"sorted": WF_KEYS},
  returns="int", ensures=SEARCH_ENS, modifies=[],
  loops=[{
      "inv": {
          "alias": "keys is self._keys",
          "bounds": "0 <= low and low <= high and high <= len(keys)",
          "left": "forall(0, low, lambda j: keys[j] < key)",
          "right": "forall(high, len(keys), lambda j: key < keys[j])",
      },
      "dec": "high - low",
  }],
  props=["C01", "C02", "C09"])

# --------------------------------------------------------------------------
# view-level helper clauses (strongest postconditions over the whole leaf)

UNCHANGED_KEYS = ("self._keys is old(self._keys) and len(self._keys) == old(len(self._keys)) and "
                  "forall(0, len(self._keys), lambda j: self._keys[j] == old(self._keys[j]))")
UNCHANGED_VALUES = ("self._values is old(self._values) and len(self._values) == old(len(self._values)) and "
                    "forall(0, len(self._values), lambda j: self._values[j] == old(self._values[j]))")
PRESENT = "exists(0, old(len(self._keys)), lambda j: old(self._keys[j]) == key)"
ABSENT = "forall(0, old(len(self._keys)), lambda j: old(self._keys[j]) != key)"


def inserted(lst, x):
    """`lst` is old(lst) with x inserted at the unique sorted position."""
    return ("len(self.%(l)s) == old(len(self.%(l)s)) + 1 and "
            "exists(0, len(self.%(l)s), lambda p: self.%(l)s[p] == %(x)s and "
            "forall(0, p, lambda j: self.%(l)s[j] == old(self.%(l)s[j])) and "
            "forall(p + 1, len(self.%(l)s), lambda j: self.%(l)s[j] == old(self.%(l)s[j - 1])))"
            % {"l": lst, "x": x})


INS_BOTH = ("len(self._keys) == old(len(self._keys)) + 1 and len(self._values) == len(self._keys) and "
            "exists(0, len(self._keys), lambda p: self._keys[p] == key and self._values[p] == value and "
            "forall(0, p, lambda j: self._keys[j] == old(self._keys[j]) and self._values[j] == old(self._values[j])) and "
            "forall(p + 1, len(self._keys), lambda j: self._keys[j] == old(self._keys[j - 1]) and self._values[j] == old(self._values[j - 1])))")
DEL_BOTH = ("len(self._keys) == old(len(self._keys)) - 1 and len(self._values) == len(self._keys) and "
            "exists(0, old(len(self._keys)), lambda p: old(self._keys[p]) == key and result[1] == old(self._values[p]) and "
            "forall(0, p, lambda j: self._keys[j] == old(self._keys[j]) and self._values[j] == old(self._values[j])) and "
            "forall(p, len(self._keys), lambda j: self._keys[j] == old(self._keys[j + 1]) and self._values[j] == old(self._values[j + 1])))")
DEL_KEYS = ("len(self._keys) == old(len(self._keys)) - 1 and "
            "exists(0, old(len(self._keys)), lambda p: old(self._keys[p]) == key and "
            "forall(0, p, lambda j: self._keys[j] == old(self._keys[j])) and "
            "forall(p, len(self._keys), lambda j: self._keys[j] == old(self._keys[j + 1])))")
INS_KEYS = ("len(self._keys) == old(len(self._keys)) + 1 and "
            "exists(0, len(self._keys), lambda p: self._keys[p] == key and "
            "forall(0, p, lambda j: self._keys[j] == old(self._keys[j])) and "
            "forall(p + 1, len(self._keys), lambda j: self._keys[j] == old(self._keys[j - 1])))")
NOALIAS_B = {"noalias": "self._keys is not self._values"}

# ---- Bucket._set ----------------------------------------------------------
C("Bucket._set", cls="Bucket",
  params={"key": "K", "value": "V", "ifunset": "bool"},
  requires=dict(WF_BUCKET),
  returns=[("tuple", ["none", "V"]), ("tuple", ["int", "V"])],
  ensures={
      "wf_sorted": WF_KEYS,
      "wf_paired": "len(self._values) == len(self._keys)",
      "same_lists": "self._keys is old(self._keys) and self._values is old(self._values)",
      # key present and (ifunset or value-same): nothing changes, status None, returns stored value
      "present_kept": "implies(result[0] is None, " + UNCHANGED_KEYS + " and " + UNCHANGED_VALUES +
                      " and exists(0, len(self._keys), lambda p: self._keys[p] == key and result[1] == self._values[p]))",
      "none_only_if_present": "implies(result[0] is None, " + PRESENT + ")",
      "none_if_present_ifunset": "implies(" + PRESENT + " and ifunset, result[0] is None)",
      "none_without_ifunset": "implies(result[0] is None and not ifunset, result[1] == value)",
      "status_domain": "result[0] is None or result[0] == 0 or result[0] == 1",
      # replace: keys unchanged, exactly the slot of key now holds value
      "replaced": "implies(result[0] == 0, " + UNCHANGED_KEYS + " and len(self._values) == old(len(self._values)) and result[1] == value and " + PRESENT + " and "
                  "forall(0, len(self._keys), lambda j: self._values[j] == (value if self._keys[j] == key else old(self._values[j]))))",
      "inserted": "implies(result[0] == 1, " + ABSENT + " and result[1] == value and " + INS_BOTH + ")",
      "absent_inserts": "implies(" + ABSENT + ", result[0] == 1)",
      "flagged": "implies(result[0] is not None, changed(self))",
      "unflagged": "implies(result[0] is None, changed(self) == old(changed(self)))",
      "ghost_keyset": "set_eq(elems(self._keys), sadd(old(elems(self._keys)), key)) if result[0] == 1 else "
                      "set_eq(elems(self._keys), old(elems(self._keys)))",
  },
  modifies=["list:self._keys", "list:self._values", "self._p_changed"],
  props=["C01", "C03", "C04", "C09", "C15"])

C("Bucket._del", cls="Bucket", params={"key": "K"},
  requires=dict(WF_BUCKET),
  returns=("tuple", ["int", "V"]),
  ensures={
      "wf_sorted": WF_KEYS,
      "removed": DEL_BOTH,
      "status": "result[0] == 0",
      "flagged": "changed(self)",
      "same_lists": "self._keys is old(self._keys) and self._values is old(self._values)",
  },
  raises={"KeyError": {"absent": ABSENT, "flag_same": "changed(self) == old(changed(self))"}},
  modifies=["list:self._keys", "list:self._values", "self._p_changed"],
  props=["C01", "C03", "C04", "C09", "C15"])

C("Set._set", cls="Set",
  params={"key": "K", "value": ["none", "V"], "ifunset": "bool"},
  requires=dict(WF_SET),
  returns=("tuple", ["bool", "none"]),
  ensures={
      "wf_sorted": WF_KEYS,
      "same_list": "self._keys is old(self._keys)",
      "added": "implies(result[0], " + ABSENT + " and " + INS_KEYS + ")",
      "kept": "implies(not result[0], " + PRESENT + " and " + UNCHANGED_KEYS + ")",
      "flagged": "implies(result[0], changed(self))",
      "unflagged": "implies(not result[0], changed(self) == old(changed(self)))",
  },
  modifies=["list:self._keys", "self._p_changed"],
  props=["C01", "C03", "C04", "C09", "C15"])

C("Set._del", cls="Set", params={"key": "K"},
  requires=dict(WF_SET),
  returns=("tuple", ["int", "int"]),
  ensures={
      "wf_sorted": WF_KEYS,
      "removed": DEL_KEYS,
      "status": "result[0] == 0",
      "flagged": "changed(self)",
      "same_list": "self._keys is old(self._keys)",
  },
  raises={"KeyError": {"absent": ABSENT, "flag_same": "changed(self) == old(changed(self))"}},
  modifies=["list:self._keys", "self._p_changed"],
  props=["C01", "C03", "C04", "C09", "C15"])

# --------------------------------------------------------------------------
# range search (C02).  Oracle from the property statement: an omitted / None
# bound is unbounded; an exclusive omitted bound drops only the overall
# smallest (largest) key.
BOUND = ["marker", "none", "any", "K"]
LO_OK = ("((j >= 1 or not excludemin) if (min is _marker or min is None) else "
         "((self._keys[j] > to_key(min)) if excludemin else (self._keys[j] >= to_key(min))))")
HI_OK = ("((j < len(self._keys) - 1 or not excludemax) if (max is _marker or max is None) else "
         "((self._keys[j] < to_key(max)) if excludemax else (self._keys[j] <= to_key(max))))")
RANGE_PARAMS = {"min": BOUND, "max": BOUND, "excludemin": "bool", "excludemax": "bool"}

C("_BucketBase._range", cls=LEAF, params=RANGE_PARAMS,
  requires={"sorted": WF_KEYS},
  returns=("tuple", ["int", "int"]),
  ensures={
      "in_bounds": "0 <= result[0] and result[1] <= len(self._keys) and result[0] <= len(self._keys) + 1 and -1 <= result[1]",
      "nonneg_end": "result[1] >= 0 or len(self._keys) == 0",
      "exact": "forall(0, len(self._keys), lambda j: (result[0] <= j and j < result[1]) == (" + LO_OK + " and " + HI_OK + "))",
  },
  raises={"TypeError": {}}, modifies=[],
  props=["C02"])

SLICE_BOUNDS = "0 <= a and a <= len(self._keys) and a + len(result) <= len(self._keys)"
SLICE_WHICH = ("forall(0, len(self._keys), lambda j: (a <= j and j < a + len(result)) == (" + LO_OK + " and " + HI_OK + "))")
SLICE_COPY_K = "forall(0, len(result), lambda i: result[i] == self._keys[a + i])"
SLICE_COPY_V = "forall(0, len(result), lambda i: result[i] == self._values[a + i])"
# ghost out-parameter: where the returned slice starts (bound from the local at `return`)
SLICE_WIT = {"a": "start if start <= len(self._keys) else len(self._keys)"}

C("_BucketBase.keys", cls=LEAF, params=RANGE_PARAMS, ghost={"forward": "_BucketBase._range", "witness": SLICE_WIT},
  requires={"sorted": WF_KEYS},
  returns="list:K",
  ensures={"bounds": SLICE_BOUNDS, "exact": SLICE_WHICH, "copy": SLICE_COPY_K, "fresh": "fresh(result)"},
  raises={"TypeError": {}}, modifies=[],
  props=["C02"])

C("Bucket.values", cls="Bucket", params=RANGE_PARAMS, ghost={"forward": "_BucketBase._range", "witness": SLICE_WIT},
  requires=dict(WF_BUCKET),
  returns="list:V",
  ensures={"bounds": SLICE_BOUNDS, "exact": SLICE_WHICH, "copy": SLICE_COPY_V, "fresh": "fresh(result)"},
  raises={"TypeError": {}}, modifies=[],
  props=["C02"])

IN_KEYS = "exists(0, len(self._keys), lambda j: self._keys[j] == result)"
C("_BucketBase.minKey", cls=LEAF, params={"key": BOUND},
  requires={"sorted": WF_KEYS},
  returns="K",
  ensures={
      "member": IN_KEYS,
      "least": "forall(0, len(self._keys), lambda j: result <= self._keys[j]) if (key is _marker or key is None) else "
               "(result >= to_key(key) and forall(0, len(self._keys), lambda j: implies(self._keys[j] >= to_key(key), result <= self._keys[j])))",
  },
  raises={"ValueError": {"none": "len(self._keys) == 0 if (key is _marker or key is None) else "
                                 "forall(0, len(self._keys), lambda j: self._keys[j] < to_key(key))"},
          "TypeError": {"only_for_an_unusable_bound": "key is not _marker and key is not None and not key_ok(key)"}},
  modifies=[], props=["C02", "C09"])

C("_BucketBase.maxKey", cls=LEAF, params={"key": BOUND},
  requires={"sorted": WF_KEYS},
  returns="K",
  ensures={
      "member": IN_KEYS,
      "greatest": "forall(0, len(self._keys), lambda j: result >= self._keys[j]) if (key is _marker or key is None) else "
                  "(result <= to_key(key) and forall(0, len(self._keys), lambda j: implies(self._keys[j] <= to_key(key), result >= self._keys[j])))",
  },
  raises={"ValueError": {"none": "len(self._keys) == 0 if (key is _marker or key is None) else "
                                 "forall(0, len(self._keys), lambda j: self._keys[j] > to_key(key))"},
          "TypeError": {"only_for_an_unusable_bound": "key is not _marker and key is not None and not key_ok(key)"}},
  modifies=[], props=["C02", "C09"])

# --------------------------------------------------------------------------
# public leaf API (C01, C09, C13): conversion first, then the proved core
ANYKEY = "any"
TKP = "exists(0, old(len(self._keys)), lambda j: old(self._keys[j]) == to_key(key))"
TKA = "forall(0, old(len(self._keys)), lambda j: old(self._keys[j]) != to_key(key))"
NOCHANGE_B = {"keys_same": UNCHANGED_KEYS, "values_same": UNCHANGED_VALUES,
              "flag_same": "changed(self) == old(changed(self))"}
NOCHANGE_S = {"keys_same": UNCHANGED_KEYS, "flag_same": "changed(self) == old(changed(self))"}

C("Bucket.get", cls="Bucket", params={"key": ANYKEY, "default": ["none", "V"]},
  requires=dict(WF_BUCKET), returns=["V", "none"],
  ensures={
      "hit": "implies(key_ok(key), forall(0, len(self._keys), lambda j: implies(self._keys[j] == to_key(key), result == self._values[j])))",
      "miss": "implies(not key_ok(key) or " + TKA + ", result is default)",
  }, modifies=[], props=["C01", "C09", "C13"])

C("Bucket.__getitem__", cls="Bucket", params={"key": ANYKEY},
  requires=dict(WF_BUCKET), returns="V",
  ensures={"hit": "exists(0, len(self._keys), lambda j: self._keys[j] == to_key(key) and result == self._values[j])"},
  raises={"KeyError": {}},      # absent or unconvertible key (C09: lookups report absence)
  modifies=[], props=["C01", "C09", "C13"])

C("_BucketBase.__contains__", cls=LEAF, params={"key": ANYKEY},
  requires={"sorted": WF_KEYS}, returns="bool",
  ensures={"exact": "result == (key_ok(key) and " + TKP + ")"},
  modifies=[], props=["C01", "C09", "C13"])

TK_INS_BOTH = INS_BOTH.replace("== key and", "== to_key(key) and").replace("== value and", "== to_value(value) and")
C("Bucket.__setitem__", cls="Bucket", params={"key": [ANYKEY, "K"], "value": ["any", "V"]},
  requires=dict(WF_BUCKET), returns="none",
  ensures={
      "wf_sorted": WF_KEYS, "wf_paired": "len(self._values) == len(self._keys)",
      "same_lists": "self._keys is old(self._keys) and self._values is old(self._values)",
      "stored": "exists(0, len(self._keys), lambda p: self._keys[p] == to_key(key) and self._values[p] == to_value(value))",
      "size": "len(self._keys) == old(len(self._keys)) + (0 if " + TKP + " else 1)",
      # whole view: exactly one slot inserted, or exactly one value replaced
      "inserted_view": "implies(" + TKA + ", " + TK_INS_BOTH + ")",
      "replaced_view": "implies(" + TKP + ", " + UNCHANGED_KEYS + " and len(self._values) == old(len(self._values)) and "
                       "forall(0, len(self._keys), lambda j: self._values[j] == (to_value(value) if self._keys[j] == to_key(key) else old(self._values[j]))))",
      "ghost_keyset": "set_eq(elems(self._keys), sadd(old(elems(self._keys)), to_key(key))) if " + TKA + " else "
                      "set_eq(elems(self._keys), old(elems(self._keys)))",
  },
  raises={"TypeError": dict(NOCHANGE_B, only_if_unconvertible="not key_ok(key) or not value_ok(value)")},      # C13: rejected before the container is modified
  modifies=["list:self._keys", "list:self._values", "self._p_changed"],
  props=["C01", "C09", "C13"])

C("Bucket.__delitem__", cls="Bucket", params={"key": ANYKEY},
  requires=dict(WF_BUCKET), returns="none",
  ensures={"wf_sorted": WF_KEYS, "gone": "forall(0, len(self._keys), lambda j: self._keys[j] != to_key(key))",
           "size": "len(self._keys) == old(len(self._keys)) - 1 and len(self._values) == len(self._keys)"},
  raises={"KeyError": dict(NOCHANGE_B), "TypeError": dict(NOCHANGE_B)},
  modifies=["list:self._keys", "list:self._values", "self._p_changed"],
  props=["C01", "C09"])

C("Bucket.setdefault", cls="Bucket", params={"key": ANYKEY, "value": "any"},
  requires=dict(WF_BUCKET), returns="V",
  ensures={
      "wf_sorted": WF_KEYS, "wf_paired": "len(self._values) == len(self._keys)",
      "returns_stored": "exists(0, len(self._keys), lambda p: self._keys[p] == to_key(key) and self._values[p] == result)",
      "kept_if_present": "implies(" + TKP + ", " + UNCHANGED_KEYS + " and " + UNCHANGED_VALUES + ")",
      "new_if_absent": "implies(" + TKA + ", result == to_value(value) and len(self._keys) == old(len(self._keys)) + 1)",
  },
  raises={"TypeError": dict(NOCHANGE_B)},
  modifies=["list:self._keys", "list:self._values", "self._p_changed"],
  props=["C01", "C09", "C13"])

C("Bucket.pop", cls="Bucket", params={"key": ANYKEY, "default": ["marker", "V"]},
  requires=dict(WF_BUCKET), returns="V",
  ensures={
      "wf_sorted": WF_KEYS, "wf_paired": "len(self._values) == len(self._keys)",
      "present_removed": "implies(" + TKP + ", len(self._keys) == old(len(self._keys)) - 1 and "
                         "forall(0, len(self._keys), lambda j: self._keys[j] != to_key(key)) and "
                         "exists(0, old(len(self._keys)), lambda p: old(self._keys[p]) == to_key(key) and result == old(self._values[p])))",
      "absent_default": "implies(" + TKA + ", result is default and " + UNCHANGED_KEYS + " and " + UNCHANGED_VALUES + ")",
  },
  raises={"KeyError": dict(NOCHANGE_B, only_without_default="default is _marker", absent=TKA),
          "TypeError": dict(NOCHANGE_B)},
  modifies=["list:self._keys", "list:self._values", "self._p_changed"],
  props=["C01", "C09"])

C("Set.add", cls="Set", params={"key": ANYKEY},
  requires=dict(WF_SET), returns="bool",
  ensures={"wf_sorted": WF_KEYS,
           "member": "exists(0, len(self._keys), lambda p: self._keys[p] == to_key(key))",
           "result": "result == (" + TKA + ")",
           "size": "len(self._keys) == old(len(self._keys)) + (1 if result else 0)"},
  raises={"TypeError": dict(NOCHANGE_S)},
  modifies=["list:self._keys", "self._p_changed"], props=["C01", "C09", "C13"])

C("Set.remove", cls="Set", params={"key": ANYKEY},
  requires=dict(WF_SET), returns="none",
  ensures={"wf_sorted": WF_KEYS, "gone": "forall(0, len(self._keys), lambda j: self._keys[j] != to_key(key))",
           "size": "len(self._keys) == old(len(self._keys)) - 1"},
  raises={"KeyError": dict(NOCHANGE_S), "TypeError": dict(NOCHANGE_S)},
  modifies=["list:self._keys", "self._p_changed"], props=["C01", "C09"])

# ---- structure: split / unlink / clear / len ------------------------------
SPLIT_AT = "(index if (0 <= index and index < old(len(self._keys))) else old(len(self._keys)) // 2)"
C("Bucket._split", cls="Bucket", params={"index": "int"},
  requires=dict(WF_BUCKET), returns="ref:Bucket",
  ensures={
      "fresh": "fresh(result) and is_cls(result, 'Bucket') and fresh(result._keys) and fresh(result._values) and result._keys is not result._values",
      "left_len": "len(self._keys) == " + SPLIT_AT + " and len(self._values) == len(self._keys)",
      "right_len": "len(result._keys) == old(len(self._keys)) - " + SPLIT_AT + " and len(result._values) == len(result._keys)",
      "left_same": "forall(0, len(self._keys), lambda j: self._keys[j] == old(self._keys[j]) and self._values[j] == old(self._values[j]))",
      "right_same": "forall(0, len(result._keys), lambda j: result._keys[j] == old(self._keys[j + " + SPLIT_AT + "]) and result._values[j] == old(self._values[j + " + SPLIT_AT + "]))",
      "links": "result._next is old(self._next) and self._next is result",
      "wf_left": WF_KEYS, "wf_right": "sorted_strict(result._keys)",
      "flagged": "changed(self)",
      "same_lists": "self._keys is old(self._keys) and self._values is old(self._values)",
  },
  modifies=["list:self._keys", "list:self._values", "self._next", "self._p_changed"],
  ghost={"allocates": True}, props=["C01", "C03", "C04", "C15"])

C("Set._split", cls="Set", params={"index": "int"},
  requires=dict(WF_SET), returns="ref:Set",
  ensures={
      "fresh": "fresh(result) and is_cls(result, 'Set') and fresh(result._keys)",
      "left_len": "len(self._keys) == " + SPLIT_AT,
      "right_len": "len(result._keys) == old(len(self._keys)) - " + SPLIT_AT,
      "left_same": "forall(0, len(self._keys), lambda j: self._keys[j] == old(self._keys[j]))",
      "right_same": "forall(0, len(result._keys), lambda j: result._keys[j] == old(self._keys[j + " + SPLIT_AT + "]))",
      "links": "result._next is old(self._next) and self._next is result",
      "wf_left": WF_KEYS, "wf_right": "sorted_strict(result._keys)",
      "flagged": "changed(self)", "same_list": "self._keys is old(self._keys)",
  },
  modifies=["list:self._keys", "self._next", "self._p_changed"],
  ghost={"allocates": True}, props=["C01", "C03", "C04", "C15"])

C("_BucketBase._deleteNextBucket", cls=LEAF, params={},
  requires={}, returns="none",
  ensures={"unlinked": "self._next is (old(self._next)._next if old(self._next) is not None else None)",
           "flagged": "implies(old(self._next) is not None, changed(self))"},
  modifies=["self._next", "self._p_changed"], props=["C03", "C04"])

C("_BucketBase.clear", cls=LEAF, inline=True)

C("_BucketBase.__len__", cls=LEAF, params={}, requires={}, returns="int",
  ensures={"len": "result == len(self._keys)"}, modifies=[], props=["C01"])

C("_BucketBase.size", cls=LEAF, params={}, requires={}, returns="int",
  ensures={"len": "result == len(self._keys)"}, modifies=[], props=["C01", "C03"])

C("Bucket.clear", cls="Bucket", params={}, requires={}, returns="none",
  ensures={"empty": "len(self._keys) == 0 and len(self._values) == 0 and self._next is None",
           "fresh_lists": "fresh(self._keys) and fresh(self._values) and self._keys is not self._values",
           "flagged": "changed(self)"},
  modifies=["self._keys", "self._values", "self._next", "self._p_changed"],
  ghost={"allocates": True}, props=["C01", "C04"])
