"""Node-local contracts for the interior-node layer of _base.py, STRUCTURAL view
(C01/C03/C15: the pointer clauses that _check() tests - first bucket, leaf chain,
uniform non-empty children - are preserved by deletion, incl. the hand-off of an
emptied first leaf).  Contracts named "f#struct" are a second contract on the
real function f (pyvc views): inside the view, child calls resolve to the same
view, so a node is verified against the SAME contract assumed for its children
(L-height: induction on the height of the tree).

Children are abstracted by summaries (pyvc/spec.py fst / succ / nsize / wfsub):
    fst(x)   the leftmost leaf of x's subtree      (a leaf: x itself)
    succ(x)  what the rightmost leaf's _next holds (a leaf: x._next)
For an interior node they are ghost fields, DERIVED from its state at every exit
(ghost 'derive') by the unfolding law W5; for leaves they are the real fields.
Assumed, not proved (A8b): an operation on a child changes only that child's
subtree (I9) - expressed by the modifies lists; key order / separators are not
part of this view (C01's leaf contracts and _Tree._search carry those).
"""
from pyvc.spec import Contract

CONTRACTS = []
TREE = ["Tree", "TreeSet"]
NODE_PROPS = ["C03", "C04"]
NODE_PROPS_SET = []     # the insertion side: attached once the proofs are complete


def C(*a, **k):
    c = Contract(*a, **k)
    CONTRACTS.append(c)
    return c


D = "self._data"
N = "len(self._data)"


def c(i):
    return "self._data[%s].child" % i


def wf(pre=""):
    """The structural invariant of a non-empty interior node, clause by clause."""
    return {
        "kids": "forall(0, " + N + ", lambda i: " + c("i") + " is not None and " + c("i") + " is not self and "
                "cls_id(" + c("i") + ") == cls_id(" + c(0) + ") and nsize(" + c("i") + ") != 0 and fst(" + c("i") + ") is not None)",
        "kind": "cls_id(" + c(0) + ") == cls_id(self) or cls_id(" + c(0) + ") == bucket_cls_of(self)",
        "distinct": "forall(0, " + N + ", lambda i, j: implies(i < j, " + c("i") + " is not " + c("j") + " and self._data[i] is not self._data[j]))",
        "first": "self._firstbucket is fst(" + c(0) + ")",
        "kids_first": "forall(0, " + N + ", lambda i: implies(is_tree(" + c("i") + "), " + c("i") + "._firstbucket is fst(" + c("i") + ")))",
        "chain": "forall(0, " + N + " - 1, lambda i: succ(" + c("i") + ") is fst(" + c("i + 1") + "))",
        "subtrees": "forall(0, " + N + ", lambda i: wfsub(" + c("i") + "))",
        "leaves": "forall(0, " + N + ", lambda i: implies(is_leaf(" + c("i") + "), sorted_strict(" + c("i") + "._keys) and "
                  "implies(is_cls(" + c("i") + ", 'Bucket'), len(" + c("i") + "._values) == len(" + c("i") + "._keys) and "
                  + c("i") + "._keys is not " + c("i") + "._values)))",
        # shape of the heap: every node owns its list objects
        "own_list": "forall(0, " + N + ", lambda i: (" + c("i") + "._data is not self._data) if is_tree(" + c("i") + ") else "
                    "(" + c("i") + "._keys is not self._data and implies(is_cls(" + c("i") + ", 'Bucket'), " + c("i") + "._values is not self._data)))",
        "own_lists_kids": "forall(0, " + N + ", lambda i, j: implies(i < j, "
                          "(" + c("i") + "._data is not " + c("j") + "._data) if is_tree(" + c("i") + ") else "
                          "(" + c("i") + "._keys is not " + c("j") + "._keys and implies(is_cls(" + c("i") + ", 'Bucket'), "
                          + c("i") + "._keys is not " + c("j") + "._values and "
                          + c("i") + "._values is not " + c("j") + "._keys and " + c("i") + "._values is not " + c("j") + "._values))))",
    }


WF = wf()
LAW = {"law_fst": "fst(self) is fst(" + c(0) + ")", "law_succ": "succ(self) is succ(" + c(N + " - 1") + ")"}
WF_ALL = " and ".join("(" + v + ")" for v in list(WF.values()) + list(LAW.values()))
DERIVE = {
    "$fst": "fst(" + c(0) + ") if " + N + " > 0 else None",
    "$succ": "succ(" + c(N + " - 1") + ") if " + N + " > 0 else None",
    # "the subtree is well formed" IS the conjunction of the wf_* postcondition clauses (and, for an
    # empty node, "no first bucket")
    "$wf": "@and_ensures:wf_*|implies(" + N + " == 0, self._firstbucket is None)",
}
NODE_MOD = ["self.$fst", "self.$succ", "self.$wf", "self._firstbucket", "list:self._data", "self._p_changed"]

# what a caller must establish: the node's subtree is well formed ($wf, unfolded on entry by `derive`)
REQ = {"wf": "wfsub(self)"}

DEL_RET = ("tuple", ["int", "V"])        # (removed_first_bucket: False/True/0, value)

# index search without the order part: only "an index of a child" is needed here
C("_Tree._search#struct", cls=TREE, params={"key": "K"}, requires={}, returns="int",
  ensures={"empty": "implies(len(self._data) == 0, result == -1)",
           "in_range": "implies(len(self._data) > 0, 0 <= result and result < len(self._data))"},
  modifies=[],
  loops=[{"inv": {"alias": "data is self._data",
                  "bounds": "0 <= lo and lo < hi and hi <= len(data) and lo <= i and i < hi",
                  "mid": "i == (lo + hi) // 2"},
          "dec": "hi - lo"}],
  ghost={"of": "_Tree._search"}, props=["C03"])

# ASSUMED: the least key of a non-empty subtree (C02's subject); pure
C("_Tree.minKey#struct", cls=TREE, params={"min": ["marker"]}, requires={}, returns="K", ensures={}, modifies=[],
  trusted=True, ghost={"of": "_Tree.minKey", "no_compare": True})

C("_Tree._deleteNextBucket#struct", cls=TREE, params={}, returns="none",
  requires=dict(REQ, nonempty=N + " > 0"),
  ensures=dict({"wf_" + k: v for k, v in WF.items()},
               same_children="len(self._data) == old(len(self._data)) and self._data is old(self._data) and "
                             "forall(0, " + N + ", lambda i: " + c("i") + " is old(" + c("i") + "))",
               first_same="fst(self) is old(fst(self)) and self._firstbucket is old(self._firstbucket) and fst(self) is not None",
               unlinked="succ(self) is (old(succ(self))._next if old(succ(self)) is not None else None)",
               subtree_ok="wfsub(self)"),
  modifies=NODE_MOD, ghost={"of": "_Tree._deleteNextBucket", "derive": DERIVE, "no_frame": True, "no_compare": True},
  props=["C03"])

FIRST_MOVED = "(result[0] and " + N + " > 0)"
C("_Tree._del#struct", cls=TREE, params={"key": "K"}, returns=DEL_RET,
  requires=dict(REQ),
  ensures=dict({"wf_" + k: "implies(" + N + " > 0, " + v + ")" for k, v in WF.items()},
               first_bucket_is_first_leaf="implies(" + N + " > 0, self._firstbucket is fst(self) and fst(self) is not None)",
               # the emptied first leaf L went away: the subtree now starts at L's successor, and L keeps its own link
               first_moves="implies(" + FIRST_MOVED + ", fst(self) is old(fst(self))._next and "
                           "old(fst(self))._next is old(old(fst(self))._next))",
               first_stays="implies(not result[0], " + N + " > 0 and fst(self) is old(fst(self)))",
               successor_kept="implies(" + N + " > 0, succ(self) is old(succ(self)))",
               # the subtree became empty: its first leaf was also its last one
               emptied="implies(" + N + " == 0, result[0] and self._firstbucket is old(succ(self)) and "
                       "old(fst(self))._next is old(succ(self)) and old(fst(self))._next is old(old(fst(self))._next))",
               one_less_or_same="len(self._data) == old(len(self._data)) or len(self._data) == old(len(self._data)) - 1",
               # C04: whatever of the node's own serialised state changed (child list, a separator, the first
               # bucket) is announced; so is the change of an embedded (oid-less, only) leaf
               registered="changed(self) or (len(self._data) == old(len(self._data)) and self._firstbucket is old(self._firstbucket) and "
                          "forall(0, " + N + ", lambda i: self._data[i] is old(self._data[i]) and self._data[i].key == old(self._data[i].key)))",
               embedded_leaf_registered="implies(old(len(self._data)) == 1 and old(is_leaf(self._data[0].child)) and "
                                        "old(self._data[0].child._p_oid) is None, changed(self))",
               subtree_ok="implies(" + N + " > 0, wfsub(self))"),        # = the conjunction of the wf_* clauses (derived $wf)
  raises={"KeyError": {"first_same": "fst(self) is old(fst(self)) and self._firstbucket is old(self._firstbucket)",
                       "same_children": "len(self._data) == old(len(self._data)) and "
                                        "forall(0, " + N + ", lambda i: " + c("i") + " is old(" + c("i") + "))"}},
  modifies=NODE_MOD,
  ghost={"of": "_Tree._del", "derive": DERIVE, "no_frame": True, "raise_modifies": True, "prune_dispatch": True,
         "chain_post": True, "heavy": True,
         "uses": {"*:raises-only*": ["post:_Tree._search#struct:*", "post:*size:*", "unfold:*", "req:*"],
                  "*:post:subtree_ok": ["newpost:wf_*"]}},
  props=NODE_PROPS)


# ---------------------------------------------------------------------------
# insertion and splitting
DERIVE_OBJ = {"texts": {"$fst": DERIVE["$fst"], "$succ": DERIVE["$succ"]}, "wf": {k: "implies(" + N + " > 0, " + v + ")" for k, v in WF.items()},
              "extra": "implies(" + N + " == 0, self._firstbucket is None)"}
SET_RET = [("tuple", ["none", "V"]), ("tuple", ["int", "V"]), ("tuple", ["bool", "none"])]
WF_ENS = {"wf_" + k: "implies(" + N + " > 0, " + v + ")" for k, v in WF.items()}
LAW_ENS = {k: "implies(" + N + " > 0, " + v + ")" for k, v in LAW.items()}
RWF = {k: v.replace("self", "result") for k, v in WF.items()}
COMMON_GHOST = {"derive": DERIVE, "derive_obj": DERIVE_OBJ, "no_frame": True, "prune_dispatch": True, "chain_post": True, "heavy": True,
                "no_compare": True,
                "uses": {"*:raises-only*": ["post:_Tree._search#struct:*", "post:*size:*", "unfold:*", "req:*"],
                         "*:post:subtree_ok": ["newpost:wf_*", "newpost:nonempty"], "*:post:result_ok": ["newpost:rwf_*"]}}


def G(**kw):
    d = dict(COMMON_GHOST)
    d.update(kw)
    return d


C("_Tree._split#struct", cls=TREE, params={"index": ["none"]}, returns="ref",
  requires={"wf": "wfsub(self)", "two_or_more": N + " >= 2"},
  ensures=dict(WF_ENS, **dict({"rwf_" + k: v for k, v in RWF.items()}, **{
      "new_node": "fresh(result) and cls_id(result) == cls_id(self) and fresh(result._data) and result._data is not self._data",
      "halves": "len(self._data) == old(len(self._data)) // 2 and len(result._data) == old(len(self._data)) - old(len(self._data)) // 2 and "
                "self._data is old(self._data)",
      "left_children": "forall(0, " + N + ", lambda i: self._data[i] is old(self._data[i]))",
      "right_children": "forall(0, len(result._data), lambda i: result._data[i] is old(self._data[i + len(self._data) // 2]))",
      "first_same": "fst(self) is old(fst(self)) and self._firstbucket is old(self._firstbucket)",
      "result_first_leaf": "fst(result) is old(fst(self._data[len(self._data) // 2].child)) and fst(result) is not None",
      "result_first_bucket": "result._firstbucket is fst(result)",
      "left_last": "succ(self) is old(succ(self._data[len(self._data) // 2 - 1].child))",
      "linked": "succ(self) is fst(result)",
      "successor_moved": "succ(result) is old(succ(self))",
      "subtree_ok": "wfsub(self)",
      "result_ok": "wfsub(result)",
  })),
  modifies=NODE_MOD, ghost=G(of="_Tree._split", derive_result="rwf_", allocates=True),
  props=NODE_PROPS)

FIRST_SAME = "fst(self) is old(fst(self)) and self._firstbucket is old(self._firstbucket)"
ITEMS_SAME = ("len(self._data) == old(len(self._data)) and self._firstbucket is old(self._firstbucket) and "
              "forall(0, " + N + ", lambda i: self._data[i] is old(self._data[i]) and self._data[i].key == old(self._data[i].key))")

C("_Tree._grow#struct", cls=TREE, params={"child": "ref", "index": "int"}, returns="none",
  requires={"wf": "wfsub(self)", "the_child": "0 <= index and index < " + N + " and child is " + c("index"),
            "splittable": "nsize(child) >= 2"},
  ensures=dict(WF_ENS, nonempty=N + " > 0", **dict(LAW_ENS, first_same=FIRST_SAME, successor_kept="succ(self) is old(succ(self))",
               registered="changed(self)", subtree_ok="wfsub(self)")),
  modifies=NODE_MOD, ghost=G(of="_Tree._grow", refresh_before={"_split_root": ["self"]}, allocates=True),
  props=NODE_PROPS)

C("_Tree._split_root#struct", cls=TREE, params={}, returns="none",
  requires={"wf": "wfsub(self)", "two_or_more": N + " >= 2"},
  ensures=dict(WF_ENS, nonempty=N + " > 0", **dict(LAW_ENS, first_same=FIRST_SAME, successor_kept="succ(self) is old(succ(self))",
               registered="changed(self)", subtree_ok="wfsub(self)")),
  modifies=NODE_MOD, ghost=G(of="_Tree._split_root", refresh_before={"_grow": ["child", "self"]}, allocates=True),
  props=NODE_PROPS)

C("_Tree._set#struct", cls=TREE, params={"key": "K", "value": ["none", "V"], "ifunset": "bool"}, returns=SET_RET,
  requires={"wf": "wfsub(self)",
            # class configuration (DESIGN 5.3, I7): node sizes are at least 1 (the shipped ones are 30..120; the C
            # implementation rejects non-positive ones), otherwise a split would leave an empty half
            "node_sizes": "max_leaf_size >= 1 and max_internal_size >= 1"},
  ensures=dict(WF_ENS, nonempty=N + " > 0", **dict(LAW_ENS,
               first_same="implies(old(len(self._data)) > 0, " + FIRST_SAME + " and succ(self) is old(succ(self)))",
               first_created="implies(old(len(self._data)) == 0, fresh(fst(self)) and succ(self) is None and self._firstbucket is fst(self))",
               registered="changed(self) or (" + ITEMS_SAME + ")",
               embedded_leaf_registered="implies(result[0] is not None and " + N + " == 1 and is_leaf(" + c(0) + ") and " + c(0) + "._p_oid is None, changed(self))",
               subtree_ok="wfsub(self)")),
  raises={"*": {}},
  modifies=NODE_MOD, ghost=G(of="_Tree._set", refresh_before={"_grow": ["self"]}, allocates=True, raise_modifies=True),
  props=NODE_PROPS)
