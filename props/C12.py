"""C12 - weighted union / intersection follow the documented formula."""
from props import _generic as g


def run(ctx):
    fns = g.run_pyvc(ctx, "C12")
    from pyvc import attached
    ctx.obligations.extend(attached.check("C12"))
    ctx.standin("weighted_rt", families=tuple("II,IF,LL,OI".split(",")))
    return "proof", (
        "Engine P: weightedUnion and weightedIntersection of _base.py are proved from their real bodies (with the real "
        "MERGE and _AbstractNativeDataType.apply_weight inlined, _prepMergeIterators inlined) against the documented "
        "table: None short-circuits with the documented weights; otherwise a NEW strictly sorted container whose key set is "
        "exactly the union / intersection, of mapping kind iff an operand has values, weight 1 (intersection of two sets: "
        "w1 + w2), and for every result position r: value[r] == v1*w1 + v2*w2 for a common key (a set member counts one()), "
        "v*w for a key of one side only - values and weights are terms of the family's value type with uninterpreted *, + "
        "(+ commutative), so the clause is the formula itself, for ints of any width and floats alike; the operand swap is "
        "covered (invariant over the original operands and weights). %d targets incl. the cursor and two prefix-set lemmas. "
        "attached:* obligations tie MERGE / MERGE_WEIGHT / MERGE_DEFAULT / multiplication_identity == 1 to "
        "_module_builder.py and _datatypes.py as read from the source. The C implementation and object keys incl. None "
        "are the bounded stand-in weighted_rt." % len(fns))
